#!/usr/bin/env python3
"""Resolve the routine merge conflicts between agent branches: union of line-oriented files, regenerate generated files."""
import subprocess, sys, re
def show(stage, path):
    return subprocess.run(f"git show :{stage}:{path}", shell=True, capture_output=True, text=True).stdout
def union_lines(path):
    ours, theirs = show(2, path).splitlines(), show(3, path).splitlines()
    out = list(ours)
    for l in theirs:
        if l not in out: out.append(l)
    open(path, "w").write("\n".join(out) + "\n")
def union_claims(path):
    # manifest_claims.py: blocks separated by blank lines starting with claim("Cxx"
    ours, theirs = show(2, path), show(3, path)
    blocks = re.findall(r'(?ms)^claim\("(C\d+)".*?^\s*"[^\n]*"\)\n', theirs)
    out = ours
    for m in re.finditer(r'(?ms)^claim\("(C\d+)".*?\)\n(?=\n|\Z)', theirs):
        if f'claim("{m.group(1)}"' not in ours:
            out += "\n" + m.group(0)
    open(path, "w").write(out)
for p in sys.argv[1:]:
    if p.endswith("manifest_claims.py"): union_claims(p)
    else: union_lines(p)
