# Per-property claims; exec'd by gen_manifest.py
NOT_APPLICABLE = {}
TB = "Trusted: rustc/cargo, the harness (explorer, sandbox, reference model; reference self-checked at start-up), Linux rlimits. Nothing is claimed beyond the stated alphabet and bounds, which the evidence file echoes."

claim("C15",
  "Exhaustive enumeration, on the real GdsFloat64::encode/decode and on UNITS/MAG/ANGLE records via write/from_bytes, of a structured alphabet of doubles (every binary exponent of the GDSII range x sign x every value within 3 ulp of each power of two, all 1- and 2-bit fraction patterns, ...) and of normalised 8-byte reals (every exponent byte x all rounding cases), each judged by an exact integer-arithmetic reference (unique normalised encoding, round-to-nearest-even decode). Decides the property for every value of the alphabet; values outside it are not covered.",
  TB, "explicit-state exhaustive enumeration of the value alphabet on the real codec vs exact integer reference model")
