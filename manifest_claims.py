# Per-property claims; exec'd by gen_manifest.py
NOT_APPLICABLE = {}
TB = "Trusted: rustc/cargo, the harness (explorer, sandbox, reference model; reference self-checked at start-up), Linux rlimits. Nothing is claimed beyond the stated alphabet and bounds, which the evidence file echoes."

claim("C15",
  "Exhaustive enumeration, on the real GdsFloat64::encode/decode and on UNITS/MAG/ANGLE records via write/from_bytes, of a structured alphabet of doubles (every binary exponent of the GDSII range x sign x every value within 3 ulp of each power of two, all 1- and 2-bit fraction patterns, ...) and of normalised 8-byte reals (every exponent byte x all rounding cases), each judged by an exact integer-arithmetic reference (unique normalised encoding, round-to-nearest-even decode). Decides the property for every value of the alphabet; values outside it are not covered.",
  TB, "explicit-state exhaustive enumeration of the value alphabet on the real codec vs exact integer reference model")

claim("C13",
  "Exhaustive enumeration on the real ShapeTrait::contains (Rect, Polygon, Path, and through the Shape enum): every rectangle on a 5x5 grid, every simple polygon given by any sequence of 3..5 (thorough: also 6 on 4x4) distinct vertices on a 4x4 (thorough 5x5) grid - hence every vertex order, orientation, start vertex and collinear-vertex placement - each also with one repeated vertex, and every Manhattan path of 1..3 segments with width 0..4, each queried at every point of the surrounding grid and judged by exact integer geometry (boundary by zero cross product, winding number with half-open rule; the reference is cross-checked against an independent crossing-number implementation at start-up). Thorough adds a labelled random supplement of larger general / rectilinear / 45-degree polygons. Decides the property for all shapes of the grid alphabet; larger shapes are only sampled.",
  TB + " Paths: only the two point sets the statement fixes are judged (end caps / corner squares are don't-care).",
  "explicit-state exhaustive enumeration of all small-grid shapes x all grid query points on the real code vs exact integer geometry")

claim("C12",
  "Exhaustive enumeration on the real Transform::{from_instance, translate, rotate, reflect_vert, cascade}, Point::transform and Layout::flatten: all right-angle orientations (with the None / Some(0) spellings) x a witness offset alphabet incl. the i32 extremes x every point of a 9x9 grid, judged three ways (from_instance == composition of the library's elementary transforms == exact integer signed-permutation map); every chain of depth 1..3 (thorough 4) over 8 orientations x 3 offsets per level both as cascaded transforms and through flatten() of a really nested layout holding a rectangle, an asymmetric polygon and a path (exact images shape by shape, mirror orientation iff odd number of reflections); every integer degree 0..359 x reflect within half a unit of a double-precision reference. Decides the property on that alphabet; non-integer angles are not covered.",
  TB, "explicit-state exhaustive enumeration of orientation words x offsets x grid points on the real code vs exact integer affine maps")
