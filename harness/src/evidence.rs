//! evidence/<id>.json writer (conforms to /root/.vp/EVIDENCE.schema.json, level model_checking).

use crate::core::*;
use crate::known::Known;
use serde_json::{json, Value};

#[allow(clippy::too_many_arguments)]
pub fn build(
    driver: &dyn Driver,
    tier: Tier,
    stats: &Stats,
    distinct: u64,
    distinct_nt: u64,
    wall: f64,
    workers: usize,
    units: usize,
    crashes: usize,
    capped: bool,
    known_all: &[Known],
) -> Value {
    let d = driver.describe(tier);
    let id = driver.id();
    let mut samples = stats.samples.clone();
    if samples.is_empty() {
        samples.push(json!({"note": "no sample recorded"}));
    }
    let exhaustive = driver.exhaustive(tier) && !capped;
    let known_matched: Vec<Value> = stats
        .known
        .iter()
        .map(|(k, h)| {
            let text = known_all.iter().find(|x| x.property == id && x.matcher == *k).map(|x| x.text.clone()).unwrap_or_default();
            json!({"match": k, "text": text, "cases": h.count, "first_case": h.first_key, "first_what": h.first_what})
        })
        .collect();
    let evaluations = stats.evaluations.max(stats.executions);
    let mut assumptions = d.assumptions.clone();
    assumptions.push("rustc/cargo, the harness explorer + sandbox + reference models (self-checked at start-up and by the seeded-change self-test), Linux rlimits".into());
    json!({
        "property_id": id,
        "tier": tier.name(),
        "seed": crate::sandbox::seed(),
        "level": "model_checking",
        "coverage": {
            "states": distinct,
            "transitions": stats.transitions.max(1),
            "traces_validated_against_impl": stats.executions,
            "samples": samples,
            "evaluations": evaluations,
            "distinct_nontrivial": distinct_nt,
            "rule": d.rule,
            "technique": d.technique,
            "exhaustive": exhaustive,
            "deviation_bound_completed": driver.deviation_bound(tier),
            "max_deviation_seen": stats.max_deviation,
            "outcomes": stats.outcomes,
            "alphabet_use": stats.tags,
            "caps_hit": stats.caps_hit,
            "known_findings_matched": known_matched,
            "violations_by_kind": stats.viol_by_sig,
            "excluded": d.excluded,
            "workers": workers,
            "units": units,
            "crashing_cases_confirmed": crashes,
            "sampled_supplement_evaluations": stats.supplement_evaluations,
            "explanation": "every state is an execution of the real implementation (public API of the crates under /repo, rebuilt from the working tree) judged by an independent reference model; states = distinct canonical cases, transitions = choice points taken in the derivation graph of the input grammar / operation sequences",
        },
        "assumptions": assumptions,
        "wall_s": (wall * 1000.0).round() / 1000.0,
        "violations": stats.violations,
    })
}

pub fn write(id: &str, ev: &Value) -> std::io::Result<()> {
    let dir = format!("{}/evidence", crate::sandbox::verif_root());
    std::fs::create_dir_all(&dir)?;
    let path = format!("{dir}/{id}.json");
    let tmp = format!("{path}.tmp");
    std::fs::write(&tmp, serde_json::to_string_pretty(ev).unwrap())?;
    std::fs::rename(&tmp, &path)
}
