//! Shared types: tiers, the per-worker context `Cx`, mergeable statistics, the `Driver` trait and the
//! generic adaptor from a choice-driven `CaseDriver` to a `Driver`.

use crate::explore::{self, Chooser, Unit};
use serde::{Deserialize, Serialize};
use serde_json::{json, Value};
use std::collections::{BTreeMap, BTreeSet, HashSet};
use std::time::Instant;

#[derive(Clone, Copy, Debug, PartialEq, Eq)]
pub enum Tier {
    Quick,
    Thorough,
}
impl Tier {
    pub fn parse(s: &str) -> Tier {
        match s {
            "quick" => Tier::Quick,
            "thorough" => Tier::Thorough,
            _ => panic!("MACHINERY: tier must be quick|thorough, got {s}"),
        }
    }
    pub fn name(&self) -> &'static str {
        match self {
            Tier::Quick => "quick",
            Tier::Thorough => "thorough",
        }
    }
    pub fn is_thorough(&self) -> bool {
        *self == Tier::Thorough
    }
    /// pick by tier
    pub fn pick<T>(&self, q: T, t: T) -> T {
        match self {
            Tier::Quick => q,
            Tier::Thorough => t,
        }
    }
}

#[derive(Clone, Debug, Default, Serialize, Deserialize)]
pub struct Viol {
    pub key: String,
    /// short signature of the failure kind (groups violations)
    pub sig: String,
    /// human readable one-liner
    pub what: String,
    /// rendered input / expected / observed
    pub detail: Value,
}

#[derive(Clone, Debug, Default, Serialize, Deserialize)]
pub struct KnownHit {
    pub count: u64,
    pub first_key: String,
    pub first_what: String,
}

#[derive(Clone, Debug, Default, Serialize, Deserialize)]
pub struct Stats {
    /// cases executed on the real implementation (= traces validated against the implementation)
    pub executions: u64,
    /// oracle evaluations (>= executions; e.g. point queries)
    pub evaluations: u64,
    /// choice points / loop steps taken (edges of the derivation graph)
    pub transitions: u64,
    pub outcomes: BTreeMap<String, u64>,
    pub tags: BTreeMap<String, u64>,
    /// distinct states counted by construction (spaces enumerated without repetition)
    pub bulk_states: u64,
    pub bulk_nontrivial: u64,
    pub violations: u64,
    pub viol_by_sig: BTreeMap<String, u64>,
    pub viol_examples: Vec<Viol>,
    pub known: BTreeMap<String, KnownHit>,
    pub samples: Vec<Value>,
    pub caps_hit: BTreeSet<String>,
    pub max_deviation: u64,
    pub supplement_evaluations: u64,
    pub machinery_errors: Vec<String>,
}

impl Stats {
    pub fn merge(&mut self, o: Stats) {
        self.executions += o.executions;
        self.evaluations += o.evaluations;
        self.transitions += o.transitions;
        for (k, v) in o.outcomes {
            *self.outcomes.entry(k).or_default() += v;
        }
        for (k, v) in o.tags {
            *self.tags.entry(k).or_default() += v;
        }
        self.bulk_states += o.bulk_states;
        self.bulk_nontrivial += o.bulk_nontrivial;
        self.violations += o.violations;
        for (k, v) in o.viol_by_sig {
            *self.viol_by_sig.entry(k).or_default() += v;
        }
        // Examples are chosen deterministically (units are handed to workers dynamically, so arrival order is
        // not): per signature the two smallest keys, shortest first, then lexicographic.
        if !o.viol_examples.is_empty() {
            self.viol_examples.extend(o.viol_examples);
            self.viol_examples.sort_by(|a, b| (a.sig.as_str(), a.key.len(), a.key.as_str()).cmp(&(b.sig.as_str(), b.key.len(), b.key.as_str())));
            self.viol_examples.dedup_by(|b, a| a.sig == b.sig && a.key == b.key);
            let mut kept: Vec<Viol> = Vec::with_capacity(self.viol_examples.len());
            for v in std::mem::take(&mut self.viol_examples) {
                let same = kept.iter().rev().take_while(|x| x.sig == v.sig).count();
                if same < 2 && kept.len() < 40 {
                    kept.push(v);
                }
            }
            self.viol_examples = kept;
        }
        for (k, v) in o.known {
            let e = self.known.entry(k).or_default();
            if e.count == 0 {
                e.first_key = v.first_key;
                e.first_what = v.first_what;
            }
            e.count += v.count;
        }
        for s in o.samples {
            if self.samples.len() < 6 {
                self.samples.push(s);
            }
        }
        self.caps_hit.extend(o.caps_hit);
        self.max_deviation = self.max_deviation.max(o.max_deviation);
        self.supplement_evaluations += o.supplement_evaluations;
        self.machinery_errors.extend(o.machinery_errors);
    }
}

/// Information captured from a panic inside `Cx::guard`.
#[derive(Clone, Debug)]
pub struct PanicInfo {
    pub msg: String,
    pub loc: String,
}
impl PanicInfo {
    pub fn short(&self) -> String {
        format!("panic at {}: {}", self.loc, truncate(&self.msg, 160))
    }
}
pub fn truncate(s: &str, n: usize) -> String {
    if s.len() <= n {
        s.to_string()
    } else {
        let mut i = n;
        while !s.is_char_boundary(i) {
            i -= 1;
        }
        format!("{}…", &s[..i])
    }
}

thread_local! {
    static LAST_PANIC: std::cell::RefCell<Option<PanicInfo>> = std::cell::RefCell::new(None);
    static IN_GUARD: std::cell::Cell<bool> = std::cell::Cell::new(false);
}

pub fn install_panic_hook() {
    let default = std::panic::take_hook();
    std::panic::set_hook(Box::new(move |info| {
        let guarded = IN_GUARD.with(|g| g.get());
        if guarded {
            let msg = if let Some(s) = info.payload().downcast_ref::<&str>() {
                s.to_string()
            } else if let Some(s) = info.payload().downcast_ref::<String>() {
                s.clone()
            } else {
                "<non-string panic payload>".to_string()
            };
            let loc = info
                .location()
                .map(|l| format!("{}:{}", l.file(), l.line()))
                .unwrap_or_else(|| "?".into());
            LAST_PANIC.with(|p| *p.borrow_mut() = Some(PanicInfo { msg, loc }));
        } else {
            default(info);
        }
    }));
}

/// Run the subject code, catching panics. Never use for harness/oracle code.
pub fn guard<T>(f: impl FnOnce() -> T) -> Result<T, PanicInfo> {
    IN_GUARD.with(|g| g.set(true));
    let r = std::panic::catch_unwind(std::panic::AssertUnwindSafe(f));
    IN_GUARD.with(|g| g.set(false));
    match r {
        Ok(v) => Ok(v),
        Err(_) => Err(LAST_PANIC
            .with(|p| p.borrow_mut().take())
            .unwrap_or(PanicInfo { msg: "<unknown>".into(), loc: "?".into() })),
    }
}

/// 64-bit FNV-1a over bytes, then a finaliser; used for canonical-state hashing.
pub fn hash_bytes(b: &[u8]) -> u64 {
    let mut h: u64 = 0xcbf29ce484222325;
    for &x in b {
        h ^= x as u64;
        h = h.wrapping_mul(0x100000001b3);
    }
    // avalanche
    h ^= h >> 33;
    h = h.wrapping_mul(0xff51afd7ed558ccd);
    h ^= h >> 33;
    h = h.wrapping_mul(0xc4ceb9fe1a85ec53);
    h ^= h >> 33;
    h
}
pub fn hash_debug<T: std::fmt::Debug>(t: &T) -> u64 {
    hash_bytes(format!("{:?}", t).as_bytes())
}

/// Progress slot shared with the controller (mmap'd file): [seq u64][len u32][key bytes]
pub struct Slot {
    ptr: *mut u8,
    len: usize,
}
unsafe impl Send for Slot {}
pub const SLOT_SIZE: usize = 4096;
impl Slot {
    pub fn open(path: &str) -> Slot {
        use std::os::unix::io::AsRawFd;
        let f = std::fs::OpenOptions::new()
            .read(true)
            .write(true)
            .create(true)
            .truncate(false)
            .open(path)
            .unwrap_or_else(|e| panic!("MACHINERY: slot open {path}: {e}"));
        f.set_len(SLOT_SIZE as u64).expect("MACHINERY: slot set_len");
        let p = unsafe {
            libc::mmap(
                std::ptr::null_mut(),
                SLOT_SIZE,
                libc::PROT_READ | libc::PROT_WRITE,
                libc::MAP_SHARED,
                f.as_raw_fd(),
                0,
            )
        };
        assert!(p != libc::MAP_FAILED, "MACHINERY: mmap failed");
        Slot { ptr: p as *mut u8, len: SLOT_SIZE }
    }
    pub fn write(&self, key: &[u8]) {
        let n = key.len().min(self.len - 16);
        unsafe {
            let seq = (self.ptr as *mut u64).read_volatile();
            std::ptr::copy_nonoverlapping(key.as_ptr(), self.ptr.add(12), n);
            (self.ptr.add(8) as *mut u32).write_volatile(n as u32);
            (self.ptr as *mut u64).write_volatile(seq.wrapping_add(1));
        }
    }
    pub fn read(&self) -> (u64, String) {
        unsafe {
            let seq = (self.ptr as *mut u64).read_volatile();
            let n = ((self.ptr.add(8) as *mut u32).read_volatile() as usize).min(self.len - 16);
            let mut v = vec![0u8; n];
            std::ptr::copy_nonoverlapping(self.ptr.add(12), v.as_mut_ptr(), n);
            (seq, String::from_utf8_lossy(&v).to_string())
        }
    }
}

/// Per-worker context handed to drivers.
pub struct Cx {
    pub tier: Tier,
    pub seed: u64,
    pub stats: Stats,
    pub slot: Option<Slot>,
    pub skip: HashSet<String>,
    /// enabled known-finding predicate names for this property
    pub known_enabled: BTreeSet<String>,
    hashes: HashSet<u64>,
    pub deadline: Option<Instant>,
    /// scratch directory for this run (under /dev/shm), with a per-worker suffix available
    pub scratch: String,
    pub worker: usize,
    /// prefix added to keys (used by `Multi`)
    pub key_prefix: String,
    sample_budget: usize,
}

impl Cx {
    pub fn new(tier: Tier, seed: u64, scratch: &str, worker: usize) -> Cx {
        Cx {
            tier,
            seed,
            stats: Stats::default(),
            slot: None,
            skip: HashSet::new(),
            known_enabled: BTreeSet::new(),
            hashes: HashSet::new(),
            deadline: None,
            scratch: scratch.to_string(),
            worker,
            key_prefix: String::new(),
            sample_budget: 2,
        }
    }
    pub fn full_key(&self, key: &str) -> String {
        format!("{}{}", self.key_prefix, key)
    }
    /// Announce the case about to be executed. Returns false if the case must be skipped
    /// (already blamed for a crash in an earlier attempt at this unit).
    pub fn enter(&mut self, key: &str) -> bool {
        let fk = self.full_key(key);
        if !self.skip.is_empty() && self.skip.contains(&fk) {
            return false;
        }
        if let Some(s) = &self.slot {
            s.write(fk.as_bytes());
        }
        true
    }
    pub fn expired(&self) -> bool {
        match self.deadline {
            Some(d) => Instant::now() >= d,
            None => false,
        }
    }
    pub fn cap(&mut self, what: &str) {
        self.stats.caps_hit.insert(what.to_string());
    }
    pub fn outcome(&mut self, kind: &str) {
        if let Some(v) = self.stats.outcomes.get_mut(kind) {
            *v += 1;
        } else {
            self.stats.outcomes.insert(kind.to_string(), 1);
        }
    }
    pub fn tag(&mut self, t: &str) {
        if let Some(v) = self.stats.tags.get_mut(t) {
            *v += 1;
        } else {
            self.stats.tags.insert(t.to_string(), 1);
        }
    }
    pub fn tag_n(&mut self, t: &str, n: u64) {
        *self.stats.tags.entry(t.to_string()).or_default() += n;
    }
    /// Record a canonical state by hash.
    pub fn state(&mut self, hash: u64, nontrivial: bool) {
        let h = (hash & !1) | (nontrivial as u64);
        self.hashes.insert(h);
    }
    /// Record `n` states known distinct by construction.
    pub fn bulk_states(&mut self, n: u64, nontrivial: u64) {
        self.stats.bulk_states += n;
        self.stats.bulk_nontrivial += nontrivial;
    }
    pub fn take_hashes(&mut self) -> Vec<u64> {
        self.hashes.drain().collect()
    }
    pub fn sample(&mut self, f: impl FnOnce() -> Value) {
        if self.sample_budget > 0 {
            self.sample_budget -= 1;
            self.stats.samples.push(f());
        }
    }
    pub fn wants_sample(&self) -> bool {
        self.sample_budget > 0
    }
    /// Report a failed oracle. `finding`: name of the known-finding predicate that explains this failure
    /// (input class + failure mode), if any; it only suppresses when listed in KNOWN_FINDINGS.txt.
    pub fn fail(
        &mut self,
        key: &str,
        sig: &str,
        finding: Option<&str>,
        what: impl FnOnce() -> String,
        detail: impl FnOnce() -> Value,
    ) {
        let fk = self.full_key(key);
        if let Some(f) = finding {
            if self.known_enabled.contains(f) {
                let e = self.stats.known.entry(f.to_string()).or_default();
                if e.count == 0 {
                    e.first_key = fk;
                    e.first_what = what();
                }
                e.count += 1;
                return;
            }
        }
        self.stats.violations += 1;
        let sig_full = match finding {
            Some(f) => format!("{sig}[{f}]"),
            None => sig.to_string(),
        };
        let n = {
            let e = self.stats.viol_by_sig.entry(sig_full.clone()).or_default();
            *e += 1;
            *e
        };
        if n <= 2 && self.stats.viol_examples.len() < 40 {
            self.stats.viol_examples.push(Viol { key: fk, sig: sig_full, what: what(), detail: detail() });
        }
    }
    pub fn machinery(&mut self, msg: String) {
        if self.stats.machinery_errors.len() < 20 {
            self.stats.machinery_errors.push(msg);
        }
    }
    /// A per-worker scratch file path
    pub fn scratch_file(&self, name: &str) -> String {
        format!("{}/w{}-{}", self.scratch, self.worker, name)
    }
}

/// How a sandboxed process died.
#[derive(Clone, Debug, PartialEq, Serialize, Deserialize)]
pub enum Death {
    Signal(i32),
    Exit(i32),
    Hang,
}
impl Death {
    pub fn describe(&self) -> String {
        match self {
            Death::Signal(6) => "process aborted (SIGABRT: stack overflow / allocation failure / abort)".into(),
            Death::Signal(11) => "process crashed (SIGSEGV)".into(),
            Death::Signal(s) => format!("process killed by signal {s}"),
            Death::Exit(c) => format!("process exited with code {c}"),
            Death::Hang => "no progress within the watchdog interval (hang)".into(),
        }
    }
}

pub struct Describe {
    /// how cases are enumerated and what makes one distinct / non-trivial
    pub rule: String,
    pub assumptions: Vec<String>,
    pub excluded: Vec<String>,
    pub technique: String,
}

pub trait Driver: Send + Sync {
    fn id(&self) -> &'static str;
    fn describe(&self, tier: Tier) -> Describe;
    /// Controller side: the list of work units.
    fn units(&self, tier: Tier) -> Vec<String>;
    /// Worker side: run every case of a unit.
    fn run_unit(&self, unit: &str, cx: &mut Cx);
    /// Worker side: run exactly the case identified by `key` (as passed to `Cx::enter`).
    fn run_case(&self, key: &str, cx: &mut Cx);
    /// Controller side: a case killed its process; which known-finding predicate (if any) explains it?
    fn classify_crash(&self, _tier: Tier, _key: &str, _death: &Death) -> Option<String> {
        None
    }
    /// Render the case for a replay file (controller side; must not run subject code that may crash).
    fn render_case(&self, _tier: Tier, _key: &str) -> Value {
        Value::Null
    }
    /// Controller side, after merging: vacuity guards. Err => exit 2.
    fn guards(&self, _tier: Tier, _stats: &Stats, _distinct: u64) -> Result<(), String> {
        Ok(())
    }
    /// whether the enumeration of this tier is exhaustive over its stated finite space (absent caps)
    fn exhaustive(&self, _tier: Tier) -> bool {
        true
    }
    fn deviation_bound(&self, _tier: Tier) -> Option<usize> {
        None
    }
}

/// A choice-driven driver: generator + checker.
pub trait CaseDriver: Send + Sync {
    type Case;
    fn id(&self) -> &'static str;
    fn describe(&self, tier: Tier) -> Describe;
    fn bound(&self, tier: Tier) -> usize;
    fn gen(&self, tier: Tier, c: &mut Chooser) -> Self::Case;
    /// run the real code on the case and judge it; must call cx.outcome / cx.fail / cx.state as appropriate
    fn check(&self, case: &Self::Case, key: &str, cx: &mut Cx);
    fn render(&self, case: &Self::Case) -> Value;
    fn classify_crash(&self, _tier: Tier, _case: &Self::Case, _death: &Death) -> Option<String> {
        None
    }
    fn guards(&self, _tier: Tier, _stats: &Stats, _distinct: u64) -> Result<(), String> {
        Ok(())
    }
    fn unit_target(&self, _tier: Tier) -> usize {
        512
    }
}

pub struct ByCase<T: CaseDriver>(pub T);

impl<T: CaseDriver> ByCase<T> {
    fn visit(&self, ch: &Chooser, case: T::Case, cx: &mut Cx) -> bool {
        let key = explore::key_of(&ch.choices());
        if cx.enter(&key) {
            cx.stats.executions += 1;
            cx.stats.transitions += ch.trace.len() as u64;
            cx.stats.max_deviation = cx.stats.max_deviation.max(ch.deviations() as u64);
            if cx.wants_sample() {
                let r = self.0.render(&case);
                cx.sample(|| json!({"choices": key, "case": r}));
            }
            self.0.check(&case, &key, cx);
        }
        if cx.expired() {
            cx.cap("time");
            return false;
        }
        true
    }
}

impl<T: CaseDriver> Driver for ByCase<T> {
    fn id(&self) -> &'static str {
        self.0.id()
    }
    fn describe(&self, tier: Tier) -> Describe {
        self.0.describe(tier)
    }
    fn units(&self, tier: Tier) -> Vec<String> {
        let bound = self.0.bound(tier);
        let mut gen = |c: &mut Chooser| self.0.gen(tier, c);
        explore::split_units(bound, self.0.unit_target(tier), &mut gen)
            .into_iter()
            .map(|u| u.to_string())
            .collect()
    }
    fn run_unit(&self, unit: &str, cx: &mut Cx) {
        let tier = cx.tier;
        let bound = self.0.bound(tier);
        let mut gen = |c: &mut Chooser| self.0.gen(tier, c);
        match Unit::parse(unit) {
            Unit::Single(p) => {
                let mut ch = Chooser::new(&p);
                let case = gen(&mut ch);
                self.visit(&ch, case, cx);
            }
            Unit::Tree(p) => {
                explore::explore_subtree(&p, bound, &mut gen, &mut |ch, case| self.visit(ch, case, cx));
            }
        }
    }
    fn run_case(&self, key: &str, cx: &mut Cx) {
        let p = explore::parse_key(key);
        let mut ch = Chooser::new(&p);
        let case = self.0.gen(cx.tier, &mut ch);
        assert_eq!(ch.trace.len(), p.len(), "MACHINERY: replay key length differs from trace");
        cx.stats.executions += 1;
        cx.stats.transitions += ch.trace.len() as u64;
        cx.enter(key);
        self.0.check(&case, key, cx);
    }
    fn classify_crash(&self, tier: Tier, key: &str, death: &Death) -> Option<String> {
        let p = explore::parse_key(key);
        let mut ch = Chooser::new(&p);
        let case = self.0.gen(tier, &mut ch);
        self.0.classify_crash(tier, &case, death)
    }
    fn render_case(&self, tier: Tier, key: &str) -> Value {
        let p = explore::parse_key(key);
        let mut ch = Chooser::new(&p);
        let case = self.0.gen(tier, &mut ch);
        let labels: Vec<String> =
            ch.trace.iter().map(|p| format!("{}={}/{}", p.label, p.chosen, p.n)).collect();
        json!({"case": self.0.render(&case), "choice_points": labels})
    }
    fn guards(&self, tier: Tier, stats: &Stats, distinct: u64) -> Result<(), String> {
        self.0.guards(tier, stats, distinct)
    }
    fn deviation_bound(&self, tier: Tier) -> Option<usize> {
        Some(self.0.bound(tier))
    }
}

/// Several sub-spaces under one property id. Units and keys are prefixed with "<part>|".
pub struct Multi {
    pub id: &'static str,
    pub parts: Vec<(&'static str, Box<dyn Driver>)>,
}
impl Multi {
    fn part(&self, name: &str) -> &dyn Driver {
        self.parts
            .iter()
            .find(|(n, _)| *n == name)
            .map(|(_, d)| d.as_ref())
            .unwrap_or_else(|| panic!("MACHINERY: unknown part {name}"))
    }
}
fn split_part(s: &str) -> (&str, &str) {
    let i = s.find('|').unwrap_or_else(|| panic!("MACHINERY: missing part prefix in {s}"));
    (&s[..i], &s[i + 1..])
}
impl Driver for Multi {
    fn id(&self) -> &'static str {
        self.id
    }
    fn describe(&self, tier: Tier) -> Describe {
        let mut rule = String::new();
        let mut assumptions = vec![];
        let mut excluded = vec![];
        let mut technique = String::new();
        for (n, d) in &self.parts {
            let x = d.describe(tier);
            rule.push_str(&format!("[{n}] {} ", x.rule));
            for a in x.assumptions {
                if !assumptions.contains(&a) {
                    assumptions.push(a);
                }
            }
            for a in x.excluded {
                if !excluded.contains(&a) {
                    excluded.push(a);
                }
            }
            if technique.is_empty() {
                technique = x.technique;
            }
        }
        Describe { rule, assumptions, excluded, technique }
    }
    fn units(&self, tier: Tier) -> Vec<String> {
        let mut v = vec![];
        for (n, d) in &self.parts {
            for u in d.units(tier) {
                v.push(format!("{n}|{u}"));
            }
        }
        v
    }
    fn run_unit(&self, unit: &str, cx: &mut Cx) {
        let (p, u) = split_part(unit);
        let old = std::mem::replace(&mut cx.key_prefix, format!("{p}|"));
        cx.tag(&format!("part:{p}"));
        self.part(p).run_unit(u, cx);
        cx.key_prefix = old;
    }
    fn run_case(&self, key: &str, cx: &mut Cx) {
        let (p, k) = split_part(key);
        let old = std::mem::replace(&mut cx.key_prefix, format!("{p}|"));
        self.part(p).run_case(k, cx);
        cx.key_prefix = old;
    }
    fn classify_crash(&self, tier: Tier, key: &str, death: &Death) -> Option<String> {
        let (p, k) = split_part(key);
        self.part(p).classify_crash(tier, k, death)
    }
    fn render_case(&self, tier: Tier, key: &str) -> Value {
        let (p, k) = split_part(key);
        self.part(p).render_case(tier, k)
    }
    fn guards(&self, tier: Tier, stats: &Stats, distinct: u64) -> Result<(), String> {
        for (n, d) in &self.parts {
            if stats.tags.get(&format!("part:{n}")).copied().unwrap_or(0) == 0 {
                return Err(format!("part {n} never ran"));
            }
            d.guards(tier, stats, distinct)?;
        }
        Ok(())
    }
    fn exhaustive(&self, tier: Tier) -> bool {
        self.parts.iter().all(|(_, d)| d.exhaustive(tier))
    }
    fn deviation_bound(&self, tier: Tier) -> Option<usize> {
        self.parts.iter().filter_map(|(_, d)| d.deviation_bound(tier)).min()
    }
}

/// Helper for guards: require tags to be present.
pub fn require_tags(stats: &Stats, tags: &[&str]) -> Result<(), String> {
    for t in tags {
        if stats.tags.get(*t).copied().unwrap_or(0) == 0 {
            return Err(format!("vacuity guard: alphabet symbol / class '{t}' never exercised"));
        }
    }
    Ok(())
}
pub fn require_outcomes(stats: &Stats, kinds: &[&str]) -> Result<(), String> {
    for t in kinds {
        if stats.outcomes.get(*t).copied().unwrap_or(0) == 0 {
            return Err(format!("vacuity guard: outcome '{t}' never observed"));
        }
    }
    Ok(())
}
