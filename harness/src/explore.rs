//! Stateless, deviation-bounded explicit-state explorer over choice sequences.
//!
//! A generator is a function `gen(&mut Chooser) -> Case`. Every decision it takes goes through
//! `Chooser::free` (always fully enumerated) or `Chooser::cost` (alternative 0 is the default; any
//! other alternative costs one *deviation*). `explore_subtree(prefix)` replays `prefix`, takes choice 0
//! at every later point, hands the case to the visitor, and then recurses into every alternative of
//! every later point whose cost still fits the bound (the CHESS idiom, with "pre-emption" replaced by
//! "departure from the simplest input").
//!
//! An out-of-range choice or a divergence while replaying a prefix is a hard machinery error (panic
//! outside any `catch_unwind` => exit 2).

#[derive(Clone, Debug)]
pub struct Point {
    pub n: u32,
    pub chosen: u32,
    pub costed: bool,
    pub label: &'static str,
}

pub struct Chooser {
    prefix: Vec<u32>,
    pub trace: Vec<Point>,
}

impl Chooser {
    pub fn new(prefix: &[u32]) -> Self {
        Self { prefix: prefix.to_vec(), trace: Vec::with_capacity(64) }
    }
    fn pick(&mut self, n: usize, costed: bool, label: &'static str) -> usize {
        assert!(n >= 1, "chooser: empty choice at {label}");
        let i = self.trace.len();
        let chosen = if i < self.prefix.len() {
            let c = self.prefix[i];
            assert!(
                (c as usize) < n,
                "MACHINERY: replay divergence at point {i} ({label}): choice {c} out of range {n}"
            );
            c
        } else {
            0
        };
        self.trace.push(Point { n: n as u32, chosen, costed, label });
        chosen as usize
    }
    /// Structural choice: every alternative is always explored.
    pub fn free(&mut self, n: usize, label: &'static str) -> usize {
        self.pick(n, false, label)
    }
    /// Value choice: alternative 0 is the default, any other costs one deviation.
    pub fn cost(&mut self, n: usize, label: &'static str) -> usize {
        self.pick(n, true, label)
    }
    /// Convenience: free boolean.
    pub fn flag(&mut self, label: &'static str) -> bool {
        self.free(2, label) == 1
    }
    /// Convenience: pick one of `xs` (costed).
    pub fn cost_of<T: Clone>(&mut self, xs: &[T], label: &'static str) -> T {
        xs[self.cost(xs.len(), label)].clone()
    }
    /// Convenience: pick one of `xs` (free).
    pub fn free_of<T: Clone>(&mut self, xs: &[T], label: &'static str) -> T {
        xs[self.free(xs.len(), label)].clone()
    }
    pub fn choices(&self) -> Vec<u32> {
        self.trace.iter().map(|p| p.chosen).collect()
    }
    pub fn deviations(&self) -> usize {
        self.trace.iter().filter(|p| p.costed && p.chosen != 0).count()
    }
    pub fn done_prefix(&self) -> bool {
        self.trace.len() >= self.prefix.len()
    }
}

pub fn key_of(choices: &[u32]) -> String {
    let mut s = String::with_capacity(choices.len() * 2);
    for (i, c) in choices.iter().enumerate() {
        if i > 0 {
            s.push('.');
        }
        s.push_str(&c.to_string());
    }
    s
}
pub fn parse_key(s: &str) -> Vec<u32> {
    if s.is_empty() {
        return vec![];
    }
    s.split('.').map(|t| t.parse::<u32>().expect("MACHINERY: bad choice key")).collect()
}

/// Children (as full prefixes) of the node whose executed trace is `trace`, reached by explicit prefix of
/// length `plen`, under deviation bound `bound`.
pub fn children(trace: &[Point], plen: usize, bound: usize) -> Vec<Vec<u32>> {
    let mut out = Vec::new();
    let mut devs = 0usize;
    let mut pre: Vec<u32> = Vec::with_capacity(trace.len());
    for (i, p) in trace.iter().enumerate() {
        if i >= plen {
            let fits = !p.costed || devs + 1 <= bound;
            if fits {
                for alt in 1..p.n {
                    let mut v = pre.clone();
                    v.push(alt);
                    out.push(v);
                }
            }
        }
        if p.costed && p.chosen != 0 {
            devs += 1;
        }
        pre.push(p.chosen);
    }
    out
}

/// Visit every case in the subtree rooted at `prefix`. `visit(choices, chooser-after-gen, case)`.
/// `gen` must be deterministic. Returns false if the visitor asked to stop (cap hit).
pub fn explore_subtree<C>(
    prefix: &[u32],
    bound: usize,
    gen: &mut dyn FnMut(&mut Chooser) -> C,
    visit: &mut dyn FnMut(&Chooser, C) -> bool,
) -> bool {
    let mut stack: Vec<Vec<u32>> = vec![prefix.to_vec()];
    while let Some(pre) = stack.pop() {
        let mut ch = Chooser::new(&pre);
        let case = gen(&mut ch);
        assert!(
            ch.done_prefix(),
            "MACHINERY: replay divergence: prefix {:?} longer than trace ({} points)",
            pre,
            ch.trace.len()
        );
        let kids = children(&ch.trace, pre.len(), bound);
        if !visit(&ch, case) {
            return false;
        }
        // push in reverse so that simplest alternatives are explored first
        for k in kids.into_iter().rev() {
            stack.push(k);
        }
    }
    true
}

/// Controller-side frontier expansion: split the tree into `Single(prefix)` and `Tree(prefix)` units.
#[derive(Clone, Debug, PartialEq)]
pub enum Unit {
    Single(Vec<u32>),
    Tree(Vec<u32>),
}
impl Unit {
    pub fn to_string(&self) -> String {
        match self {
            Unit::Single(p) => format!("S:{}", key_of(p)),
            Unit::Tree(p) => format!("T:{}", key_of(p)),
        }
    }
    pub fn parse(s: &str) -> Unit {
        if let Some(r) = s.strip_prefix("S:") {
            Unit::Single(parse_key(r))
        } else if let Some(r) = s.strip_prefix("T:") {
            Unit::Tree(parse_key(r))
        } else {
            panic!("MACHINERY: bad unit {s}")
        }
    }
}

pub fn split_units<C>(
    bound: usize,
    target: usize,
    gen: &mut dyn FnMut(&mut Chooser) -> C,
) -> Vec<Unit> {
    use std::collections::VecDeque;
    let mut singles: Vec<Unit> = Vec::new();
    let mut trees: VecDeque<Vec<u32>> = VecDeque::new();
    trees.push_back(vec![]);
    let mut expansions = 0usize;
    while singles.len() + trees.len() < target && expansions < target * 4 {
        let Some(pre) = trees.pop_front() else { break };
        let mut ch = Chooser::new(&pre);
        let _ = gen(&mut ch);
        let kids = children(&ch.trace, pre.len(), bound);
        singles.push(Unit::Single(pre));
        for k in kids {
            trees.push_back(k);
        }
        expansions += 1;
    }
    // Batch the singles to keep the protocol cheap: they are emitted as they are.
    let mut out = singles;
    out.extend(trees.into_iter().map(Unit::Tree));
    out
}

#[cfg(test)]
mod tests {
    use super::*;
    #[test]
    fn counts() {
        // 2 free bits and 2 costed ternaries, bound 1: 4 * (1 + 2 + 2) = 20
        let mut n = 0;
        let mut gen = |c: &mut Chooser| {
            let a = c.free(2, "a");
            let x = c.cost(3, "x");
            let b = c.free(2, "b");
            let y = c.cost(3, "y");
            (a, x, b, y)
        };
        let mut seen = std::collections::HashSet::new();
        explore_subtree(&[], 1, &mut gen, &mut |_, case| {
            n += 1;
            assert!(seen.insert(case));
            true
        });
        assert_eq!(n, 20);
        let units = split_units(1, 6, &mut gen);
        let mut m = 0;
        for u in units {
            match u {
                Unit::Single(_) => m += 1,
                Unit::Tree(p) => {
                    explore_subtree(&p, 1, &mut gen, &mut |_, _| {
                        m += 1;
                        true
                    });
                }
            }
        }
        assert_eq!(m, 20);
    }
}
