//! Independent GDSII flattener in exact integer arithmetic (never calls layout21raw).
//!
//! GDSII semantics, transcribed from the stream-format description:
//!  * SREF: every point of the referenced structure is reflected about the x-axis (if STRANS bit 15),
//!    THEN rotated counter-clockwise by ANGLE, THEN translated to XY;
//!  * AREF: XY = [p0, p1, p2]; p1 is p0 displaced by COLS inter-column spacings, p2 is p0 displaced by ROWS
//!    inter-row spacings (both given in the coordinates of the referencing structure); element (i, j)
//!    (0 <= i < COLS, 0 <= j < ROWS) is an SREF with the same STRANS at p0 + i*(p1-p0)/COLS + j*(p2-p0)/ROWS;
//!  * BOUNDARY: closed polygon, last point repeats the first; BOX: five points of a rectangle; PATH: centre
//!    line + width; TEXT: a point label on a layer.
//!
//! Only right-angle rotations and unit magnification are inside this model's alphabet; anything else is
//! reported as `Verdict::OutOfAlphabet` (a machinery condition for the drivers, never a verdict).
//!
//! The flattener is written as *point chasing*: a placement is applied to points as three elementary steps
//! (reflect, rotate by quarter turns, translate), bottom-up through the hierarchy. `self_check` compares it
//! with a second, top-down implementation using composed 2x2 integer matrices.

use super::geom::{self, P};
use gds21::{GdsArrayRef, GdsElement, GdsLibrary, GdsStrans, GdsStruct};
use std::collections::{BTreeMap, BTreeSet};

/// Canonical shape: rectangles and polygons are vertex cycles up to rotation/direction; paths are the exact
/// point list plus width.
#[derive(Clone, Debug, PartialEq, Eq, PartialOrd, Ord, Hash)]
pub enum CShape {
    Poly(Vec<P>),
    Path(Vec<P>, i64),
}
impl CShape {
    pub fn poly(pts: &[P]) -> CShape {
        CShape::Poly(geom::canon_cycle(pts))
    }
    pub fn rect(a: P, b: P) -> CShape {
        CShape::poly(&[(a.0, a.1), (b.0, a.1), (b.0, b.1), (a.0, b.1)])
    }
    pub fn kind(&self) -> &'static str {
        match self {
            CShape::Poly(_) => "poly",
            CShape::Path(..) => "path",
        }
    }
    pub fn npoints(&self) -> usize {
        match self {
            CShape::Poly(p) => p.len(),
            CShape::Path(p, _) => p.len(),
        }
    }
}

/// (layer, datatype, shape)
pub type Key = (i16, i16, CShape);
pub type Bag<T> = BTreeMap<T, u64>;
pub fn bag_add<T: Ord>(b: &mut Bag<T>, t: T, n: u64) {
    *b.entry(t).or_insert(0) += n;
}
pub fn bag_of<T: Ord>(it: impl IntoIterator<Item = T>) -> Bag<T> {
    let mut b = Bag::new();
    for t in it {
        bag_add(&mut b, t, 1);
    }
    b
}
pub fn bag_len<T>(b: &Bag<T>) -> u64 {
    b.values().sum()
}
/// (only in a, only in b) with multiplicities, first `limit` of each
pub fn bag_diff<T: Ord + Clone>(a: &Bag<T>, b: &Bag<T>, limit: usize) -> (Vec<(T, u64)>, Vec<(T, u64)>) {
    let mut oa = vec![];
    let mut ob = vec![];
    for (k, &n) in a {
        let m = b.get(k).copied().unwrap_or(0);
        if n > m && oa.len() < limit {
            oa.push((k.clone(), n - m));
        }
    }
    for (k, &n) in b {
        let m = a.get(k).copied().unwrap_or(0);
        if n > m && ob.len() < limit {
            ob.push((k.clone(), n - m));
        }
    }
    (oa, ob)
}

/// Models of *recorded defects* of the code under test. They are never used to judge; a driver uses them
/// only to decide whether an already-established failure is exactly a recorded known finding.
#[derive(Clone, Copy, Debug, Default, PartialEq, Eq)]
pub struct Quirks {
    /// a reflected placement rotated by 90 or 270 degrees is placed without the reflection
    pub unreflected_quarter_turn: bool,
    /// array references whose lattice is not (columns along x, rows along y) are dropped
    pub drop_non_axis_arrays: bool,
}

#[derive(Clone, Debug, PartialEq, Eq)]
pub enum Verdict {
    WellFormed,
    /// malformed in a way for which the property requires an error
    MustError(String),
    /// unusual input for which an error is the expected, allowed answer (and the only one judged)
    MayError(String),
    /// outside the alphabet of this reference model
    OutOfAlphabet(String),
}

/// Orientation of a reference: reflection about x first, then `quarter` counter-clockwise quarter turns.
#[derive(Clone, Copy, Debug, PartialEq, Eq)]
pub struct Orient {
    pub reflect: bool,
    pub quarter: u8,
}

#[derive(Debug)]
pub enum StransErr {
    Absolute,
    OutOfAlphabet(String),
}

pub fn orient_of(s: &Option<GdsStrans>) -> Result<Orient, StransErr> {
    let Some(s) = s else { return Ok(Orient { reflect: false, quarter: 0 }) };
    if s.abs_mag || s.abs_angle {
        return Err(StransErr::Absolute);
    }
    if let Some(m) = s.mag {
        if m != 1.0 {
            return Err(StransErr::OutOfAlphabet(format!("magnification {m}")));
        }
    }
    // whole quarter turns in any spelling: negative angles and angles beyond one turn name the same rotation
    let quarter = match s.angle {
        None => 0,
        Some(a) if a.is_finite() && a.abs() <= 3600.0 && a.rem_euclid(360.0) == 0.0 => 0,
        Some(a) if a.is_finite() && a.abs() <= 3600.0 && a.rem_euclid(360.0) == 90.0 => 1,
        Some(a) if a.is_finite() && a.abs() <= 3600.0 && a.rem_euclid(360.0) == 180.0 => 2,
        Some(a) if a.is_finite() && a.abs() <= 3600.0 && a.rem_euclid(360.0) == 270.0 => 3,
        Some(a) => return Err(StransErr::OutOfAlphabet(format!("angle {a}"))),
    };
    Ok(Orient { reflect: s.reflected, quarter })
}

// elementary steps --------------------------------------------------------------------------------

fn reflect_x(p: P) -> P {
    (p.0, -p.1)
}
fn quarter_ccw(p: P) -> P {
    (-p.1, p.0)
}
fn translate(p: P, t: P) -> P {
    (p.0 + t.0, p.1 + t.1)
}
/// image of `p` under the placement (orientation, location)
pub fn place_point(p: P, o: Orient, loc: P, q: Quirks) -> P {
    let mut r = p;
    let skip_reflection = q.unreflected_quarter_turn && o.reflect && o.quarter % 2 == 1;
    if o.reflect && !skip_reflection {
        r = reflect_x(r);
    }
    for _ in 0..o.quarter {
        r = quarter_ccw(r);
    }
    translate(r, loc)
}

// un-canonicalised geometry -------------------------------------------------------------------------

#[derive(Clone, Debug)]
enum Geo {
    Poly(Vec<P>),
    Path(Vec<P>, i64),
}
impl Geo {
    fn map(&self, f: impl Fn(P) -> P) -> Geo {
        match self {
            Geo::Poly(p) => Geo::Poly(p.iter().map(|x| f(*x)).collect()),
            Geo::Path(p, w) => Geo::Path(p.iter().map(|x| f(*x)).collect(), *w),
        }
    }
    fn canon(&self) -> CShape {
        match self {
            Geo::Poly(p) => CShape::poly(p),
            Geo::Path(p, w) => CShape::Path(p.clone(), *w),
        }
    }
}

fn pt(p: &gds21::GdsPoint) -> P {
    (p.x as i64, p.y as i64)
}

/// the array lattice: (p0, column step, row step)
pub fn aref_lattice(a: &GdsArrayRef) -> Result<(P, P, P), String> {
    let (p0, p1, p2) = (pt(&a.xy[0]), pt(&a.xy[1]), pt(&a.xy[2]));
    let (c, r) = (a.cols as i64, a.rows as i64);
    if c <= 0 || r <= 0 {
        return Err("rows/cols not positive".into());
    }
    let d1 = (p1.0 - p0.0, p1.1 - p0.1);
    let d2 = (p2.0 - p0.0, p2.1 - p0.1);
    if d1.0 % c != 0 || d1.1 % c != 0 || d2.0 % r != 0 || d2.1 % r != 0 {
        return Err("array extent not a multiple of the count".into());
    }
    Ok((p0, (d1.0 / c, d1.1 / c), (d2.0 / r, d2.1 / r)))
}
/// columns along x and rows along y (what the importer calls "specified rectangular")
pub fn aref_is_axis(a: &GdsArrayRef) -> bool {
    a.xy[0].y == a.xy[1].y && a.xy[0].x == a.xy[2].x
}

/// own geometry of an element, in the struct's coordinates
fn own_geo(e: &GdsElement) -> Option<(i16, i16, Geo)> {
    match e {
        GdsElement::GdsBoundary(b) => {
            let mut pts: Vec<P> = b.xy.iter().map(pt).collect();
            pts.pop();
            Some((b.layer, b.datatype, Geo::Poly(pts)))
        }
        GdsElement::GdsBox(b) => {
            let pts: Vec<P> = b.xy[..4].iter().map(pt).collect();
            Some((b.layer, b.boxtype, Geo::Poly(pts)))
        }
        GdsElement::GdsPath(p) => Some((p.layer, p.datatype, Geo::Path(p.xy.iter().map(pt).collect(), p.width.unwrap_or(0) as i64))),
        _ => None,
    }
}

fn is_proper_box(xy: &[gds21::GdsPoint; 5]) -> bool {
    let p: Vec<P> = xy.iter().map(pt).collect();
    p[0] == p[4] && geom::as_rect(&p[..4]).is_some()
}

/// Classify a library: well-formed, must-error, may-error, or outside this model.
pub fn classify(lib: &GdsLibrary) -> Verdict {
    let mut names: BTreeSet<&str> = BTreeSet::new();
    for s in &lib.structs {
        if !names.insert(s.name.as_str()) {
            return Verdict::OutOfAlphabet(format!("duplicate struct name {}", s.name));
        }
    }
    let mut must: Option<String> = None;
    let mut may: Option<String> = None;
    let mut set_must = |m: &mut Option<String>, s: String| {
        if m.is_none() {
            *m = Some(s)
        }
    };
    for s in &lib.structs {
        for e in &s.elems {
            match e {
                GdsElement::GdsBoundary(b) => {
                    if b.xy.is_empty() {
                        set_must(&mut must, format!("empty-xy boundary in {}", s.name));
                    } else if b.xy.first() != b.xy.last() {
                        set_must(&mut may, format!("boundary not closed in {}", s.name));
                    } else {
                        let mut pts: Vec<P> = b.xy.iter().map(pt).collect();
                        pts.pop();
                        if !geom::is_simple(&pts) {
                            return Verdict::OutOfAlphabet(format!("boundary is not a simple polygon in {}", s.name));
                        }
                    }
                }
                GdsElement::GdsPath(p) => {
                    if p.xy.is_empty() {
                        set_must(&mut must, format!("empty-xy path in {}", s.name));
                    } else if p.width.is_none() {
                        set_must(&mut may, format!("path without width in {}", s.name));
                    } else if p.width.unwrap() <= 0 || p.xy.len() < 2 || p.xy.windows(2).any(|w| w[0] == w[1]) {
                        return Verdict::OutOfAlphabet(format!("degenerate path in {}", s.name));
                    }
                }
                GdsElement::GdsBox(b) => {
                    if !is_proper_box(&b.xy) {
                        return Verdict::OutOfAlphabet(format!("box is not a rectangle in {}", s.name));
                    }
                }
                GdsElement::GdsNode(_) => return Verdict::OutOfAlphabet("node element".into()),
                GdsElement::GdsTextElem(_) => {}
                GdsElement::GdsStructRef(r) => {
                    if !names.contains(r.name.as_str()) {
                        set_must(&mut must, format!("dangling SREF {} in {}", r.name, s.name));
                    }
                    match orient_of(&r.strans) {
                        Ok(_) => {}
                        Err(StransErr::Absolute) => set_must(&mut may, format!("absolute mag/angle in {}", s.name)),
                        Err(StransErr::OutOfAlphabet(m)) => return Verdict::OutOfAlphabet(m),
                    }
                }
                GdsElement::GdsArrayRef(a) => {
                    if !names.contains(a.name.as_str()) {
                        set_must(&mut must, format!("dangling AREF {} in {}", a.name, s.name));
                    }
                    if a.cols == 0 || a.rows == 0 {
                        set_must(&mut must, format!("AREF with zero rows/cols in {}", s.name));
                    } else if a.cols < 0 || a.rows < 0 {
                        return Verdict::OutOfAlphabet("negative rows/cols".into());
                    } else if let Err(m) = aref_lattice(a) {
                        return Verdict::OutOfAlphabet(m);
                    }
                    match orient_of(&a.strans) {
                        Ok(_) => {}
                        Err(StransErr::Absolute) => set_must(&mut may, format!("absolute mag/angle in {}", s.name)),
                        Err(StransErr::OutOfAlphabet(m)) => return Verdict::OutOfAlphabet(m),
                    }
                }
            }
        }
    }
    if let Some(c) = find_cycle(lib) {
        set_must(&mut must, format!("cyclic reference through {c}"));
    }
    if let Some(m) = must {
        return Verdict::MustError(m);
    }
    if let Some(m) = may {
        return Verdict::MayError(m);
    }
    Verdict::WellFormed
}

fn refs_of(s: &GdsStruct) -> Vec<&str> {
    s.elems
        .iter()
        .filter_map(|e| match e {
            GdsElement::GdsStructRef(r) => Some(r.name.as_str()),
            GdsElement::GdsArrayRef(a) => Some(a.name.as_str()),
            _ => None,
        })
        .collect()
}

/// name of a struct on a reference cycle (self-references included), if any. Iterative three-colour DFS.
pub fn find_cycle(lib: &GdsLibrary) -> Option<String> {
    let by_name: BTreeMap<&str, &GdsStruct> = lib.structs.iter().map(|s| (s.name.as_str(), s)).collect();
    let mut colour: BTreeMap<&str, u8> = BTreeMap::new(); // 1 = on the stack, 2 = done
    for root in &lib.structs {
        if colour.contains_key(root.name.as_str()) {
            continue;
        }
        let mut stack: Vec<(&str, Vec<&str>, usize)> = vec![(root.name.as_str(), refs_of(root), 0)];
        colour.insert(root.name.as_str(), 1);
        while let Some(top) = stack.last_mut() {
            if top.2 < top.1.len() {
                let child = top.1[top.2];
                top.2 += 1;
                match colour.get(child) {
                    Some(1) => return Some(child.to_string()),
                    Some(_) => {}
                    None => {
                        if let Some(cs) = by_name.get(child) {
                            colour.insert(child, 1);
                            stack.push((child, refs_of(cs), 0));
                        }
                    }
                }
            } else {
                colour.insert(top.0, 2);
                stack.pop();
            }
        }
    }
    None
}

/// Flattened content of every struct: name -> multiset of (layer, datatype, canonical shape).
/// Requires `classify(lib) == WellFormed`.
pub fn flatten_all(lib: &GdsLibrary, q: Quirks) -> Result<BTreeMap<String, Bag<Key>>, String> {
    let by_name: BTreeMap<&str, &GdsStruct> = lib.structs.iter().map(|s| (s.name.as_str(), s)).collect();
    let mut memo: BTreeMap<String, Vec<(i16, i16, Geo)>> = BTreeMap::new();
    fn flat<'a>(
        name: &str,
        by_name: &BTreeMap<&'a str, &'a GdsStruct>,
        memo: &mut BTreeMap<String, Vec<(i16, i16, Geo)>>,
        q: Quirks,
        depth: usize,
    ) -> Result<(), String> {
        if memo.contains_key(name) {
            return Ok(());
        }
        if depth > 64 {
            return Err("hierarchy deeper than 64 (cycle?)".into());
        }
        let s = by_name.get(name).ok_or_else(|| format!("undefined struct {name}"))?;
        let mut out: Vec<(i16, i16, Geo)> = vec![];
        for e in &s.elems {
            if let Some(g) = own_geo(e) {
                out.push(g);
                continue;
            }
            match e {
                GdsElement::GdsStructRef(r) => {
                    flat(&r.name, by_name, memo, q, depth + 1)?;
                    let o = orient_of(&r.strans).map_err(|e| format!("{e:?}"))?;
                    let loc = pt(&r.xy);
                    for (l, d, g) in memo.get(r.name.as_str()).unwrap() {
                        out.push((*l, *d, g.map(|p| place_point(p, o, loc, q))));
                    }
                }
                GdsElement::GdsArrayRef(a) => {
                    flat(&a.name, by_name, memo, q, depth + 1)?;
                    if q.drop_non_axis_arrays && !aref_is_axis(a) {
                        continue;
                    }
                    let o = orient_of(&a.strans).map_err(|e| format!("{e:?}"))?;
                    let (p0, dc, dr) = aref_lattice(a)?;
                    let child = memo.get(a.name.as_str()).unwrap().clone();
                    for i in 0..a.cols as i64 {
                        for j in 0..a.rows as i64 {
                            let loc = (p0.0 + i * dc.0 + j * dr.0, p0.1 + i * dc.1 + j * dr.1);
                            for (l, d, g) in &child {
                                out.push((*l, *d, g.map(|p| place_point(p, o, loc, q))));
                            }
                        }
                    }
                }
                _ => {}
            }
        }
        memo.insert(name.to_string(), out);
        Ok(())
    }
    let mut res = BTreeMap::new();
    for s in &lib.structs {
        flat(&s.name, &by_name, &mut memo, q, 0)?;
        let b = bag_of(memo.get(s.name.as_str()).unwrap().iter().map(|(l, d, g)| (*l, *d, g.canon())));
        res.insert(s.name.clone(), b);
    }
    Ok(res)
}

/// What the un-flattened cell of one struct must look like.
#[derive(Clone, Debug, Default, PartialEq, Eq)]
pub struct CellRef {
    /// own shapes with the net each must carry
    pub shapes: Bag<(i16, i16, CShape, Option<String>)>,
    /// labels that lie in no shape of their layer: each must survive as an annotation (string, location)
    pub annotations: Bag<(String, P)>,
    /// all labels (an annotation that is none of these was invented)
    pub labels: Bag<(String, P)>,
    /// number of placements: srefs + sum of cols*rows
    pub instances: u64,
    pub labels_naming_a_net: u64,
}

/// Membership of a point in a closed region; `DontCare` = the statement does not fix it (path corners/caps).
#[derive(Clone, Copy, Debug, PartialEq, Eq)]
pub enum In {
    Yes,
    No,
    DontCare,
}

/// exact membership of a point in the closed region of an own shape
fn region_contains(g: &Geo, q: P) -> In {
    match g {
        Geo::Poly(p) => {
            if geom::in_closed_poly(q, p) {
                In::Yes
            } else {
                In::No
            }
        }
        Geo::Path(p, w) => path_region(p, *w, q),
    }
}

/// Flush-ended path: the union of the (axis-parallel) segment rectangles is certainly covered; a point farther
/// than w/2 from every segment certainly is not; the corner squares / end caps in between are not fixed by the
/// statement. Diagonal segments are judged by the exact distance test only.
pub fn path_region(p: &[P], w: i64, q: P) -> In {
    let mut all_far = true;
    for k in 0..p.len().saturating_sub(1) {
        let (a, b) = (p[k], p[k + 1]);
        if a.0 != b.0 && a.1 != b.1 {
            if !geom::farther_than_half(q, a, b, w) {
                all_far = false;
            }
            continue;
        }
        // 2*|offset across| <= w  and within the segment's extent along
        let (across2, along_ok) = if a.0 == b.0 { (2 * (q.0 - a.0).abs(), q.1 >= a.1.min(b.1) && q.1 <= a.1.max(b.1)) } else { (2 * (q.1 - a.1).abs(), q.0 >= a.0.min(b.0) && q.0 <= a.0.max(b.0)) };
        if along_ok && across2 <= w {
            return In::Yes;
        }
        if !geom::farther_than_half(q, a, b, w) {
            all_far = false;
        }
    }
    if all_far {
        In::No
    } else {
        In::DontCare
    }
}

/// Reference for the un-flattened cell. Err(..) = the input leaves a net undetermined (outside the alphabet).
pub fn cell_ref(s: &GdsStruct, q: Quirks) -> Result<CellRef, String> {
    let mut own: Vec<(i16, i16, Geo, Option<String>)> = vec![];
    let mut labels: Vec<(i16, String, P)> = vec![];
    let mut c = CellRef::default();
    for e in &s.elems {
        if let Some((l, d, g)) = own_geo(e) {
            own.push((l, d, g, None));
            continue;
        }
        match e {
            GdsElement::GdsTextElem(t) => labels.push((t.layer, t.string.clone(), pt(&t.xy))),
            GdsElement::GdsStructRef(_) => c.instances += 1,
            GdsElement::GdsArrayRef(a) => {
                if q.drop_non_axis_arrays && !aref_is_axis(a) {
                    continue;
                }
                c.instances += a.cols as u64 * a.rows as u64
            }
            _ => {}
        }
    }
    for (layer, string, at) in &labels {
        bag_add(&mut c.labels, (string.clone(), *at), 1);
        let mut hit = false;
        for (l, _d, g, net) in own.iter_mut() {
            if l != layer {
                continue;
            }
            match region_contains(g, *at) {
                In::Yes => {
                    hit = true;
                    if net.is_none() {
                        *net = Some(string.to_lowercase());
                    }
                }
                In::No => {}
                In::DontCare => return Err(format!("label {string:?} at {at:?} lies in the corner/cap zone of a path in {}", s.name)),
            }
        }
        if hit {
            c.labels_naming_a_net += 1;
        } else {
            bag_add(&mut c.annotations, (string.clone(), *at), 1);
        }
    }
    for (l, d, g, net) in own {
        bag_add(&mut c.shapes, (l, d, g.canon(), net), 1);
    }
    Ok(c)
}

// ---------------------------------------------------------------------------------------------------
// second implementation (top-down, composed integer matrices) used only by the self-check
// ---------------------------------------------------------------------------------------------------

#[derive(Clone, Copy, Debug)]
struct Xf {
    m: [[i64; 2]; 2],
    t: P,
}
impl Xf {
    fn id() -> Xf {
        Xf { m: [[1, 0], [0, 1]], t: (0, 0) }
    }
    fn of(o: Orient, loc: P) -> Xf {
        // rotation matrices by table, reflection = negate the second column
        let r: [[i64; 2]; 2] = match o.quarter % 4 {
            0 => [[1, 0], [0, 1]],
            1 => [[0, -1], [1, 0]],
            2 => [[-1, 0], [0, -1]],
            _ => [[0, 1], [-1, 0]],
        };
        let m = if o.reflect { [[r[0][0], -r[0][1]], [r[1][0], -r[1][1]]] } else { r };
        Xf { m, t: loc }
    }
    fn apply(&self, p: P) -> P {
        (self.m[0][0] * p.0 + self.m[0][1] * p.1 + self.t.0, self.m[1][0] * p.0 + self.m[1][1] * p.1 + self.t.1)
    }
    /// self after child: p -> self(child(p))
    fn after(&self, c: &Xf) -> Xf {
        let a = &self.m;
        let b = &c.m;
        let m = [
            [a[0][0] * b[0][0] + a[0][1] * b[1][0], a[0][0] * b[0][1] + a[0][1] * b[1][1]],
            [a[1][0] * b[0][0] + a[1][1] * b[1][0], a[1][0] * b[0][1] + a[1][1] * b[1][1]],
        ];
        let t = (a[0][0] * c.t.0 + a[0][1] * c.t.1 + self.t.0, a[1][0] * c.t.0 + a[1][1] * c.t.1 + self.t.1);
        Xf { m, t }
    }
}

fn flatten_topdown(lib: &GdsLibrary, name: &str) -> Bag<Key> {
    fn walk(lib: &GdsLibrary, name: &str, x: Xf, out: &mut Bag<Key>) {
        let s = lib.structs.iter().find(|s| s.name == name).unwrap();
        for e in &s.elems {
            if let Some((l, d, g)) = own_geo(e) {
                bag_add(out, (l, d, g.map(|p| x.apply(p)).canon()), 1);
                continue;
            }
            match e {
                GdsElement::GdsStructRef(r) => {
                    let c = Xf::of(orient_of(&r.strans).unwrap(), pt(&r.xy));
                    walk(lib, &r.name, x.after(&c), out);
                }
                GdsElement::GdsArrayRef(a) => {
                    let o = orient_of(&a.strans).unwrap();
                    let (p0, p1, p2) = (pt(&a.xy[0]), pt(&a.xy[1]), pt(&a.xy[2]));
                    for i in 0..a.cols as i64 {
                        for j in 0..a.rows as i64 {
                            let loc = (
                                p0.0 + i * (p1.0 - p0.0) / a.cols as i64 + j * (p2.0 - p0.0) / a.rows as i64,
                                p0.1 + i * (p1.1 - p0.1) / a.cols as i64 + j * (p2.1 - p0.1) / a.rows as i64,
                            );
                            walk(lib, &a.name, x.after(&Xf::of(o, loc)), out);
                        }
                    }
                }
                _ => {}
            }
        }
    }
    let mut out = Bag::new();
    walk(lib, name, Xf::id(), &mut out);
    out
}

pub fn strans_of(reflect: bool, quarter: u8) -> Option<GdsStrans> {
    if !reflect && quarter == 0 {
        None
    } else {
        Some(GdsStrans { reflected: reflect, angle: if quarter == 0 { None } else { Some(90.0 * quarter as f64) }, ..Default::default() })
    }
}

/// Start-up self-check: fixed facts of the GDSII placement rule, and bottom-up point chasing == top-down
/// matrix composition on a three-level hierarchy with an array, for all 8 x 8 orientation pairs.
pub fn self_check() -> Result<(), String> {
    use gds21::{GdsBoundary, GdsPath, GdsPoint, GdsStructRef};
    geom::self_check()?;
    let nq = Quirks::default();
    // reflect about x, THEN rotate 90 ccw, THEN translate: (1,2) -> (1,-2) -> (2,1) -> (12,21)
    if place_point((1, 2), Orient { reflect: true, quarter: 1 }, (10, 20), nq) != (12, 21) {
        return Err("gdsflat: reflect-then-rotate fact".into());
    }
    // rotate 90 ccw: (1,0) -> (0,1)
    if place_point((1, 0), Orient { reflect: false, quarter: 1 }, (0, 0), nq) != (0, 1) {
        return Err("gdsflat: ccw fact".into());
    }
    if place_point((3, 4), Orient { reflect: true, quarter: 0 }, (0, 0), nq) != (3, -4) {
        return Err("gdsflat: reflection fact".into());
    }
    // the recorded-defect model really differs
    if place_point((1, 2), Orient { reflect: true, quarter: 1 }, (0, 0), Quirks { unreflected_quarter_turn: true, ..nq }) != (-2, 1) {
        return Err("gdsflat: quirk model fact".into());
    }
    let leaf = GdsStruct {
        name: "leaf".into(),
        elems: vec![
            GdsBoundary { layer: 1, datatype: 2, xy: GdsPoint::vec(&[(1, 2), (7, 2), (7, 5), (3, 5), (3, 9), (1, 9), (1, 2)]), ..Default::default() }.into(),
            GdsPath { layer: 3, datatype: 4, width: Some(2), xy: GdsPoint::vec(&[(0, 1), (5, 1), (5, 8)]), ..Default::default() }.into(),
        ],
        ..Default::default()
    };
    for o1 in 0..8u8 {
        for o2 in 0..8u8 {
            let mid = GdsStruct {
                name: "mid".into(),
                elems: vec![
                    GdsArrayRef {
                        name: "leaf".into(),
                        xy: [GdsPoint::new(10, -20), GdsPoint::new(10 + 2 * 100, -20 + 2 * 7), GdsPoint::new(10 - 3 * 5, -20 + 3 * 50)],
                        cols: 2,
                        rows: 3,
                        strans: strans_of(o2 >= 4, o2 % 4),
                        ..Default::default()
                    }
                    .into(),
                    GdsBoundary { layer: 5, datatype: 6, xy: GdsPoint::vec(&[(0, 0), (4, 0), (0, 3), (0, 0)]), ..Default::default() }.into(),
                ],
                ..Default::default()
            };
            let top = GdsStruct {
                name: "top".into(),
                elems: vec![GdsStructRef { name: "mid".into(), xy: GdsPoint::new(-1000, 333), strans: strans_of(o1 >= 4, o1 % 4), ..Default::default() }.into()],
                ..Default::default()
            };
            let lib = GdsLibrary { name: "l".into(), structs: vec![top, leaf.clone(), mid], ..Default::default() };
            if classify(&lib) != Verdict::WellFormed {
                return Err(format!("gdsflat: self-check library classified {:?}", classify(&lib)));
            }
            let a = flatten_all(&lib, nq)?;
            for n in ["top", "mid", "leaf"] {
                if a[n] != flatten_topdown(&lib, n) {
                    return Err(format!("gdsflat: bottom-up != top-down for orientations {o1},{o2} at {n}"));
                }
            }
            if bag_len(&a["top"]) != 13 {
                return Err("gdsflat: flattened count".into());
            }
        }
    }
    // classification facts
    let selfref = GdsLibrary {
        name: "l".into(),
        structs: vec![GdsStruct { name: "a".into(), elems: vec![GdsStructRef { name: "a".into(), ..Default::default() }.into()], ..Default::default() }],
        ..Default::default()
    };
    if !matches!(classify(&selfref), Verdict::MustError(_)) {
        return Err("gdsflat: self reference not classified must-error".into());
    }
    // net reference: label on the hypotenuse names the net, one unit beyond does not
    let tri = |at: (i32, i32)| GdsStruct {
        name: "t".into(),
        elems: vec![
            GdsBoundary { layer: 1, datatype: 0, xy: GdsPoint::vec(&[(10, 5), (70, 5), (10, 45), (10, 5)]), ..Default::default() }.into(),
            gds21::GdsTextElem { layer: 1, texttype: 0, string: "Ab".into(), xy: GdsPoint::new(at.0, at.1), ..Default::default() }.into(),
        ],
        ..Default::default()
    };
    let on = cell_ref(&tri((40, 25)), nq)?;
    let off = cell_ref(&tri((41, 25)), nq)?;
    if on.shapes.keys().next().unwrap().3 != Some("ab".to_string()) || !on.annotations.is_empty() {
        return Err("gdsflat: label on hypotenuse".into());
    }
    if off.shapes.keys().next().unwrap().3.is_some() || bag_len(&off.annotations) != 1 {
        return Err("gdsflat: label beyond hypotenuse".into());
    }
    Ok(())
}
