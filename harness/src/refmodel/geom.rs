//! Exact integer geometry (i64 coordinates, i128 products). Independent of layout21raw::geom.

pub type P = (i64, i64);

#[derive(Clone, Copy, Debug, PartialEq, Eq)]
pub enum Loc {
    Inside,
    Boundary,
    Outside,
}

pub fn cross(a: P, b: P, c: P) -> i128 {
    // (b - a) x (c - a)
    let (abx, aby) = ((b.0 - a.0) as i128, (b.1 - a.1) as i128);
    let (acx, acy) = ((c.0 - a.0) as i128, (c.1 - a.1) as i128);
    abx * acy - aby * acx
}
pub fn dot(a: P, b: P, c: P) -> i128 {
    // (b - a) . (c - a)
    let (abx, aby) = ((b.0 - a.0) as i128, (b.1 - a.1) as i128);
    let (acx, acy) = ((c.0 - a.0) as i128, (c.1 - a.1) as i128);
    abx * acx + aby * acy
}

/// p on the closed segment [a,b]
pub fn on_segment(p: P, a: P, b: P) -> bool {
    cross(a, b, p) == 0
        && p.0 >= a.0.min(b.0)
        && p.0 <= a.0.max(b.0)
        && p.1 >= a.1.min(b.1)
        && p.1 <= a.1.max(b.1)
}

fn sgn(x: i128) -> i32 {
    (x > 0) as i32 - (x < 0) as i32
}

/// closed segments [a,b] and [c,d] share at least one point
pub fn segments_touch(a: P, b: P, c: P, d: P) -> bool {
    let d1 = sgn(cross(c, d, a));
    let d2 = sgn(cross(c, d, b));
    let d3 = sgn(cross(a, b, c));
    let d4 = sgn(cross(a, b, d));
    if d1 * d2 < 0 && d3 * d4 < 0 {
        return true;
    }
    (d1 == 0 && on_segment(a, c, d)) || (d2 == 0 && on_segment(b, c, d)) || (d3 == 0 && on_segment(c, a, b)) || (d4 == 0 && on_segment(d, a, b))
}

/// doubled signed area (positive = counter-clockwise)
pub fn area2(poly: &[P]) -> i128 {
    let n = poly.len();
    let mut s: i128 = 0;
    for i in 0..n {
        let (a, b) = (poly[i], poly[(i + 1) % n]);
        s += a.0 as i128 * b.1 as i128 - b.0 as i128 * a.1 as i128;
    }
    s
}

/// Simple polygon: >= 3 distinct vertices, non-zero area, non-adjacent edges disjoint, adjacent edges
/// meet only in their common vertex. Collinear (straight-through) vertices are allowed.
pub fn is_simple(poly: &[P]) -> bool {
    let n = poly.len();
    if n < 3 {
        return false;
    }
    for i in 0..n {
        for j in (i + 1)..n {
            if poly[i] == poly[j] {
                return false;
            }
        }
    }
    if area2(poly) == 0 {
        return false;
    }
    for i in 0..n {
        let (a, b) = (poly[i], poly[(i + 1) % n]);
        // adjacent edge (b, c): must not fold back over (a,b)
        let c = poly[(i + 2) % n];
        if cross(a, b, c) == 0 && dot(b, a, c) > 0 {
            return false;
        }
        for j in (i + 2)..n {
            if (j + 1) % n == i {
                continue; // adjacent (wraps around)
            }
            let (c, d) = (poly[j], poly[(j + 1) % n]);
            if segments_touch(a, b, c, d) {
                return false;
            }
        }
    }
    true
}

/// Winding-number classification with the half-open rule; boundary detected exactly first.
pub fn locate_winding(p: P, poly: &[P]) -> Loc {
    let n = poly.len();
    for i in 0..n {
        if on_segment(p, poly[i], poly[(i + 1) % n]) {
            return Loc::Boundary;
        }
    }
    let mut wn = 0i32;
    for i in 0..n {
        let (a, b) = (poly[i], poly[(i + 1) % n]);
        if a.1 <= p.1 {
            if b.1 > p.1 && cross(a, b, p) > 0 {
                wn += 1;
            }
        } else if b.1 <= p.1 && cross(a, b, p) < 0 {
            wn -= 1;
        }
    }
    if wn != 0 {
        Loc::Inside
    } else {
        Loc::Outside
    }
}

/// Crossing-number (even-odd) classification, written independently (ray towards +x, edges half-open in y,
/// intersection side decided by a sign-corrected cross product). For simple polygons it must agree with
/// `locate_winding`; used as the oracle's self-check.
pub fn locate_crossing(p: P, poly: &[P]) -> Loc {
    let n = poly.len();
    let mut inside = false;
    for i in 0..n {
        let (a, b) = (poly[i], poly[(i + 1) % n]);
        if on_segment(p, a, b) {
            return Loc::Boundary;
        }
        if (a.1 > p.1) != (b.1 > p.1) {
            // x coordinate of the intersection of the edge with the horizontal line through p, compared to p.x:
            // xi > p.x  <=>  (b.x-a.x)*(p.y-a.y)/(b.y-a.y) + a.x - p.x > 0 ; multiply by (b.y-a.y) keeping sign
            let dy = (b.1 - a.1) as i128;
            let lhs = (b.0 - a.0) as i128 * (p.1 - a.1) as i128 + (a.0 - p.0) as i128 * dy;
            let right = if dy > 0 { lhs > 0 } else { lhs < 0 };
            if right {
                inside = !inside;
            }
        }
    }
    if inside {
        Loc::Inside
    } else {
        Loc::Outside
    }
}

/// point in the closed region of a simple polygon
pub fn in_closed_poly(p: P, poly: &[P]) -> bool {
    locate_winding(p, poly) != Loc::Outside
}

pub fn in_closed_rect(p: P, a: P, b: P) -> bool {
    p.0 >= a.0.min(b.0) && p.0 <= a.0.max(b.0) && p.1 >= a.1.min(b.1) && p.1 <= a.1.max(b.1)
}

/// Is 4*dist(p, segment[a,b])^2 > w^2, exactly (i.e. the point is farther than w/2 from the segment)?
pub fn farther_than_half(p: P, a: P, b: P, w: i64) -> bool {
    let w2 = (w as i128) * (w as i128);
    let len2 = dot(a, b, b);
    if len2 == 0 {
        return 4 * dot(a, p, p) > w2;
    }
    let t = dot(a, b, p);
    if t <= 0 {
        4 * dot(a, p, p) > w2
    } else if t >= len2 {
        4 * dot(b, p, p) > w2
    } else {
        let c = cross(a, b, p);
        4 * c * c > w2 * len2
    }
}

/// Canonical form of a closed vertex cycle: up to rotation and direction (lexicographically least).
pub fn canon_cycle(poly: &[P]) -> Vec<P> {
    let n = poly.len();
    if n == 0 {
        return vec![];
    }
    let mut best: Option<Vec<P>> = None;
    let fwd: Vec<P> = poly.to_vec();
    let rev: Vec<P> = poly.iter().rev().cloned().collect();
    for base in [&fwd, &rev] {
        for s in 0..n {
            let cand: Vec<P> = (0..n).map(|i| base[(s + i) % n]).collect();
            if best.as_ref().map(|b| cand < *b).unwrap_or(true) {
                best = Some(cand);
            }
        }
    }
    best.unwrap()
}

/// Remove consecutive duplicate vertices (also last == first).
pub fn dedup_cycle(poly: &[P]) -> Vec<P> {
    let mut v: Vec<P> = Vec::with_capacity(poly.len());
    for &p in poly {
        if v.last() != Some(&p) {
            v.push(p);
        }
    }
    while v.len() > 1 && v.first() == v.last() {
        v.pop();
    }
    v
}

/// Is the 4-cycle an axis-parallel rectangle? Returns (min corner, max corner).
pub fn as_rect(poly: &[P]) -> Option<(P, P)> {
    if poly.len() != 4 {
        return None;
    }
    let xs: Vec<i64> = poly.iter().map(|p| p.0).collect();
    let ys: Vec<i64> = poly.iter().map(|p| p.1).collect();
    let (x0, x1) = (*xs.iter().min().unwrap(), *xs.iter().max().unwrap());
    let (y0, y1) = (*ys.iter().min().unwrap(), *ys.iter().max().unwrap());
    if x0 == x1 || y0 == y1 {
        return None;
    }
    let want = canon_cycle(&[(x0, y0), (x1, y0), (x1, y1), (x0, y1)]);
    if canon_cycle(poly) == want {
        Some(((x0, y0), (x1, y1)))
    } else {
        None
    }
}

/// Self-check of this module on a small exhaustive space: winding == crossing on every simple polygon
/// with 3..4 vertices on a 3x3 grid at every point of the 5x5 grid, plus fixed facts.
pub fn self_check() -> Result<(), String> {
    let tri = [(0, 0), (4, 0), (0, 4)];
    if locate_winding((1, 1), &tri) != Loc::Inside || locate_winding((2, 2), &tri) != Loc::Boundary || locate_winding((3, 3), &tri) != Loc::Outside {
        return Err("geom: triangle facts".into());
    }
    let dart = [(2, 0), (4, 0), (4, 4), (0, 4), (1, 2)];
    if !is_simple(&dart) || locate_winding((0, 2), &dart) != Loc::Outside || locate_crossing((0, 2), &dart) != Loc::Outside {
        return Err("geom: vertex-grazing fact".into());
    }
    if is_simple(&[(0, 0), (2, 2), (2, 0), (0, 2)]) {
        return Err("geom: bow-tie accepted as simple".into());
    }
    if is_simple(&[(0, 0), (2, 0), (1, 0), (1, 1)]) {
        return Err("geom: fold-back accepted as simple".into());
    }
    if !farther_than_half((0, 3), (0, 0), (5, 0), 4) || farther_than_half((0, 2), (0, 0), (5, 0), 4) {
        return Err("geom: distance facts".into());
    }
    let pts: Vec<P> = (0..9).map(|i| ((i % 3) as i64, (i / 3) as i64)).collect();
    let mut n = 0;
    for a in 0..9 {
        for b in 0..9 {
            for c in 0..9 {
                for d in 0..10 {
                    let mut poly = vec![pts[a], pts[b], pts[c]];
                    if d < 9 {
                        poly.push(pts[d]);
                    }
                    if !is_simple(&poly) {
                        continue;
                    }
                    n += 1;
                    for x in -1..4 {
                        for y in -1..4 {
                            if locate_winding((x, y), &poly) != locate_crossing((x, y), &poly) {
                                return Err(format!("geom: winding != crossing for {poly:?} at ({x},{y})"));
                            }
                        }
                    }
                }
            }
        }
    }
    if n < 100 {
        return Err("geom: self-check space too small".into());
    }
    Ok(())
}
