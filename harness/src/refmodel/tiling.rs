//! Reference tiling model for C08, written from the property statement and the data-model documentation
//! (stack.rs / tracks.rs doc comments). Plain integers; never calls layout21tetris.
//!
//! Geometry conventions (from the `MetalLayer` documentation): a layer with direction Horiz has tracks that run
//! along x and repeat along y; one *period* is the entry list laid down from `offset + pitch * p`, where
//! pitch = sum of entry widths - overlap; with every-other-period flipping the entry list of odd periods is
//! laid down in reverse order. Signal tracks are numbered from the outline origin upwards, `nsig` per period.

#[derive(Clone, Copy, Debug, PartialEq, Eq, PartialOrd, Ord)]
pub enum Kind {
    Gap,
    Sig,
    Pwr,
    Gnd,
}
#[derive(Clone, Debug, PartialEq)]
pub struct EntryD {
    pub kind: Kind,
    pub w: i64,
}
#[derive(Clone, Debug, PartialEq)]
pub enum SpecD {
    E(EntryD),
    Rep(Vec<EntryD>, usize),
}
#[derive(Clone, Debug, PartialEq)]
pub struct LayerD {
    pub horiz: bool,
    pub spec: Vec<SpecD>,
    pub offset: i64,
    pub overlap: i64,
    pub cutsize: i64,
    pub flip: bool,
}
#[derive(Clone, Debug, PartialEq)]
pub struct StackD {
    pub name: &'static str,
    /// primitive pitches (x, y) in database units
    pub prim: (i64, i64),
    pub layers: Vec<LayerD>,
    /// via k connects metal k and metal k+1; size (x, y)
    pub vias: Vec<(i64, i64)>,
}

pub fn gcd(a: i64, b: i64) -> i64 {
    if b == 0 {
        a.abs()
    } else {
        gcd(b, a % b)
    }
}
pub fn lcm(a: i64, b: i64) -> i64 {
    a / gcd(a, b) * b
}

impl LayerD {
    pub fn entries(&self) -> Vec<EntryD> {
        let mut v = vec![];
        for s in &self.spec {
            match s {
                SpecD::E(e) => v.push(e.clone()),
                SpecD::Rep(es, n) => {
                    for _ in 0..*n {
                        v.extend(es.iter().cloned());
                    }
                }
            }
        }
        v
    }
    pub fn pitch(&self) -> i64 {
        self.entries().iter().map(|e| e.w).sum::<i64>() - self.overlap
    }
    pub fn nsig(&self) -> usize {
        self.entries().iter().filter(|e| e.kind == Kind::Sig).count()
    }
    /// Tracks (non-gap entries) of period `p` in positional order: (kind, start, width).
    pub fn period(&self, p: usize, flip_aware: bool) -> Vec<(Kind, i64, i64)> {
        let mut es = self.entries();
        if flip_aware && self.flip && p % 2 == 1 {
            es.reverse();
        }
        let mut cur = self.offset + self.pitch() * p as i64;
        let mut out = vec![];
        for e in es {
            if e.kind != Kind::Gap {
                out.push((e.kind, cur, e.w));
            }
            cur += e.w;
        }
        out
    }
    /// (start, width) of signal track number `idx` (counted from the origin, nsig per period)
    pub fn signal(&self, idx: usize, flip_aware: bool) -> (i64, i64) {
        let n = self.nsig();
        let p = idx / n;
        let k = idx % n;
        let sigs: Vec<(Kind, i64, i64)> = self.period(p, flip_aware).into_iter().filter(|t| t.0 == Kind::Sig).collect();
        (sigs[k].1, sigs[k].2)
    }
    pub fn center(&self, idx: usize, flip_aware: bool) -> i64 {
        let (s, w) = self.signal(idx, flip_aware);
        s + w / 2
    }
}

impl StackD {
    /// smallest outline (x, y) in database units that is a whole number of periods of every layer
    pub fn period_box(&self) -> (i64, i64) {
        let mut lx = self.prim.0;
        let mut ly = self.prim.1;
        for l in &self.layers {
            if l.horiz {
                ly = lcm(ly, l.pitch());
            } else {
                lx = lcm(lx, l.pitch());
            }
        }
        (lx, ly)
    }
}

// ---------------------------------------------------------------------------------------------
// Cells
// ---------------------------------------------------------------------------------------------

/// (track layer, track index, cross layer, cross index)
#[derive(Clone, Copy, Debug, PartialEq, Eq, PartialOrd, Ord)]
pub struct CrossD(pub usize, pub usize, pub usize, pub usize);

#[derive(Clone, Debug, PartialEq)]
pub struct InstIn {
    /// index into `CaseD.children`
    pub child: usize,
    /// origin in primitive pitches
    pub loc: (i64, i64),
    pub rh: bool,
    pub rv: bool,
}
#[derive(Clone, Debug, PartialEq)]
pub struct ChildD {
    pub metals: usize,
    /// size in primitive pitches
    pub size: (i64, i64),
}
#[derive(Clone, Debug, PartialEq)]
pub struct CellIn {
    pub metals: usize,
    /// outline in primitive pitches
    pub size: (i64, i64),
    pub cuts: Vec<CrossD>,
    pub assigns: Vec<(String, CrossD)>,
    pub insts: Vec<InstIn>,
}

#[derive(Clone, Copy, Debug, PartialEq, Eq, PartialOrd, Ord)]
pub enum LayerId {
    Metal(usize),
    Via(usize),
    Other,
}
#[derive(Clone, Debug, PartialEq, Eq, PartialOrd, Ord)]
pub struct Elem {
    pub layer: LayerId,
    pub x0: i64,
    pub y0: i64,
    pub x1: i64,
    pub y1: i64,
    pub net: Option<String>,
}
impl Elem {
    pub fn normalised(mut self) -> Elem {
        if self.x0 > self.x1 {
            std::mem::swap(&mut self.x0, &mut self.x1);
        }
        if self.y0 > self.y1 {
            std::mem::swap(&mut self.y0, &mut self.y1);
        }
        self
    }
    pub fn area_is_zero(&self) -> bool {
        self.x0 == self.x1 || self.y0 == self.y1
    }
}

/// Which reading of the two recorded defects the model follows (both true = the statement).
#[derive(Clone, Copy, Debug, PartialEq)]
pub struct Mode {
    /// track centres follow the flipped entry order in odd periods
    pub flip_aware: bool,
    /// an instance blocks its bounding box along the track (false: [origin, origin+size] whatever the reflection)
    pub reflect_aware: bool,
    /// a cut reaching below coordinate 0 is clipped at the outline edge (false: a wire piece [0, start] of negative
    /// length is left behind)
    pub clip_low: bool,
    /// false = the statement: a crossing on a piece boundary or two nets on one piece are not judged.
    /// true = used only to attribute a mismatch to a recorded defect class: such ties are resolved the way
    /// tracks.rs documents (`set_net` names the first segment whose closed span contains the position, a later
    /// assignment replaces an earlier one, lower-layer assignments are applied before upper-layer ones).
    pub resolve_ties: bool,
}
pub const STATEMENT: Mode = Mode { flip_aware: true, reflect_aware: true, clip_low: true, resolve_ties: false };

#[derive(Clone, Debug, PartialEq)]
pub enum RefOut {
    /// the expected elements of the cell
    Judged(Vec<Elem>),
    /// the input is outside what the statement fixes; why
    Unjudged(&'static str),
}

/// Every span the cell asks to be free of wire: (metal layer, (track start, track width) across, (from, to) along,
/// true = blocked by an instance / false = cut), clipped to the outline. Independent of whether spans overlap.
pub fn removed_spans(sd: &StackD, cell: &CellIn, children: &[ChildD], mode: Mode) -> Vec<(usize, (i64, i64), (i64, i64), bool)> {
    let (px, py) = sd.prim;
    let (xdb, ydb) = (cell.size.0 * px, cell.size.1 * py);
    let mut out = vec![];
    for li in 0..cell.metals.min(sd.layers.len()) {
        let layer = &sd.layers[li];
        let (span, breadth) = if layer.horiz { (xdb, ydb) } else { (ydb, xdb) };
        let pitch = layer.pitch();
        let nper = (breadth / pitch) as usize;
        let nsig = layer.nsig();
        for p in 0..nper {
            let (lo, hi) = (pitch * p as i64, pitch * (p as i64 + 1));
            let mut blocked: Vec<(i64, i64)> = vec![];
            for i in &cell.insts {
                let c = &children[i.child];
                if c.metals <= li {
                    continue;
                }
                let (w, h) = (c.size.0 * px, c.size.1 * py);
                let (ox, oy) = (i.loc.0 * px, i.loc.1 * py);
                let x = if i.rh { (ox - w, ox) } else { (ox, ox + w) };
                let y = if i.rv { (oy - h, oy) } else { (oy, oy + h) };
                let (per, along) = if layer.horiz { (y, x) } else { (x, y) };
                if per.1 > lo && per.0 < hi {
                    blocked.push(along);
                }
            }
            let mut k = 0usize;
            for (kind, start, width) in layer.period(p, true) {
                // (signal tracks only: a rail shared by two periods is legitimately drawn by the period an instance does
                // not touch)
                if kind == Kind::Sig {
                    for b in &blocked {
                        out.push((li, (start, width), (b.0.max(0), b.1.min(span)), true));
                    }
                }
                if kind == Kind::Sig {
                    let g = p * nsig + k;
                    k += 1;
                    for c in &cell.cuts {
                        if c.0 == li && c.1 == g {
                            if let Some(xl) = sd.layers.get(c.2) {
                                if xl.horiz != layer.horiz {
                                    let at = xl.center(c.3, mode.flip_aware);
                                    out.push((li, (start, width), ((at - layer.cutsize / 2).max(0), (at + layer.cutsize / 2).min(span)), false));
                                }
                            }
                        }
                    }
                }
            }
        }
    }
    out
}

/// [0, span] minus the removed spans; Err if two removed spans overlap with positive length.
pub fn pieces(span: i64, removed: &[(i64, i64)], clip_low: bool) -> Result<Vec<(i64, i64)>, &'static str> {
    let mut r: Vec<(i64, i64)> = removed.to_vec();
    r.sort();
    for w in r.windows(2) {
        if w[1].0 < w[0].1 {
            return Err("overlapping cut / blocked spans on one track");
        }
    }
    let mut out = vec![];
    let mut cur = 0i64;
    for (a, b) in r {
        if clip_low || a >= 0 {
            if a > cur {
                out.push((cur, a.min(span)));
            }
        } else if cur == 0 {
            // defect reading: the first piece keeps its start 0 and gets the (negative) cut start as its end
            out.push((0, a));
        }
        cur = cur.max(b);
    }
    if cur < span {
        out.push((cur, span));
    }
    Ok(out)
}

/// Expected elements of one cell.
pub fn reference(sd: &StackD, cell: &CellIn, children: &[ChildD], mode: Mode) -> RefOut {
    let (px, py) = sd.prim;
    let xdb = cell.size.0 * px;
    let ydb = cell.size.1 * py;
    let mut elems: Vec<Elem> = vec![];
    // instance boxes in database units: (x0, x1, y0, y1, metals, origin, size)
    struct IB {
        x: (i64, i64),
        y: (i64, i64),
        metals: usize,
        ox: i64,
        oy: i64,
        w: i64,
        h: i64,
    }
    let ibs: Vec<IB> = cell
        .insts
        .iter()
        .map(|i| {
            let c = &children[i.child];
            let (w, h) = (c.size.0 * px, c.size.1 * py);
            let (ox, oy) = (i.loc.0 * px, i.loc.1 * py);
            IB { x: if i.rh { (ox - w, ox) } else { (ox, ox + w) }, y: if i.rv { (oy - h, oy) } else { (oy, oy + h) }, metals: c.metals, ox, oy, w, h }
        })
        .collect();
    for li in 0..cell.metals {
        let Some(layer) = sd.layers.get(li) else { return RefOut::Unjudged("cell uses more metals than the stack has") };
        let (span, breadth) = if layer.horiz { (xdb, ydb) } else { (ydb, xdb) };
        let pitch = layer.pitch();
        if breadth % pitch != 0 {
            return RefOut::Unjudged("outline is not a whole number of periods");
        }
        let nper = (breadth / pitch) as usize;
        let nsig = layer.nsig();
        for p in 0..nper {
            let lo = pitch * p as i64;
            let hi = pitch * (p as i64 + 1);
            // spans blocked by instances that reach this layer and overlap this period
            let mut blocked: Vec<(i64, i64)> = vec![];
            for ib in &ibs {
                if ib.metals <= li {
                    continue;
                }
                let (per, along, o_along, s_along) = if layer.horiz { (ib.y, ib.x, ib.ox, ib.w) } else { (ib.x, ib.y, ib.oy, ib.h) };
                if per.1 > lo && per.0 < hi {
                    blocked.push(if mode.reflect_aware { along } else { (o_along, o_along + s_along) });
                }
            }
            let mut k = 0usize;
            for (kind, start, width) in layer.period(p, true) {
                let mut removed = blocked.clone();
                let mut netpoints: Vec<(i64, &str)> = vec![];
                if kind == Kind::Sig {
                    let g = p * nsig + k;
                    k += 1;
                    for c in &cell.cuts {
                        if c.0 == li && c.1 == g {
                            let Some(xl) = sd.layers.get(c.2) else { return RefOut::Unjudged("cut crosses a layer outside the stack") };
                            if xl.horiz == layer.horiz {
                                return RefOut::Unjudged("cut crosses a parallel layer");
                            }
                            let at = xl.center(c.3, mode.flip_aware);
                            removed.push((at - layer.cutsize / 2, at + layer.cutsize / 2));
                        }
                    }
                    // assignments for which this layer is the lower one first, then those for which it is the upper one
                    for lower_role in [true, false] {
                        for (net, a) in &cell.assigns {
                            for (tl, ti, ol, oi) in [(a.0, a.1, a.2, a.3), (a.2, a.3, a.0, a.1)] {
                                if tl == li && ti == g && (ol > tl) == lower_role {
                                    let Some(xl) = sd.layers.get(ol) else { return RefOut::Unjudged("assignment on a layer outside the stack") };
                                    netpoints.push((xl.center(oi, mode.flip_aware), net.as_str()));
                                }
                            }
                        }
                    }
                }
                for r in &removed {
                    if r.1 > span {
                        return RefOut::Unjudged("cut / blocked span reaches beyond the far outline edge");
                    }
                }
                // ordered segments of the track: wire pieces (possibly of zero length in front of a removed span,
                // dropped later) and removed spans; (is_wire, is_blocked, a, b)
                let mut rs: Vec<(i64, i64, bool)> = removed.iter().map(|r| (r.0, r.1, blocked.contains(r))).collect();
                rs.sort();
                for w in rs.windows(2) {
                    if w[1].0 < w[0].1 {
                        return RefOut::Unjudged("overlapping cut / blocked spans on one track");
                    }
                }
                let mut segs: Vec<(bool, bool, i64, i64)> = vec![];
                let mut cur = 0i64;
                for (a, b, is_blk) in &rs {
                    let a_eff = if mode.clip_low { (*a).max(0) } else { *a };
                    if a_eff >= cur || (!mode.clip_low && cur == 0) {
                        segs.push((true, false, cur, a_eff));
                    }
                    segs.push((false, *is_blk, a_eff, *b));
                    cur = cur.max(*b);
                }
                if cur < span {
                    segs.push((true, false, cur, span));
                }
                let mut seg_net: Vec<Option<&str>> = vec![None; segs.len()];
                for (at, net) in netpoints {
                    if at < 0 || at > span {
                        return RefOut::Unjudged("assignment outside the outline");
                    }
                    if !mode.resolve_ties {
                        if segs.iter().any(|s| !s.0 && s.1 && s.2 < at && at < s.3) {
                            // under an instance: no wire piece covers the crossing on this layer
                            continue;
                        }
                        if segs.iter().any(|s| !s.0 && s.2 <= at && at <= s.3) {
                            return RefOut::Unjudged("assignment on a cut or on the edge of a cut / blocked span");
                        }
                        let Some(pi) = segs.iter().position(|s| s.0 && s.2 < at && at < s.3) else {
                            return RefOut::Unjudged("crossing coincides with a piece boundary");
                        };
                        match seg_net[pi] {
                            Some(n) if n != net => return RefOut::Unjudged("two different nets on one wire piece"),
                            _ => seg_net[pi] = Some(net),
                        }
                    } else {
                        let mut found = None;
                        for (i, sg) in segs.iter().enumerate() {
                            if sg.2 > at {
                                break;
                            }
                            if sg.2 <= at && sg.3 >= at {
                                found = Some(i);
                                break;
                            }
                        }
                        match found {
                            None => return RefOut::Unjudged("assignment finds no segment"),
                            Some(i) if segs[i].0 => seg_net[i] = Some(net),
                            Some(i) if segs[i].1 => {}
                            Some(_) => return RefOut::Unjudged("assignment on a cut"),
                        }
                    }
                }
                let ps: Vec<(i64, i64)> = segs.iter().filter(|s| s.0).map(|s| (s.2, s.3)).collect();
                let nets: Vec<Option<&str>> = segs.iter().zip(seg_net.iter()).filter(|(s, _)| s.0).map(|(_, n)| *n).collect();
                for (pi, (a, b)) in ps.iter().enumerate() {
                    let net: Option<String> = match kind {
                        Kind::Pwr => Some("VDD".into()),
                        Kind::Gnd => Some("VSS".into()),
                        _ => nets[pi].map(|s| s.to_string()),
                    };
                    let e = if layer.horiz {
                        Elem { layer: LayerId::Metal(li), x0: *a, y0: start, x1: *b, y1: start + width, net }
                    } else {
                        Elem { layer: LayerId::Metal(li), x0: start, y0: *a, x1: start + width, y1: *b, net }
                    };
                    elems.push(e);
                }
            }
        }
    }
    // vias
    for (net, a) in &cell.assigns {
        let (bot, top) = if a.0 + 1 == a.2 {
            ((a.0, a.1), (a.2, a.3))
        } else if a.2 + 1 == a.0 {
            ((a.2, a.3), (a.0, a.1))
        } else {
            return RefOut::Unjudged("assignment on non-adjacent layers");
        };
        if top.0 >= cell.metals {
            return RefOut::Unjudged("assignment above the cell's metals");
        }
        let (bl, tl) = (&sd.layers[bot.0], &sd.layers[top.0]);
        if bl.horiz == tl.horiz {
            return RefOut::Unjudged("assignment between parallel layers");
        }
        let cb = bl.center(bot.1, mode.flip_aware);
        let ct = tl.center(top.1, mode.flip_aware);
        // a horizontal layer's track centre is a y coordinate
        let (cx, cy) = if bl.horiz { (ct, cb) } else { (cb, ct) };
        let Some(vs) = sd.vias.get(bot.0) else { return RefOut::Unjudged("no via layer") };
        elems.push(Elem { layer: LayerId::Via(bot.0), x0: cx - vs.0 / 2, y0: cy - vs.1 / 2, x1: cx + vs.0 / 2, y1: cy + vs.1 / 2, net: Some(net.clone()) });
    }
    RefOut::Judged(elems)
}

/// Canonical multiset: normalised corners, zero-area pieces dropped, exact duplicates of rail rectangles
/// (a rail shared by two periods through `overlap`) collapsed, sorted.
pub fn canonical(elems: &[Elem]) -> Vec<Elem> {
    let mut v: Vec<Elem> = elems.iter().cloned().map(|e| e.normalised()).filter(|e| !e.area_is_zero()).collect();
    v.sort();
    let mut out: Vec<Elem> = vec![];
    for e in v {
        let is_rail = matches!(e.layer, LayerId::Metal(_)) && matches!(e.net.as_deref(), Some("VDD") | Some("VSS"));
        if is_rail && out.last() == Some(&e) {
            continue;
        }
        out.push(e);
    }
    out
}

/// (missing from got, unexpected in got)
pub fn diff(want: &[Elem], got: &[Elem]) -> (Vec<Elem>, Vec<Elem>) {
    let mut missing = vec![];
    let mut extra = vec![];
    let (mut i, mut j) = (0, 0);
    while i < want.len() || j < got.len() {
        if i < want.len() && j < got.len() && want[i] == got[j] {
            i += 1;
            j += 1;
        } else if j >= got.len() || (i < want.len() && want[i] < got[j]) {
            missing.push(want[i].clone());
            i += 1;
        } else {
            extra.push(got[j].clone());
            j += 1;
        }
    }
    (missing, extra)
}

// ---------------------------------------------------------------------------------------------
// The family of stacks
// ---------------------------------------------------------------------------------------------

fn en(kind: Kind, w: i64) -> EntryD {
    EntryD { kind, w }
}
fn e(kind: Kind, w: i64) -> SpecD {
    SpecD::E(en(kind, w))
}
use Kind::*;

/// `[sig, gap]`, first track centred on the period boundary (the pdka met2 idiom)
pub fn pat_a(horiz: bool, p: i64) -> LayerD {
    LayerD { horiz, spec: vec![e(Sig, 120), e(Gap, p - 120)], offset: -60, overlap: 0, cutsize: 40, flip: false }
}
/// `[gap, sig, gap]`
pub fn pat_b(horiz: bool, p: i64) -> LayerD {
    LayerD { horiz, spec: vec![e(Gap, 100), e(Sig, p - 200), e(Gap, 100)], offset: 0, overlap: 0, cutsize: 40, flip: false }
}
/// `[rail, gap, sig, gap, sig, gap, rail]`, overlap = rail width, offset = -rail/2, flipping (the pdka met1 idiom)
pub fn pat_c(horiz: bool, p: i64) -> LayerD {
    if p == 600 {
        LayerD { horiz, spec: vec![e(Gnd, 120), e(Gap, 100), e(Sig, 80), e(Gap, 120), e(Sig, 80), e(Gap, 100), e(Pwr, 120)], offset: -60, overlap: 120, cutsize: 40, flip: true }
    } else {
        LayerD { horiz, spec: vec![e(Gnd, 80), e(Gap, 60), e(Sig, 60), e(Gap, 80), e(Sig, 60), e(Gap, 60), e(Pwr, 80)], offset: -40, overlap: 80, cutsize: 40, flip: true }
    }
}
/// rails around a `Repeat` of `[gap, sig]`
pub fn pat_d(horiz: bool, p: i64) -> LayerD {
    if p == 600 {
        LayerD { horiz, spec: vec![e(Gnd, 120), SpecD::Rep(vec![en(Gap, 90), en(Sig, 40)], 3), e(Gap, 90), e(Pwr, 120)], offset: -60, overlap: 120, cutsize: 40, flip: true }
    } else {
        LayerD { horiz, spec: vec![e(Gnd, 80), SpecD::Rep(vec![en(Gap, 80), en(Sig, 40)], 2), e(Gap, 80), e(Pwr, 80)], offset: -40, overlap: 80, cutsize: 40, flip: true }
    }
}
/// asymmetric two-track pattern
pub fn pat_e(horiz: bool, p: i64, flip: bool) -> LayerD {
    let spec = if p == 600 { vec![e(Gap, 60), e(Sig, 100), e(Gap, 240), e(Sig, 160), e(Gap, 40)] } else { vec![e(Gap, 60), e(Sig, 100), e(Gap, 140), e(Sig, 60), e(Gap, 40)] };
    LayerD { horiz, spec, offset: 0, overlap: 0, cutsize: 40, flip }
}
/// asymmetric with rails inside the period, no overlap, no flipping
pub fn pat_f(horiz: bool, p: i64) -> LayerD {
    LayerD { horiz, spec: vec![e(Gnd, 80), e(Gap, 60), e(Sig, 100), e(Gap, p - 340), e(Pwr, 100)], offset: 0, overlap: 0, cutsize: 40, flip: false }
}

pub fn stack_family() -> Vec<StackD> {
    let vias = vec![(40, 60), (60, 40)];
    let h = true;
    let v = false;
    let mut f = vec![
        StackD { name: "HVH rails+flip / sig-gap / rails+flip (pdka idiom)", prim: (200, 300), layers: vec![pat_c(h, 600), pat_a(v, 400), pat_c(h, 600)], vias: vias.clone() },
        StackD { name: "HVH gap-sig-gap x3", prim: (200, 300), layers: vec![pat_b(h, 600), pat_b(v, 400), pat_b(h, 600)], vias: vias.clone() },
        StackD { name: "VHV sig-gap / rails+flip / sig-gap", prim: (200, 300), layers: vec![pat_a(v, 400), pat_c(h, 600), pat_a(v, 400)], vias: vias.clone() },
        StackD { name: "HV repeat+rails+flip / gap-sig-gap", prim: (200, 300), layers: vec![pat_d(h, 600), pat_b(v, 400)], vias: vias.clone() },
        StackD { name: "VH asymmetric (no flip) / gap-sig-gap", prim: (200, 300), layers: vec![pat_e(v, 400, false), pat_b(h, 600)], vias: vias.clone() },
        StackD { name: "HVH asymmetric+flip / sig-gap / gap-sig-gap", prim: (200, 300), layers: vec![pat_e(h, 600, true), pat_a(v, 400), pat_b(h, 600)], vias: vias.clone() },
        StackD { name: "VHV gap-sig-gap / asymmetric+flip / gap-sig-gap", prim: (200, 300), layers: vec![pat_b(v, 400), pat_e(h, 600, true), pat_b(v, 400)], vias: vias.clone() },
        StackD { name: "HVH rails-in-period / asymmetric (no flip) / repeat+rails+flip", prim: (200, 300), layers: vec![pat_f(h, 600), pat_e(v, 400, false), pat_d(h, 600)], vias: vias.clone() },
        StackD { name: "VH rails+flip / asymmetric+flip", prim: (200, 300), layers: vec![pat_c(v, 400), pat_e(h, 600, true)], vias: vias.clone() },
        StackD { name: "HVH sig-gap x3 (edge-centred tracks)", prim: (200, 300), layers: vec![pat_a(h, 600), pat_a(v, 400), pat_a(h, 600)], vias: vias.clone() },
        StackD { name: "HV gap-sig-gap, square primitive pitch", prim: (200, 200), layers: vec![pat_b(h, 600), pat_b(v, 400)], vias: vias.clone() },
    ];
    // different cut sizes per layer, wide vias
    let mut l = vec![pat_b(h, 600), pat_f(v, 400), pat_b(h, 600)];
    l[0].cutsize = 20;
    l[1].cutsize = 60;
    l[2].cutsize = 100;
    f.push(StackD { name: "HVH gap-sig-gap / rails-in-period / gap-sig-gap, cut sizes 20/60/100", prim: (200, 300), layers: l, vias: vec![(80, 20), (20, 80)] });
    // two horizontal layers of different pitch (600 and 1200)
    let wide = LayerD { horiz: true, spec: vec![e(Gap, 200), e(Sig, 800), e(Gap, 200)], offset: 0, overlap: 0, cutsize: 40, flip: false };
    f.push(StackD { name: "HVH gap-sig-gap pitch 600 / sig-gap / gap-sig-gap pitch 1200", prim: (200, 300), layers: vec![pat_b(h, 600), pat_a(v, 400), wide.clone()], vias: vias.clone() });
    // an upper layer whose own pitch is smaller than the least common multiple of the same-direction pitches
    // below it: 1200 under 600 (horizontal), and 400 under 600 (vertical, lcm 1200)
    f.push(StackD { name: "HVH gap-sig-gap pitch 1200 / sig-gap / gap-sig-gap pitch 600", prim: (200, 300), layers: vec![wide, pat_a(v, 400), pat_b(h, 600)], vias: vias.clone() });
    f.push(StackD { name: "VHV sig-gap pitch 400 / gap-sig-gap / gap-sig-gap pitch 600", prim: (200, 300), layers: vec![pat_a(v, 400), pat_b(h, 600), pat_b(v, 600)], vias: vias.clone() });
    // flipping layers whose offset is not -overlap/2 (rails+flip starting at 0; asymmetric+flip shifted by 30): period p
    // starts at offset + p * pitch and lists its entries backwards when p is odd - the reading under which wires, cuts
    // and vias of one crossing coincide
    let mut c0 = pat_c(h, 600);
    c0.offset = 0;
    let mut e30 = pat_e(v, 400, true);
    e30.offset += 30;
    f.push(StackD { name: "HVH rails+flip offset 0 / asymmetric+flip offset+30 / gap-sig-gap", prim: (200, 300), layers: vec![c0, e30, pat_b(h, 600)], vias: vias.clone() });
    // an odd number of signals per period, not symmetric about the period centre, flipping: the middle track keeps
    // its index but not its place in odd periods
    let g3 = LayerD { horiz: h, spec: vec![e(Gap, 50), SpecD::Rep(vec![en(Sig, 100), en(Gap, 60)], 3), e(Gap, 70)], offset: 0, overlap: 0, cutsize: 40, flip: true };
    let g3v = LayerD { horiz: v, spec: vec![e(Gap, 30), e(Sig, 60), e(Gap, 40), e(Sig, 80), e(Gap, 50), e(Sig, 60), e(Gap, 80)], offset: 0, overlap: 0, cutsize: 40, flip: true };
    f.push(StackD { name: "HVH three signals asymmetric+flip / three signals asymmetric+flip / gap-sig-gap", prim: (200, 300), layers: vec![g3, g3v, pat_b(h, 600)], vias: vias.clone() });
    // cuts longer than the pitch of the crossing tracks: cuts at neighbouring crossings overlap
    let mut wide_cut = pat_b(h, 600);
    wide_cut.cutsize = 500;
    let mut wide_cut_v = pat_a(v, 400);
    wide_cut_v.cutsize = 700;
    f.push(StackD { name: "HV gap-sig-gap cut size 500 / sig-gap cut size 700 (neighbouring cuts overlap)", prim: (200, 300), layers: vec![wide_cut, wide_cut_v], vias: vias.clone() });
    // periods that overlap by a shared ground rail without flipping (overlap != 0, FlipMode::None), under a vertical
    // layer that does the same with an asymmetric pattern
    let share_h = LayerD { horiz: h, spec: vec![e(Gnd, 120), e(Gap, 100), e(Sig, 80), e(Gap, 140), e(Sig, 60), e(Gap, 100), e(Gnd, 120)], offset: -60, overlap: 120, cutsize: 40, flip: false };
    let share_v = LayerD { horiz: v, spec: vec![e(Gnd, 80), e(Gap, 60), e(Sig, 100), e(Gap, 80), e(Sig, 60), e(Gap, 20), e(Gnd, 80)], offset: -40, overlap: 80, cutsize: 40, flip: false };
    f.push(StackD { name: "HVH shared ground rail, no flip / shared ground rail, no flip / gap-sig-gap", prim: (200, 300), layers: vec![share_h, share_v, pat_b(h, 600)], vias });
    f
}

// ---------------------------------------------------------------------------------------------
// Self-check
// ---------------------------------------------------------------------------------------------

pub fn self_check() -> Result<(), String> {
    // hand-computed: the pdka-idiom layer, pitch 600: rails at -60..60 and 540..660, signals 160..240, 360..440
    let c = pat_c(true, 600);
    if c.pitch() != 600 || c.nsig() != 2 {
        return Err("pat_c pitch/nsig".into());
    }
    if c.period(0, true) != vec![(Gnd, -60, 120), (Sig, 160, 80), (Sig, 360, 80), (Pwr, 540, 120)] {
        return Err(format!("pat_c period 0: {:?}", c.period(0, true)));
    }
    // flipped period 1: pwr first, coincident with period 0's top rail
    if c.period(1, true) != vec![(Pwr, 540, 120), (Sig, 760, 80), (Sig, 960, 80), (Gnd, 1140, 120)] {
        return Err(format!("pat_c period 1: {:?}", c.period(1, true)));
    }
    if c.center(0, true) != 200 || c.center(3, true) != 1000 || c.center(3, false) != 1000 {
        return Err("pat_c centres".into());
    }
    // the asymmetric pattern: flipped centres differ from unflipped ones in odd periods only
    let e4 = pat_e(false, 400, true);
    if e4.pitch() != 400 || e4.center(0, true) != 110 || e4.center(1, true) != 330 || e4.center(2, true) != 400 + 70 || e4.center(3, true) != 400 + 290 || e4.center(2, false) != 510 || e4.center(4, true) != 910 {
        return Err("pat_e centres".into());
    }
    let d = pat_d(true, 600);
    if d.pitch() != 600 || d.nsig() != 3 || d.signal(1, true) != (280, 40) {
        return Err(format!("pat_d: pitch {} nsig {} sig1 {:?}", d.pitch(), d.nsig(), d.signal(1, true)));
    }
    for s in stack_family() {
        for (i, l) in s.layers.iter().enumerate() {
            let per = if l.horiz { s.prim.1 } else { s.prim.0 };
            if l.pitch() <= 0 || l.pitch() % per != 0 {
                return Err(format!("stack {}: layer {i} pitch {} is not a multiple of the primitive pitch {per}", s.name, l.pitch()));
            }
            if i > 0 && s.layers[i - 1].horiz == l.horiz {
                return Err(format!("stack {}: layers do not alternate", s.name));
            }
            if l.cutsize % 2 != 0 || l.entries().iter().any(|e| e.w % 2 != 0) {
                return Err(format!("stack {}: odd size", s.name));
            }
            // flipping keeps the rails of adjacent periods coincident
            if l.flip && l.overlap > 0 {
                let a = l.period(0, true);
                let b = l.period(1, true);
                let (la, fb) = (a.last().unwrap(), b.first().unwrap());
                if la != fb {
                    return Err(format!("stack {}: shared rail differs between periods: {la:?} vs {fb:?}", s.name));
                }
            }
        }
        if s.vias.len() + 1 < s.layers.len() || s.vias.iter().any(|v| v.0 % 2 != 0 || v.1 % 2 != 0) {
            return Err(format!("stack {}: vias", s.name));
        }
    }
    // pieces
    if pieces(100, &[(20, 40), (40, 50), (90, 100)], true) != Ok(vec![(0, 20), (50, 90)]) {
        return Err("pieces basic".into());
    }
    if pieces(100, &[(20, 40), (30, 50)], true).is_ok() {
        return Err("pieces overlap".into());
    }
    if pieces(100, &[(-20, 20)], true) != Ok(vec![(20, 100)]) || pieces(100, &[(-20, 20)], false) != Ok(vec![(0, -20), (20, 100)]) {
        return Err("pieces low clip".into());
    }
    // a whole tiny cell by hand: stack 1 (gap-sig-gap everywhere), 1x1 period = 400 x 600, 2 metals,
    // one assignment at the only crossing, net "a"
    let fam = stack_family();
    let s1 = &fam[1];
    let cell = CellIn { metals: 2, size: (2, 2), cuts: vec![], assigns: vec![("a".into(), CrossD(0, 0, 1, 0))], insts: vec![] };
    let want = vec![
        Elem { layer: LayerId::Metal(0), x0: 0, y0: 100, x1: 400, y1: 500, net: Some("a".into()) },
        Elem { layer: LayerId::Metal(1), x0: 100, y0: 0, x1: 300, y1: 600, net: Some("a".into()) },
        Elem { layer: LayerId::Via(0), x0: 200 - 20, y0: 300 - 30, x1: 200 + 20, y1: 300 + 30, net: Some("a".into()) },
    ];
    match reference(s1, &cell, &[], STATEMENT) {
        RefOut::Judged(v) if canonical(&v) == canonical(&want) => {}
        other => return Err(format!("tiny cell: {other:?}")),
    }
    // with a cut on metal 0 at the crossing instead: pieces 0..180 and 220..400
    let cell = CellIn { metals: 1, size: (2, 2), cuts: vec![CrossD(0, 0, 1, 0)], assigns: vec![], insts: vec![] };
    let want = vec![Elem { layer: LayerId::Metal(0), x0: 0, y0: 100, x1: 180, y1: 500, net: None }, Elem { layer: LayerId::Metal(0), x0: 220, y0: 100, x1: 400, y1: 500, net: None }];
    match reference(s1, &cell, &[], STATEMENT) {
        RefOut::Judged(v) if canonical(&v) == canonical(&want) => {}
        other => return Err(format!("tiny cut cell: {other:?}")),
    }
    // a reflected instance blocks its bounding box
    let child = ChildD { metals: 1, size: (1, 2) };
    let cell = CellIn { metals: 2, size: (4, 2), cuts: vec![], assigns: vec![], insts: vec![InstIn { child: 0, loc: (3, 0), rh: true, rv: false }] };
    match reference(s1, &cell, &[child.clone()], STATEMENT) {
        RefOut::Judged(v) => {
            let m0: Vec<&Elem> = v.iter().filter(|e| e.layer == LayerId::Metal(0)).collect();
            if m0.len() != 2 || (m0[0].x0, m0[0].x1, m0[1].x0, m0[1].x1) != (0, 400, 600, 800) {
                return Err(format!("reflected instance: {m0:?}"));
            }
        }
        other => return Err(format!("reflected instance: {other:?}")),
    }
    let mut bug = STATEMENT;
    bug.reflect_aware = false;
    bug.resolve_ties = true;
    match reference(s1, &cell, &[child], bug) {
        RefOut::Judged(v) => {
            let m0: Vec<&Elem> = v.iter().filter(|e| e.layer == LayerId::Metal(0)).collect();
            if m0.len() != 1 || (m0[0].x0, m0[0].x1) != (0, 600) {
                return Err(format!("reflected instance, defect reading: {m0:?}"));
            }
        }
        other => return Err(format!("reflected instance, defect reading: {other:?}")),
    }
    Ok(())
}
