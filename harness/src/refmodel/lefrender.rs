//! Independent LEF text renderer and reference tokenizer (oracle side of C04 / C05 / C11).
//!
//! Written from the LEF/DEF language reference syntax. It reads `lef21` *data* (public fields of the
//! value types) but never calls lef21's reader, writer or enum<->string tables: every keyword below is
//! spelled out by hand, so a misspelt table entry in the crate is visible.
//!
//! A library value is turned into a statement tree, the tree is flattened (optionally with sibling
//! statements permuted) into a token list, and the token list is spelled out with lexical deviations
//! (`Dev`): whitespace / comment variants at every token boundary, keyword case, decimal spellings,
//! END LIBRARY present/absent, PROPERTY statements joined.

use lef21::*;
use rust_decimal::Decimal;

// ------------------------------------------------------------------------------------------------
// Tokens and statement tree
// ------------------------------------------------------------------------------------------------

#[derive(Clone, Copy, Debug, PartialEq, Eq)]
pub enum TK {
    /// keyword or enumeration word: matched case-insensitively by LEF
    Key,
    /// identifier or other literal word (rendered verbatim)
    Name,
    /// decimal number (value = mantissa * 10^-scale)
    Num,
    /// string literal including its quotes (rendered verbatim)
    Str,
    Semi,
}

#[derive(Clone, Debug)]
pub struct Tok {
    pub k: TK,
    pub s: String,
    pub num: (i128, u32),
    /// default gap before this token is a line break plus indentation
    pub nl: bool,
    pub ind: u8,
    /// inside BEGINEXT .. ENDEXT: no comment variants before this token
    pub opaque: bool,
}

fn tok(k: TK, s: &str) -> Tok {
    Tok { k, s: s.to_string(), num: (0, 0), nl: false, ind: 0, opaque: false }
}
pub fn key(s: &str) -> Tok {
    tok(TK::Key, s)
}
pub fn name(s: &str) -> Tok {
    tok(TK::Name, s)
}
pub fn strlit(s: &str) -> Tok {
    tok(TK::Str, s)
}
pub fn semi() -> Tok {
    tok(TK::Semi, ";")
}
pub fn num(d: &Decimal) -> Tok {
    let (m, s) = (d.mantissa(), d.scale());
    let mut t = tok(TK::Num, &canonical(m, s));
    t.num = (m, s);
    t
}

/// Plain positional spelling of mantissa * 10^-scale with exactly `scale` fraction digits.
pub fn canonical(m: i128, scale: u32) -> String {
    let neg = m < 0;
    let mut digits = m.unsigned_abs().to_string();
    let sc = scale as usize;
    if sc > 0 {
        while digits.len() <= sc {
            digits.insert(0, '0');
        }
        let cut = digits.len() - sc;
        digits.insert(cut, '.');
    }
    if neg {
        format!("-{digits}")
    } else {
        digits
    }
}

/// Alternative spellings of the same number, all different from `canonical(m, scale)`.
pub fn spellings(m: i128, scale: u32) -> Vec<String> {
    let base = canonical(m, scale);
    let neg = m < 0;
    let body = base.trim_start_matches('-').to_string();
    let sign = if neg { "-" } else { "" };
    let mut v: Vec<String> = vec![];
    let has_dot = body.contains('.');
    // trailing zeros
    if has_dot {
        v.push(format!("{sign}{body}0"));
        v.push(format!("{sign}{body}000"));
    } else {
        v.push(format!("{sign}{body}.0"));
        v.push(format!("{sign}{body}.000"));
        v.push(format!("{sign}{body}."));
    }
    // leading zero
    v.push(format!("{sign}0{body}"));
    // leading dot
    if has_dot && body.starts_with("0.") {
        v.push(format!("{sign}{}", &body[1..]));
        v.push(format!("{sign}{}0", &body[1..]));
    }
    if m == 0 {
        v.push("-0".into());
        v.push("0.0".into());
        v.push("-0.0".into());
        v.push(".0".into());
    }
    v.retain(|s| *s != base);
    v.sort();
    v.dedup();
    v
}

/// Independent decimal reader for the self-check: Some((negative, normalised mantissa digits, scale)).
pub fn parse_decimal(s: &str) -> Option<(bool, String, u32)> {
    let (neg, rest) = match s.strip_prefix('-') {
        Some(r) => (true, r),
        None => (false, s),
    };
    let (ip, fp) = match rest.find('.') {
        Some(i) => (&rest[..i], &rest[i + 1..]),
        None => (rest, ""),
    };
    if ip.is_empty() && fp.is_empty() {
        return None;
    }
    if !ip.bytes().all(|b| b.is_ascii_digit()) || !fp.bytes().all(|b| b.is_ascii_digit()) {
        return None;
    }
    let fp = fp.trim_end_matches('0');
    let mut digits = format!("{ip}{fp}");
    let d2 = digits.trim_start_matches('0').to_string();
    digits = if d2.is_empty() { "0".into() } else { d2 };
    let neg = neg && digits != "0";
    let scale = if digits == "0" { 0 } else { fp.len() as u32 };
    Some((neg, digits, scale))
}
fn normal_of(m: i128, scale: u32) -> (bool, String, u32) {
    parse_decimal(&canonical(m, scale)).expect("canonical spelling parses")
}

#[derive(Clone, Debug)]
pub struct Node {
    pub head: Vec<Tok>,
    pub kids: Vec<Node>,
    pub tail: Vec<Tok>,
    /// statement kind: siblings of the same kind keep their relative order under permutation
    pub kind: u16,
    /// kids[fixed..] may be permuted
    pub perm: bool,
    pub fixed: usize,
}
fn leaf(kind: u16, head: Vec<Tok>) -> Node {
    Node { head, kids: vec![], tail: vec![], kind, perm: false, fixed: 0 }
}

// ------------------------------------------------------------------------------------------------
// Keyword tables (LEF reference spelling, written by hand)
// ------------------------------------------------------------------------------------------------

fn w_onoff(v: &LefOnOff) -> &'static str {
    match v {
        LefOnOff::On => "ON",
        LefOnOff::Off => "OFF",
    }
}
fn w_clearance(v: &LefClearanceStyle) -> &'static str {
    match v {
        LefClearanceStyle::MaxXY => "MAXXY",
        LefClearanceStyle::Euclidean => "EUCLIDEAN",
    }
}
fn w_source(v: &LefDefSource) -> &'static str {
    match v {
        LefDefSource::Netlist => "NETLIST",
        LefDefSource::Dist => "DIST",
        LefDefSource::Timing => "TIMING",
        LefDefSource::User => "USER",
    }
}
fn w_symmetry(v: &LefSymmetry) -> &'static str {
    match v {
        LefSymmetry::X => "X",
        LefSymmetry::Y => "Y",
        LefSymmetry::R90 => "R90",
    }
}
fn w_orient(v: &LefOrient) -> &'static str {
    match v {
        LefOrient::N => "N",
        LefOrient::S => "S",
        LefOrient::E => "E",
        LefOrient::W => "W",
        LefOrient::FN => "FN",
        LefOrient::FS => "FS",
        LefOrient::FE => "FE",
        LefOrient::FW => "FW",
    }
}
fn w_use(v: &LefPinUse) -> &'static str {
    match v {
        LefPinUse::Signal => "SIGNAL",
        LefPinUse::Analog => "ANALOG",
        LefPinUse::Power => "POWER",
        LefPinUse::Ground => "GROUND",
        LefPinUse::Clock => "CLOCK",
    }
}
fn w_shape(v: &LefPinShape) -> &'static str {
    match v {
        LefPinShape::Abutment => "ABUTMENT",
        LefPinShape::Ring => "RING",
        LefPinShape::FeedThru => "FEEDTHRU",
    }
}
fn w_pad(v: &LefPadClassType) -> &'static str {
    match v {
        LefPadClassType::Input => "INPUT",
        LefPadClassType::Output => "OUTPUT",
        LefPadClassType::Inout => "INOUT",
        LefPadClassType::Power => "POWER",
        LefPadClassType::Spacer => "SPACER",
        LefPadClassType::AreaIo => "AREAIO",
    }
}
fn w_endcap(v: &LefEndCapClassType) -> &'static str {
    match v {
        LefEndCapClassType::Pre => "PRE",
        LefEndCapClassType::Post => "POST",
        LefEndCapClassType::TopLeft => "TOPLEFT",
        LefEndCapClassType::TopRight => "TOPRIGHT",
        LefEndCapClassType::BottomLeft => "BOTTOMLEFT",
        LefEndCapClassType::BottomRight => "BOTTOMRIGHT",
    }
}
fn w_block(v: &LefBlockClassType) -> &'static str {
    match v {
        LefBlockClassType::BlackBox => "BLACKBOX",
        LefBlockClassType::Soft => "SOFT",
    }
}
fn w_core(v: &LefCoreClassType) -> &'static str {
    match v {
        LefCoreClassType::FeedThru => "FEEDTHRU",
        LefCoreClassType::TieHigh => "TIEHIGH",
        LefCoreClassType::TieLow => "TIELOW",
        LefCoreClassType::Spacer => "SPACER",
        LefCoreClassType::AntennaCell => "ANTENNACELL",
        LefCoreClassType::WellTap => "WELLTAP",
    }
}
fn w_portclass(v: &LefPortClass) -> &'static str {
    match v {
        LefPortClass::None => "NONE",
        LefPortClass::Core => "CORE",
        LefPortClass::Bump => "BUMP",
    }
}
fn w_siteclass(v: &LefSiteClass) -> &'static str {
    match v {
        LefSiteClass::Pad => "PAD",
        LefSiteClass::Core => "CORE",
    }
}
fn w_antmodel(v: &LefAntennaModel) -> &'static str {
    match v {
        LefAntennaModel::Oxide1 => "OXIDE1",
        LefAntennaModel::Oxide2 => "OXIDE2",
        LefAntennaModel::Oxide3 => "OXIDE3",
        LefAntennaModel::Oxide4 => "OXIDE4",
    }
}
fn w_objtype(v: &LefPropertyDefinitionObjectType) -> &'static str {
    use LefPropertyDefinitionObjectType as O;
    match v {
        O::Layer => "LAYER",
        O::Library => "LIBRARY",
        O::Macro => "MACRO",
        O::NonDefaultRule => "NONDEFAULTRULE",
        O::Pin => "PIN",
        O::Via => "VIA",
        O::ViaRule => "VIARULE",
    }
}

/// Every keyword of the LEF subset handled by lef21 (used as the fault-token alphabet of C11).
pub const KEYWORDS: &[&str] = &[
    "LIBRARY", "VERSION", "FOREIGN", "ORIGIN", "SOURCE", "NAMESCASESENSITIVE", "NOWIREEXTENSIONATPIN", "MACRO",
    "END", "PIN", "PORT", "OBS", "LAYER", "DIRECTION", "USE", "SHAPE", "PATH", "POLYGON", "RECT", "VIA", "WIDTH",
    "CLASS", "SYMMETRY", "ROWPATTERN", "SITE", "SIZE", "DO", "ITERATE", "STEP", "BY", "BUSBITCHARS", "DIVIDERCHAR",
    "BEGINEXT", "ENDEXT", "TRISTATE", "INPUT", "OUTPUT", "INOUT", "FEEDTHRU", "EXCEPTPGNET", "DESIGNRULEWIDTH",
    "SPACING", "BUMP", "EEQ", "FIXEDMASK", "MASK", "USEMINSPACING", "TAPERRULE", "NETEXPR", "SUPPLYSENSITIVITY",
    "GROUNDSENSITIVITY", "MUSTJOIN", "PROPERTY", "MANUFACTURINGGRID", "CLEARANCEMEASURE", "DENSITY", "UNITS", "TIME",
    "NANOSECONDS", "CAPACITANCE", "PICOFARADS", "RESISTANCE", "OHMS", "POWER", "MILLIWATTS", "CURRENT", "MILLIAMPS",
    "VOLTAGE", "VOLTS", "DATABASE", "MICRONS", "FREQUENCY", "MEGAHERTZ", "ANTENNAMODEL", "ANTENNADIFFAREA",
    "ANTENNAGATEAREA", "ANTENNAPARTIALMETALAREA", "ANTENNAPARTIALMETALSIDEAREA", "ANTENNAPARTIALCUTAREA",
    "ANTENNAPARTIALDIFFAREA", "ANTENNAMAXAREACAR", "ANTENNAMAXSIDEAREACAR", "ANTENNAMAXCUTCAR", "DEFAULT", "VIARULE",
    "CUTSIZE", "LAYERS", "CUTSPACING", "ENCLOSURE", "ROWCOL", "OFFSET", "PATTERN", "PROPERTYDEFINITIONS", "STRING",
    "REAL", "RANGE", "INTEGER", "MAXVIASTACK", "GENERATE", "NONDEFAULTRULE",
    // enumeration words
    "ON", "OFF", "MAXXY", "EUCLIDEAN", "NETLIST", "DIST", "TIMING", "USER", "X", "Y", "R90", "N", "S", "E", "W", "FN",
    "FS", "FE", "FW", "SIGNAL", "ANALOG", "GROUND", "CLOCK", "ABUTMENT", "RING", "BLOCK", "PAD", "CORE", "ENDCAP",
    "COVER", "SPACER", "AREAIO", "PRE", "POST", "TOPLEFT", "TOPRIGHT", "BOTTOMLEFT", "BOTTOMRIGHT", "BLACKBOX", "SOFT",
    "TIEHIGH", "TIELOW", "ANTENNACELL", "WELLTAP", "NONE", "OXIDE1", "OXIDE2", "OXIDE3", "OXIDE4",
];

// ------------------------------------------------------------------------------------------------
// Value -> statement tree
// ------------------------------------------------------------------------------------------------

// statement kinds (only their identity matters)
const K_VERSION: u16 = 1;
const K_NCS: u16 = 2;
const K_NWE: u16 = 3;
const K_BUSBIT: u16 = 4;
const K_DIVIDER: u16 = 5;
const K_UNITS: u16 = 6;
const K_MFG: u16 = 7;
const K_UMS: u16 = 8;
const K_CLEAR: u16 = 9;
const K_PROPDEFS: u16 = 10;
const K_FIXEDMASK: u16 = 11;
const K_VIA: u16 = 12;
const K_SITE: u16 = 13;
const K_MACRO: u16 = 14;
const K_EXT: u16 = 15;
const K_PIN: u16 = 20;
const K_OBS: u16 = 21;
const K_PROPERTY: u16 = 22;
const K_DENSITY: u16 = 23;
const K_PORT: u16 = 24;
const K_ANTENNA: u16 = 25;
const K_GEOM: u16 = 26;
const K_LVIA: u16 = 27;
const K_LAYER: u16 = 28;

#[derive(Clone, Copy, Debug, Default)]
pub struct TreeOpts {
    pub no_end_library: bool,
    pub join_props: bool,
}

fn pt(p: &LefPoint, out: &mut Vec<Tok>) {
    out.push(num(&p.x));
    out.push(num(&p.y));
}

fn symmetry_stmt(kind: u16, syms: &[LefSymmetry]) -> Node {
    let mut h = vec![key("SYMMETRY")];
    for s in syms {
        h.push(key(w_symmetry(s)));
    }
    h.push(semi());
    leaf(kind, h)
}

fn property_nodes(props: &[LefProperty], join: bool) -> Vec<Node> {
    let val = |p: &LefProperty| if p.value.starts_with('"') { strlit(&p.value) } else { name(&p.value) };
    if props.is_empty() {
        return vec![];
    }
    if join {
        let mut h = vec![key("PROPERTY")];
        for p in props {
            h.push(name(&p.name));
            h.push(val(p));
        }
        h.push(semi());
        vec![leaf(K_PROPERTY, h)]
    } else {
        props.iter().map(|p| leaf(K_PROPERTY, vec![key("PROPERTY"), name(&p.name), val(p), semi()])).collect()
    }
}

fn mask_toks(m: &Option<LefMask>, out: &mut Vec<Tok>) {
    if let Some(m) = m {
        out.push(key("MASK"));
        out.push(num(&m.mask));
    }
}

fn shape_stmt(shape: &LefShape, pattern: Option<&LefStepPattern>) -> Node {
    let mut h = vec![];
    let (kw, mask) = match shape {
        LefShape::Rect(m, _, _) => ("RECT", m),
        LefShape::Polygon(m, _) => ("POLYGON", m),
        LefShape::Path(m, _) => ("PATH", m),
    };
    h.push(key(kw));
    mask_toks(mask, &mut h);
    if pattern.is_some() {
        h.push(key("ITERATE"));
    }
    match shape {
        LefShape::Rect(_, a, b) => {
            pt(a, &mut h);
            pt(b, &mut h);
        }
        LefShape::Polygon(_, ps) | LefShape::Path(_, ps) => {
            for p in ps {
                pt(p, &mut h);
            }
        }
    }
    if let Some(p) = pattern {
        h.push(key("DO"));
        h.push(num(&p.numx));
        h.push(key("BY"));
        h.push(num(&p.numy));
        h.push(key("STEP"));
        h.push(num(&p.spacex));
        h.push(num(&p.spacey));
    }
    h.push(semi());
    leaf(K_GEOM, h)
}

fn layer_geoms_node(l: &LefLayerGeometries) -> Node {
    let mut h = vec![key("LAYER"), name(&l.layer_name)];
    if l.except_pg_net == Some(true) {
        h.push(key("EXCEPTPGNET"));
    }
    match &l.spacing {
        Some(LefLayerSpacing::Spacing(s)) => {
            h.push(key("SPACING"));
            h.push(num(s));
        }
        Some(LefLayerSpacing::DesignRuleWidth(s)) => {
            h.push(key("DESIGNRULEWIDTH"));
            h.push(num(s));
        }
        None => {}
    }
    h.push(semi());
    let mut kids = vec![];
    let mut fixed = 0;
    if let Some(w) = &l.width {
        kids.push(leaf(K_GEOM, vec![key("WIDTH"), num(w), semi()]));
        fixed = 1;
    }
    for g in &l.geometries {
        kids.push(match g {
            LefGeometry::Shape(s) => shape_stmt(s, None),
            LefGeometry::Iterate { shape, pattern } => shape_stmt(shape, Some(pattern)),
        });
    }
    for v in &l.vias {
        let mut t = vec![key("VIA")];
        pt(&v.pt, &mut t);
        t.push(name(&v.via_name));
        t.push(semi());
        kids.push(leaf(K_LVIA, t));
    }
    Node { head: h, kids, tail: vec![], kind: K_LAYER, perm: true, fixed }
}

fn port_node(p: &LefPort) -> Node {
    let mut kids = vec![];
    if let Some(c) = &p.class {
        kids.push(leaf(K_GEOM, vec![key("CLASS"), key(w_portclass(c)), semi()]));
    }
    for l in &p.layers {
        kids.push(layer_geoms_node(l));
    }
    Node { head: vec![key("PORT")], kids, tail: vec![key("END")], kind: K_PORT, perm: false, fixed: 0 }
}

fn pin_node(p: &LefPin, o: &TreeOpts) -> Node {
    let mut kids = vec![];
    let mut k = 100u16;
    let mut one = |toks: Vec<Tok>, kids: &mut Vec<Node>| {
        k += 1;
        kids.push(leaf(k, toks));
    };
    if let Some(d) = &p.direction {
        let mut t = vec![key("DIRECTION")];
        match d {
            LefPinDirection::Input => t.push(key("INPUT")),
            LefPinDirection::Inout => t.push(key("INOUT")),
            LefPinDirection::FeedThru => t.push(key("FEEDTHRU")),
            LefPinDirection::Output { tristate } => {
                t.push(key("OUTPUT"));
                if *tristate {
                    t.push(key("TRISTATE"));
                }
            }
        }
        t.push(semi());
        one(t, &mut kids);
    }
    if let Some(u) = &p.use_ {
        one(vec![key("USE"), key(w_use(u)), semi()], &mut kids);
    }
    if let Some(s) = &p.shape {
        one(vec![key("SHAPE"), key(w_shape(s)), semi()], &mut kids);
    }
    if let Some(m) = &p.antenna_model {
        one(vec![key("ANTENNAMODEL"), key(w_antmodel(m)), semi()], &mut kids);
    }
    for a in &p.antenna_attrs {
        let mut t = vec![key(&a.key.to_ascii_uppercase()), num(&a.val)];
        if let Some(l) = &a.layer {
            t.push(key("LAYER"));
            t.push(name(l));
        }
        t.push(semi());
        kids.push(leaf(K_ANTENNA, t));
    }
    if let Some(v) = &p.taper_rule {
        one(vec![key("TAPERRULE"), name(v), semi()], &mut kids);
    }
    if let Some(v) = &p.supply_sensitivity {
        one(vec![key("SUPPLYSENSITIVITY"), name(v), semi()], &mut kids);
    }
    if let Some(v) = &p.ground_sensitivity {
        one(vec![key("GROUNDSENSITIVITY"), name(v), semi()], &mut kids);
    }
    if let Some(v) = &p.must_join {
        one(vec![key("MUSTJOIN"), name(v), semi()], &mut kids);
    }
    if let Some(v) = &p.net_expr {
        one(vec![key("NETEXPR"), strlit(v), semi()], &mut kids);
    }
    kids.extend(property_nodes(&p.properties, o.join_props));
    for port in &p.ports {
        kids.push(port_node(port));
    }
    Node {
        head: vec![key("PIN"), name(&p.name)],
        kids,
        tail: vec![key("END"), name(&p.name)],
        kind: K_PIN,
        perm: true,
        fixed: 0,
    }
}

fn macro_node(m: &LefMacro, o: &TreeOpts) -> Node {
    let mut kids = vec![];
    let mut k = 200u16;
    let mut one = |toks: Vec<Tok>, kids: &mut Vec<Node>| {
        k += 1;
        kids.push(leaf(k, toks));
    };
    if let Some(c) = &m.class {
        let mut t = vec![key("CLASS")];
        match c {
            LefMacroClass::Cover { bump } => {
                t.push(key("COVER"));
                if *bump {
                    t.push(key("BUMP"));
                }
            }
            LefMacroClass::Ring => t.push(key("RING")),
            LefMacroClass::Block { tp } => {
                t.push(key("BLOCK"));
                if let Some(x) = tp {
                    t.push(key(w_block(x)));
                }
            }
            LefMacroClass::Pad { tp } => {
                t.push(key("PAD"));
                if let Some(x) = tp {
                    t.push(key(w_pad(x)));
                }
            }
            LefMacroClass::Core { tp } => {
                t.push(key("CORE"));
                if let Some(x) = tp {
                    t.push(key(w_core(x)));
                }
            }
            LefMacroClass::EndCap { tp } => {
                t.push(key("ENDCAP"));
                t.push(key(w_endcap(tp)));
            }
        }
        t.push(semi());
        one(t, &mut kids);
    }
    if m.fixed_mask {
        one(vec![key("FIXEDMASK"), semi()], &mut kids);
    }
    if let Some(f) = &m.foreign {
        let mut t = vec![key("FOREIGN"), name(&f.cell_name)];
        if let Some(p) = &f.pt {
            pt(p, &mut t);
            if let Some(or) = &f.orient {
                t.push(key(w_orient(or)));
            }
        }
        t.push(semi());
        one(t, &mut kids);
    }
    if let Some(p) = &m.origin {
        let mut t = vec![key("ORIGIN")];
        pt(p, &mut t);
        t.push(semi());
        one(t, &mut kids);
    }
    if let Some(s) = &m.source {
        one(vec![key("SOURCE"), key(w_source(s)), semi()], &mut kids);
    }
    if let Some(e) = &m.eeq {
        one(vec![key("EEQ"), name(e), semi()], &mut kids);
    }
    if let Some((w, h)) = &m.size {
        one(vec![key("SIZE"), num(w), key("BY"), num(h), semi()], &mut kids);
    }
    if let Some(s) = &m.symmetry {
        k += 1;
        kids.push(symmetry_stmt(k, s));
    }
    if let Some(s) = &m.site {
        k += 1;
        kids.push(leaf(k, vec![key("SITE"), name(s), semi()]));
    }
    for p in &m.pins {
        kids.push(pin_node(p, o));
    }
    if !m.obs.is_empty() {
        kids.push(Node {
            head: vec![key("OBS")],
            kids: m.obs.iter().map(layer_geoms_node).collect(),
            tail: vec![key("END")],
            kind: K_OBS,
            perm: false,
            fixed: 0,
        });
    }
    kids.extend(property_nodes(&m.properties, o.join_props));
    if let Some(d) = &m.density {
        let mut dk = vec![];
        for l in d {
            let mut rk = vec![];
            for r in &l.geometries {
                let mut t = vec![key("RECT")];
                pt(&r.pt1, &mut t);
                pt(&r.pt2, &mut t);
                t.push(num(&r.density_value));
                t.push(semi());
                rk.push(leaf(K_GEOM, t));
            }
            dk.push(Node {
                head: vec![key("LAYER"), name(&l.layer_name), semi()],
                kids: rk,
                tail: vec![],
                kind: K_LAYER,
                perm: false,
                fixed: 0,
            });
        }
        kids.push(Node { head: vec![key("DENSITY")], kids: dk, tail: vec![key("END")], kind: K_DENSITY, perm: false, fixed: 0 });
    }
    Node {
        head: vec![key("MACRO"), name(&m.name)],
        kids,
        tail: vec![key("END"), name(&m.name)],
        kind: K_MACRO,
        perm: true,
        fixed: 0,
    }
}

fn via_shape_stmt(s: &LefViaShape) -> Node {
    let mut h = vec![];
    match s {
        LefViaShape::Rect(m, a, b) => {
            h.push(key("RECT"));
            mask_toks(m, &mut h);
            pt(a, &mut h);
            pt(b, &mut h);
        }
        LefViaShape::Polygon(m, ps) => {
            h.push(key("POLYGON"));
            mask_toks(m, &mut h);
            for p in ps {
                pt(p, &mut h);
            }
        }
    }
    h.push(semi());
    leaf(K_GEOM, h)
}

fn via_node(v: &LefViaDef) -> Node {
    let mut head = vec![key("VIA"), name(&v.name)];
    if v.default {
        head.push(key("DEFAULT"));
    }
    let mut kids = vec![];
    let mut perm = false;
    let mut fixed = 0;
    match &v.data {
        LefViaDefData::Fixed(f) => {
            if let Some(r) = &f.resistance_ohms {
                kids.push(leaf(K_GEOM, vec![key("RESISTANCE"), num(r), semi()]));
            }
            for l in &f.layers {
                kids.push(Node {
                    head: vec![key("LAYER"), name(&l.layer_name), semi()],
                    kids: l.shapes.iter().map(via_shape_stmt).collect(),
                    tail: vec![],
                    kind: K_LAYER,
                    perm: false,
                    fixed: 0,
                });
            }
        }
        LefViaDefData::Generated(g) => {
            perm = true;
            fixed = 1;
            kids.push(leaf(300, vec![key("VIARULE"), name(&g.via_rule_name), semi()]));
            kids.push(leaf(301, vec![key("CUTSIZE"), num(&g.cut_size_x), num(&g.cut_size_y), semi()]));
            kids.push(leaf(
                302,
                vec![key("LAYERS"), name(&g.bot_metal_layer), name(&g.cut_layer), name(&g.top_metal_layer), semi()],
            ));
            kids.push(leaf(303, vec![key("CUTSPACING"), num(&g.cut_spacing_x), num(&g.cut_spacing_y), semi()]));
            kids.push(leaf(
                304,
                vec![key("ENCLOSURE"), num(&g.bot_enc_x), num(&g.bot_enc_y), num(&g.top_enc_x), num(&g.top_enc_y), semi()],
            ));
            if let Some(rc) = &g.rowcol {
                kids.push(leaf(305, vec![key("ROWCOL"), num(&rc.rows), num(&rc.cols), semi()]));
            }
            if let Some(o) = &g.origin {
                kids.push(leaf(306, vec![key("ORIGIN"), num(&o.x), num(&o.y), semi()]));
            }
            if let Some(o) = &g.offset {
                kids.push(leaf(
                    307,
                    vec![key("OFFSET"), num(&o.bot_x), num(&o.bot_y), num(&o.top_x), num(&o.top_y), semi()],
                ));
            }
        }
    }
    Node { head, kids, tail: vec![key("END"), name(&v.name)], kind: K_VIA, perm, fixed }
}

fn site_node(s: &LefSite) -> Node {
    let mut kids = vec![leaf(401, vec![key("CLASS"), key(w_siteclass(&s.class)), semi()])];
    if let Some(sy) = &s.symmetry {
        kids.push(symmetry_stmt(402, sy));
    }
    kids.push(leaf(403, vec![key("SIZE"), num(&s.size.0), key("BY"), num(&s.size.1), semi()]));
    Node {
        head: vec![key("SITE"), name(&s.name)],
        kids,
        tail: vec![key("END"), name(&s.name)],
        kind: K_SITE,
        perm: true,
        fixed: 0,
    }
}

fn units_node(u: &LefUnits) -> Node {
    let mut kids = vec![];
    let mut add = |k: u16, a: &str, b: &str, v: Decimal| kids.push(leaf(k, vec![key(a), key(b), num(&v), semi()]));
    if let Some(v) = &u.time_ns {
        add(501, "TIME", "NANOSECONDS", *v);
    }
    if let Some(v) = &u.capacitance_pf {
        add(502, "CAPACITANCE", "PICOFARADS", *v);
    }
    if let Some(v) = &u.resistance_ohms {
        add(503, "RESISTANCE", "OHMS", *v);
    }
    if let Some(v) = &u.power_mw {
        add(504, "POWER", "MILLIWATTS", *v);
    }
    if let Some(v) = &u.current_ma {
        add(505, "CURRENT", "MILLIAMPS", *v);
    }
    if let Some(v) = &u.voltage_volts {
        add(506, "VOLTAGE", "VOLTS", *v);
    }
    if let Some(v) = &u.database_microns {
        add(507, "DATABASE", "MICRONS", Decimal::from(v.0));
    }
    if let Some(v) = &u.frequency_mhz {
        add(508, "FREQUENCY", "MEGAHERTZ", *v);
    }
    Node { head: vec![key("UNITS")], kids, tail: vec![key("END"), key("UNITS")], kind: K_UNITS, perm: true, fixed: 0 }
}

fn propdefs_node(defs: &[LefPropertyDefinition]) -> Node {
    let mut kids = vec![];
    for d in defs {
        let mut t = vec![];
        let numeric = |t: &mut Vec<Tok>, kw: &str, v: &Option<Decimal>, r: &Option<LefPropertyRange>| {
            t.push(key(kw));
            if let Some(r) = r {
                t.push(key("RANGE"));
                t.push(num(&r.begin));
                t.push(num(&r.end));
            }
            if let Some(v) = v {
                t.push(num(v));
            }
        };
        match d {
            LefPropertyDefinition::LefString(o, n, v) => {
                t.push(key(w_objtype(o)));
                t.push(name(n));
                t.push(key("STRING"));
                if let Some(v) = v {
                    t.push(strlit(v));
                }
            }
            LefPropertyDefinition::LefReal(o, n, v, r) => {
                t.push(key(w_objtype(o)));
                t.push(name(n));
                numeric(&mut t, "REAL", v, r);
            }
            LefPropertyDefinition::LefInteger(o, n, v, r) => {
                t.push(key(w_objtype(o)));
                t.push(name(n));
                numeric(&mut t, "INTEGER", v, r);
            }
        }
        t.push(semi());
        kids.push(leaf(K_GEOM, t));
    }
    Node {
        head: vec![key("PROPERTYDEFINITIONS")],
        kids,
        tail: vec![key("END"), key("PROPERTYDEFINITIONS")],
        kind: K_PROPDEFS,
        perm: false,
        fixed: 0,
    }
}

/// The statement tree of a library value.
pub fn lib_tree(lib: &LefLibrary, o: &TreeOpts) -> Node {
    let mut kids = vec![];
    let mut fixed = 0;
    if let Some(v) = &lib.version {
        kids.push(leaf(K_VERSION, vec![key("VERSION"), num(v), semi()]));
        fixed = 1;
    }
    if let Some(v) = &lib.names_case_sensitive {
        kids.push(leaf(K_NCS, vec![key("NAMESCASESENSITIVE"), key(w_onoff(v)), semi()]));
    }
    if let Some(v) = &lib.no_wire_extension_at_pin {
        kids.push(leaf(K_NWE, vec![key("NOWIREEXTENSIONATPIN"), key(w_onoff(v)), semi()]));
    }
    if let Some((a, b)) = &lib.bus_bit_chars {
        kids.push(leaf(K_BUSBIT, vec![key("BUSBITCHARS"), strlit(&format!("\"{a}{b}\"")), semi()]));
    }
    if let Some(c) = &lib.divider_char {
        kids.push(leaf(K_DIVIDER, vec![key("DIVIDERCHAR"), strlit(&format!("\"{c}\"")), semi()]));
    }
    if let Some(u) = &lib.units {
        kids.push(units_node(u));
    }
    if let Some(v) = &lib.manufacturing_grid {
        kids.push(leaf(K_MFG, vec![key("MANUFACTURINGGRID"), num(v), semi()]));
    }
    if let Some(v) = &lib.use_min_spacing {
        kids.push(leaf(K_UMS, vec![key("USEMINSPACING"), key("OBS"), key(w_onoff(v)), semi()]));
    }
    if let Some(v) = &lib.clearance_measure {
        kids.push(leaf(K_CLEAR, vec![key("CLEARANCEMEASURE"), key(w_clearance(v)), semi()]));
    }
    if !lib.property_definitions.is_empty() {
        kids.push(propdefs_node(&lib.property_definitions));
    }
    if lib.fixed_mask {
        kids.push(leaf(K_FIXEDMASK, vec![key("FIXEDMASK"), semi()]));
    }
    for v in &lib.vias {
        kids.push(via_node(v));
    }
    for s in &lib.sites {
        kids.push(site_node(s));
    }
    for m in &lib.macros {
        kids.push(macro_node(m, o));
    }
    for e in &lib.extensions {
        let mut t = vec![key("BEGINEXT"), strlit(&e.name)];
        for w in e.data.split_whitespace() {
            let mut x = name(w);
            x.opaque = true;
            t.push(x);
        }
        let mut end = key("ENDEXT");
        end.opaque = true;
        t.push(end);
        kids.push(leaf(K_EXT, t));
    }
    let tail = if o.no_end_library { vec![] } else { vec![key("END"), key("LIBRARY")] };
    Node { head: vec![], kids, tail, kind: 0, perm: true, fixed }
}

// ------------------------------------------------------------------------------------------------
// Permutations of sibling statements
// ------------------------------------------------------------------------------------------------

/// Alternative orders of `kinds.len()` siblings (as index lists into the original order), identity excluded.
/// n <= 4: every permutation; otherwise rotations and adjacent swaps. Siblings of equal kind keep their
/// relative order (list items: pins, ports, properties, antenna attributes, geometries ...).
pub fn perm_alts(kinds: &[u16]) -> Vec<Vec<usize>> {
    let n = kinds.len();
    let mut raw: Vec<Vec<usize>> = vec![];
    if n < 2 {
        return raw;
    }
    if n <= 4 {
        let mut idx: Vec<usize> = (0..n).collect();
        heap_perms(n, &mut idx, &mut raw);
        raw.sort();
    } else {
        for r in 1..n {
            raw.push((0..n).map(|i| (i + r) % n).collect());
        }
        for i in 0..n - 1 {
            let mut v: Vec<usize> = (0..n).collect();
            v.swap(i, i + 1);
            raw.push(v);
        }
        raw.push((0..n).rev().collect());
    }
    let ident: Vec<usize> = (0..n).collect();
    let mut out: Vec<Vec<usize>> = vec![];
    for p in raw {
        // stabilise: positions holding kind K receive the K-items in original order
        let mut next_of_kind: std::collections::BTreeMap<u16, Vec<usize>> = Default::default();
        for (i, k) in kinds.iter().enumerate() {
            next_of_kind.entry(*k).or_default().push(i);
        }
        for v in next_of_kind.values_mut() {
            v.reverse();
        }
        let q: Vec<usize> = p.iter().map(|&i| next_of_kind.get_mut(&kinds[i]).unwrap().pop().unwrap()).collect();
        if q != ident && !out.contains(&q) {
            out.push(q);
        }
    }
    out
}
fn heap_perms(k: usize, a: &mut Vec<usize>, out: &mut Vec<Vec<usize>>) {
    if k == 1 {
        out.push(a.clone());
        return;
    }
    for i in 0..k {
        heap_perms(k - 1, a, out);
        if k % 2 == 0 {
            a.swap(i, k - 1);
        } else {
            a.swap(0, k - 1);
        }
    }
}

fn group_alts(n: &Node) -> Vec<Vec<usize>> {
    if !n.perm || n.kids.len() < n.fixed + 2 {
        return vec![];
    }
    let kinds: Vec<u16> = n.kids[n.fixed..].iter().map(|k| k.kind).collect();
    perm_alts(&kinds)
}

/// Number of permutation alternatives of every permutable group, in depth-first order.
pub fn groups(n: &Node, out: &mut Vec<usize>) {
    let a = group_alts(n);
    if !a.is_empty() {
        out.push(a.len());
    }
    for k in &n.kids {
        groups(k, out);
    }
}

/// A node is a permutation group iff at least two of its permutable kids differ in kind.
fn has_group(n: &Node) -> bool {
    n.perm && n.kids.len() >= n.fixed + 2 && n.kids[n.fixed..].iter().any(|k| k.kind != n.kids[n.fixed].kind)
}
fn count_groups(n: &Node) -> usize {
    (has_group(n) as usize) + n.kids.iter().map(count_groups).sum::<usize>()
}

/// Flatten to the token list in text order; `perms` holds (group, alternative) pairs. Groups are numbered
/// in depth-first order of the *unpermuted* tree (the numbering of `groups`), starting at `gstart`.
pub fn flatten(n: &Node, perms: &[(usize, usize)], depth: u8, gstart: usize, out: &mut Vec<Tok>) {
    let push = |toks: &[Tok], out: &mut Vec<Tok>| {
        for (i, t) in toks.iter().enumerate() {
            let mut t = t.clone();
            if i == 0 {
                t.nl = true;
                t.ind = depth;
            }
            out.push(t);
        }
    };
    push(&n.head, out);
    let mut order: Vec<usize> = (0..n.kids.len()).collect();
    let mut next = gstart;
    if has_group(n) {
        if let Some((_, a)) = perms.iter().find(|(gg, _)| *gg == gstart) {
            let alts = group_alts(n);
            let p = &alts[*a];
            for (i, &j) in p.iter().enumerate() {
                order[n.fixed + i] = n.fixed + j;
            }
        }
        next += 1;
    }
    let mut starts = Vec::with_capacity(n.kids.len());
    for k in &n.kids {
        starts.push(next);
        next += count_groups(k);
    }
    let kd = if n.head.is_empty() && n.kind == 0 { depth } else { depth + 1 };
    for i in order {
        flatten(&n.kids[i], perms, kd, starts[i], out);
    }
    push(&n.tail, out);
}

// ------------------------------------------------------------------------------------------------
// Lexical deviations
// ------------------------------------------------------------------------------------------------

#[derive(Clone, Debug, PartialEq)]
pub enum Dev {
    NoEndLibrary,
    JoinProps,
    /// 1 = all keywords lower case, 2 = all keywords MiXeD
    AllCase(u8),
    Perm { group: usize, alt: usize },
    /// gap before token `at` (at == number of tokens: the gap after the last token)
    Gap { at: usize, alt: usize },
    Case { at: usize, mode: u8 },
    Spell { at: usize, alt: usize },
}
impl Dev {
    fn rank(&self) -> (usize, usize) {
        match self {
            Dev::NoEndLibrary => (0, 0),
            Dev::JoinProps => (1, 0),
            Dev::AllCase(_) => (2, 0),
            Dev::Perm { group, .. } => (3, *group),
            Dev::Gap { at, .. } => (4, at * 2),
            Dev::Case { at, .. } | Dev::Spell { at, .. } => (4, at * 2 + 1),
        }
    }
    fn token_pos(&self) -> Option<usize> {
        match self {
            Dev::Gap { at, .. } | Dev::Case { at, .. } | Dev::Spell { at, .. } => Some(*at),
            _ => None,
        }
    }
}

const MID_GAPS: &[&str] = &[
    "\t",
    "\n",
    "\r\n",
    "  \t \n\n  ",
    " # a comment ; END MACRO \"quote 1.5\n",
    " #\n",
    " # é ü — 日本語 😀 ;\n",
    "\n#bol\n# second line\n",
];
const START_GAPS: &[&str] = &["\n", "  ", "# leading comment\n", "# é😀\n", "\r\n\t"];
const END_GAPS: &[&str] = &["", " ", "\n\n", " # trailing comment without newline", " # tr é😀", " # c\n"];
const OPAQUE_GAPS: usize = 4;

fn default_gap(toks: &[Tok], at: usize) -> String {
    if at == 0 {
        return String::new();
    }
    if at == toks.len() {
        return "\n".into();
    }
    let t = &toks[at];
    if t.nl {
        format!("\n{}", "  ".repeat(t.ind as usize))
    } else {
        " ".into()
    }
}
fn gap_alts(toks: &[Tok], at: usize) -> usize {
    if at == 0 {
        START_GAPS.len()
    } else if at == toks.len() {
        END_GAPS.len()
    } else if toks[at].opaque {
        OPAQUE_GAPS
    } else {
        MID_GAPS.len()
    }
}
fn gap_text(toks: &[Tok], at: usize, alt: usize) -> String {
    if at == 0 {
        START_GAPS[alt].into()
    } else if at == toks.len() {
        END_GAPS[alt].into()
    } else if alt == 1 && toks[at].nl {
        " ".into()
    } else {
        MID_GAPS[alt].into()
    }
}

pub fn lower(s: &str) -> String {
    s.to_ascii_lowercase()
}
pub fn mixed(s: &str) -> String {
    s.chars()
        .enumerate()
        .map(|(i, c)| if i % 2 == 0 { c.to_ascii_lowercase() } else { c.to_ascii_uppercase() })
        .collect()
}
/// first letter upper case, the rest lower case (`Macro`)
pub fn title(s: &str) -> String {
    s.chars().enumerate().map(|(i, c)| if i == 0 { c.to_ascii_uppercase() } else { c.to_ascii_lowercase() }).collect()
}
/// upper case except the last letter (`MACRo`)
pub fn last_lower(s: &str) -> String {
    let n = s.chars().count();
    s.chars().enumerate().map(|(i, c)| if i + 1 == n { c.to_ascii_lowercase() } else { c.to_ascii_uppercase() }).collect()
}
/// number of alternative keyword case modes (1 lower, 2 alternating from lower, 3 title, 4 upper but the last letter)
pub const CASE_MODES: u8 = 4;
pub fn recase(s: &str, mode: u8) -> String {
    match mode {
        1 => lower(s),
        2 => mixed(s),
        3 => title(s),
        4 => last_lower(s),
        _ => s.to_string(),
    }
}

#[derive(Clone, Debug)]
pub struct Rendered {
    pub text: String,
    pub toks: Vec<Tok>,
    /// spelled form of every token, in order
    pub spelled: Vec<String>,
}

fn tree_opts(devs: &[Dev]) -> TreeOpts {
    TreeOpts { no_end_library: devs.contains(&Dev::NoEndLibrary), join_props: devs.contains(&Dev::JoinProps) }
}
fn flat_tokens(lib: &LefLibrary, devs: &[Dev]) -> Vec<Tok> {
    let tree = lib_tree(lib, &tree_opts(devs));
    let perms: Vec<(usize, usize)> =
        devs.iter().filter_map(|d| if let Dev::Perm { group, alt } = d { Some((*group, *alt)) } else { None }).collect();
    let mut out = vec![];
    flatten(&tree, &perms, 0, 0, &mut out);
    out
}

/// Render `lib` with the given lexical deviations.
pub fn render(lib: &LefLibrary, devs: &[Dev]) -> Rendered {
    render_omit(lib, devs, &[])
}

/// Token indices of `ITERATE` and `DO .. STEP sx sy` inside POLYGON / PATH statements.
pub fn iterate_tokens_of_polygon_and_path(toks: &[Tok]) -> Vec<usize> {
    let mut out = vec![];
    let mut i = 0;
    while i < toks.len() {
        if toks[i].nl && toks[i].k == TK::Key && (toks[i].s == "POLYGON" || toks[i].s == "PATH") {
            let mut j = i;
            while j < toks.len() && toks[j].k != TK::Semi {
                j += 1;
            }
            if let Some(it) = (i..j).find(|&x| toks[x].k == TK::Key && toks[x].s == "ITERATE") {
                out.push(it);
                if let Some(d) = (it..j).find(|&x| toks[x].k == TK::Key && toks[x].s == "DO") {
                    out.extend(d..j);
                }
            }
            i = j;
        }
        i += 1;
    }
    out
}

/// As `render`, leaving out the tokens with the given indices (token numbering of `devs` is unchanged).
/// `toks` / `spelled` of the result still list every token.
pub fn render_omit(lib: &LefLibrary, devs: &[Dev], omit: &[usize]) -> Rendered {
    let toks = flat_tokens(lib, devs);
    let all_case = devs.iter().find_map(|d| if let Dev::AllCase(m) = d { Some(*m) } else { None }).unwrap_or(0);
    let mut text = String::new();
    let mut spelled = Vec::with_capacity(toks.len());
    for at in 0..=toks.len() {
        if omit.contains(&at) {
            spelled.push(String::new());
            continue;
        }
        let gap = devs
            .iter()
            .find_map(|d| match d {
                Dev::Gap { at: a, alt } if *a == at => Some(gap_text(&toks, at, *alt)),
                _ => None,
            })
            .unwrap_or_else(|| default_gap(&toks, at));
        text.push_str(&gap);
        if at == toks.len() {
            break;
        }
        let t = &toks[at];
        let mut s = t.s.clone();
        match t.k {
            TK::Key => {
                let mode = devs
                    .iter()
                    .find_map(|d| match d {
                        Dev::Case { at: a, mode } if *a == at => Some(*mode),
                        _ => None,
                    })
                    .unwrap_or(all_case);
                s = recase(&s, mode);
            }
            TK::Num => {
                if let Some(alt) = devs.iter().find_map(|d| match d {
                    Dev::Spell { at: a, alt } if *a == at => Some(*alt),
                    _ => None,
                }) {
                    s = spellings(t.num.0, t.num.1)[alt].clone();
                }
            }
            _ => {}
        }
        text.push_str(&s);
        spelled.push(s);
    }
    Rendered { text, toks, spelled }
}

/// Every single further deviation applicable after `prior` (points strictly later than the last prior
/// point; token-level second deviations within `window` tokens of a token-level first one).
pub fn enumerate(lib: &LefLibrary, prior: &[Dev], window: Option<usize>) -> Vec<Dev> {
    let after = prior.iter().map(|d| d.rank()).max();
    let ok = |d: &Dev| match after {
        None => true,
        Some(r) => d.rank() > r,
    };
    let first_pos = prior.iter().filter_map(|d| d.token_pos()).max();
    let mut out = vec![];
    let mut push = |d: Dev, out: &mut Vec<Dev>| {
        if ok(&d) {
            out.push(d)
        }
    };
    push(Dev::NoEndLibrary, &mut out);
    let has_props = lib.macros.iter().any(|m| m.properties.len() > 1 || m.pins.iter().any(|p| p.properties.len() > 1));
    if has_props {
        push(Dev::JoinProps, &mut out);
    }
    if !prior.iter().any(|d| matches!(d, Dev::AllCase(_))) {
        for m in 1..=CASE_MODES {
            push(Dev::AllCase(m), &mut out);
        }
    }
    let tree = lib_tree(lib, &tree_opts(prior));
    let mut gs = vec![];
    groups(&tree, &mut gs);
    for (g, n) in gs.iter().enumerate() {
        for alt in 0..*n {
            push(Dev::Perm { group: g, alt }, &mut out);
        }
    }
    let toks = flat_tokens(lib, prior);
    for at in 0..=toks.len() {
        if let (Some(w), Some(p)) = (window, first_pos) {
            if at > p + w {
                break;
            }
        }
        for alt in 0..gap_alts(&toks, at) {
            push(Dev::Gap { at, alt }, &mut out);
        }
        if at == toks.len() {
            break;
        }
        match toks[at].k {
            TK::Key if !toks[at].opaque || toks[at].s == "ENDEXT" => {
                for mode in 1..=CASE_MODES {
                    push(Dev::Case { at, mode }, &mut out);
                }
            }
            TK::Num => {
                for alt in 0..spellings(toks[at].num.0, toks[at].num.1).len() {
                    push(Dev::Spell { at, alt }, &mut out);
                }
            }
            _ => {}
        }
    }
    out
}

fn case_name(m: u8) -> &'static str {
    match m {
        1 => "lower",
        2 => "mixed (aBcD)",
        3 => "title (Abcd)",
        _ => "upper-but-last (ABCd)",
    }
}

pub fn describe_dev(d: &Dev, r: &Rendered) -> String {
    let at_tok = |at: usize| {
        if at < r.toks.len() {
            format!("token {at} `{}`", r.toks[at].s)
        } else {
            "end of file".to_string()
        }
    };
    match d {
        Dev::NoEndLibrary => "END LIBRARY omitted".into(),
        Dev::JoinProps => "PROPERTY pairs joined into one statement".into(),
        Dev::AllCase(m) => format!("all keywords in {} case", case_name(*m)),
        Dev::Perm { group, alt } => format!("sibling statements of group {group} permuted (alternative {alt})"),
        Dev::Gap { at, alt } => format!("gap before {}: {:?}", at_tok(*at), gap_text(&r.toks, *at, *alt)),
        Dev::Case { at, mode } => format!("{} in {} case", at_tok(*at), case_name(*mode)),
        Dev::Spell { at, .. } => format!("{} spelled `{}`", at_tok(*at), r.spelled.get(*at).cloned().unwrap_or_default()),
    }
}

// ------------------------------------------------------------------------------------------------
// Reference tokenizer
// ------------------------------------------------------------------------------------------------

#[derive(Clone, Copy, Debug, PartialEq, Eq)]
pub enum RK {
    Word,
    Str,
    UnterminatedStr,
    Semi,
    Comment,
}
#[derive(Clone, Copy, Debug, PartialEq, Eq)]
pub struct RTok {
    pub k: RK,
    pub start: usize,
    pub end: usize,
}

fn is_ws(b: u8) -> bool {
    matches!(b, b' ' | b'\t' | b'\n' | b'\r' | 0x0b | 0x0c)
}

/// LEF lexical structure: white-space separated words; `#` at the start of a word begins a comment that
/// runs to the end of the line; `"` begins a string literal that runs to the next `"`; `;` at the
/// start of a word is a token of its own. Offsets are byte offsets.
pub fn tokenize(text: &str) -> Vec<RTok> {
    let b = text.as_bytes();
    let mut i = 0;
    let mut out = vec![];
    while i < b.len() {
        if is_ws(b[i]) {
            i += 1;
            continue;
        }
        let start = i;
        match b[i] {
            b'#' => {
                while i < b.len() && b[i] != b'\n' {
                    i += 1;
                }
                out.push(RTok { k: RK::Comment, start, end: i });
            }
            b';' => {
                i += 1;
                out.push(RTok { k: RK::Semi, start, end: i });
            }
            b'"' => {
                i += 1;
                while i < b.len() && b[i] != b'"' {
                    i += 1;
                }
                if i < b.len() {
                    i += 1;
                    out.push(RTok { k: RK::Str, start, end: i });
                } else {
                    out.push(RTok { k: RK::UnterminatedStr, start, end: i });
                }
            }
            _ => {
                while i < b.len() && !is_ws(b[i]) {
                    i += 1;
                }
                out.push(RTok { k: RK::Word, start, end: i });
            }
        }
    }
    out
}

/// renderer . tokenizer consistency: the rendered text tokenizes back to exactly the token list.
pub fn check_render(r: &Rendered) -> Result<(), String> {
    let rt: Vec<RTok> = tokenize(&r.text).into_iter().filter(|t| t.k != RK::Comment).collect();
    if rt.len() != r.toks.len() {
        return Err(format!("token count {} != {} in {:?}", rt.len(), r.toks.len(), r.text));
    }
    for (i, (a, t)) in rt.iter().zip(r.toks.iter()).enumerate() {
        let s = &r.text[a.start..a.end];
        let ok = match t.k {
            TK::Key => a.k == RK::Word && s.to_ascii_uppercase() == t.s,
            TK::Name => (a.k == RK::Word || a.k == RK::Str || a.k == RK::Semi) && s == t.s,
            TK::Str => a.k == RK::Str && s == t.s,
            TK::Semi => a.k == RK::Semi,
            TK::Num => a.k == RK::Word && parse_decimal(s) == Some(normal_of(t.num.0, t.num.1)),
        };
        if !ok {
            return Err(format!("token {i}: rendered {s:?} ({:?}) does not denote {:?} `{}`", a.k, t.k, t.s));
        }
    }
    Ok(())
}

/// Start-up self-check of the reference pieces.
pub fn self_check() -> Result<(), String> {
    // tokenizer on a fixed text
    let t = "A 1.5 ;# c ; \"x\n B\t\"s # ;\" ;\r\n#e";
    let toks = tokenize(t);
    let kinds: Vec<RK> = toks.iter().map(|x| x.k).collect();
    if kinds != vec![RK::Word, RK::Word, RK::Semi, RK::Comment, RK::Word, RK::Str, RK::Semi, RK::Comment] {
        return Err(format!("tokenizer self-check: {kinds:?}"));
    }
    if &t[toks[5].start..toks[5].end] != "\"s # ;\"" {
        return Err("tokenizer string literal span".into());
    }
    // decimal spellings denote the same number
    for (m, s) in [(15i128, 1u32), (5, 1), (-5, 1), (0, 0), (15, 0), (-725, 2), (5, 3), (123456789, 3), (1000, 0), (58, 1)] {
        let want = normal_of(m, s);
        let sp = spellings(m, s);
        if sp.len() < 3 {
            return Err(format!("too few spellings for {m}e-{s}"));
        }
        for x in &sp {
            if parse_decimal(x).as_ref() != Some(&want) {
                return Err(format!("spelling {x} does not denote {}", canonical(m, s)));
            }
        }
    }
    if canonical(-5, 1) != "-0.5" || canonical(5, 3) != "0.005" || canonical(15, 0) != "15" {
        return Err("canonical spelling".into());
    }
    if !spellings(-5, 1).contains(&"-.5".to_string()) || !spellings(15, 0).contains(&"15.".to_string()) {
        return Err("expected spellings missing".into());
    }
    // permutations
    for kinds in [vec![1u16, 1], vec![1, 2], vec![1, 1, 2], vec![3, 3, 3, 3, 3], vec![1, 2, 3, 4, 5, 6]] {
        let differ = kinds.iter().any(|k| *k != kinds[0]);
        if perm_alts(&kinds).is_empty() == differ {
            return Err("perm_alts emptiness".into());
        }
    }
    if perm_alts(&[1, 2, 3]).len() != 5 || perm_alts(&[1, 1]).len() != 0 || perm_alts(&[1, 2, 1]).len() != 2 {
        return Err("perm_alts".into());
    }
    for p in perm_alts(&[1, 2, 1, 3, 2, 4]) {
        let mut q = p.clone();
        q.sort();
        if q != (0..6).collect::<Vec<_>>() {
            return Err("perm_alts not a permutation".into());
        }
        let pos = |x: usize| p.iter().position(|&y| y == x).unwrap();
        if pos(0) > pos(2) || pos(1) > pos(4) {
            return Err("perm_alts does not keep same-kind order".into());
        }
    }
    if mixed("MACRO") != "mAcRo" {
        return Err("mixed".into());
    }
    Ok(())
}
