//! Independent GDSII stream codec (reference model for C01/C02/C03/C10).
//!
//! Written from the Calma GDSII Stream Format description (release 6.0), not from gds21:
//!
//! * a stream is a sequence of records; each record = u16 big-endian total length (header included, so
//!   >= 4, and even), u8 record type, u8 data type, payload;
//! * data types: 0 none, 1 bit array (2 bytes), 2 i16, 3 i32, 4 f32 (unused), 5 f64 (8-byte excess-64
//!   base-16 real: sign bit, 7-bit exponent, 56-bit fraction, value = fraction/2^56 * 16^(exp-64)),
//!   6 string (padded with ONE NUL when the length is odd, never otherwise);
//! * every record type has one data type and a payload size rule (table `spec`);
//! * grammar:
//!   stream    ::= HEADER BGNLIB [LIBDIRSIZE] [SRFNAME] [LIBSECUR] LIBNAME [REFLIBS] [FONTS] [ATTRTABLE]
//!                 [GENERATIONS] [FORMAT | FORMAT {MASK}+ ENDMASKS] UNITS {structure}* ENDLIB
//!   structure ::= BGNSTR STRNAME [STRCLASS] {element}* ENDSTR
//!   element   ::= (boundary|path|sref|aref|text|node|box) {PROPATTR PROPVALUE}* ENDEL
//!   boundary  ::= BOUNDARY [ELFLAGS] [PLEX] LAYER DATATYPE XY
//!   path      ::= PATH [ELFLAGS] [PLEX] LAYER DATATYPE [PATHTYPE] [WIDTH] [BGNEXTN] [ENDEXTN] XY
//!   sref      ::= SREF [ELFLAGS] [PLEX] SNAME [strans] XY
//!   aref      ::= AREF [ELFLAGS] [PLEX] SNAME [strans] COLROW XY
//!   text      ::= TEXT [ELFLAGS] [PLEX] LAYER TEXTTYPE [PRESENTATION] [PATHTYPE] [WIDTH] [strans] XY STRING
//!   node      ::= NODE [ELFLAGS] [PLEX] LAYER NODETYPE XY
//!   box       ::= BOX [ELFLAGS] [PLEX] LAYER BOXTYPE XY
//!   strans    ::= STRANS [MAG] [ANGLE]       (STRANS bit 15 = reflection, bit 2 = absolute magnification,
//!                                             bit 1 = absolute angle; all other bits zero)
//!
//! Nothing in this file calls gds21. Reals are kept as their raw eight bytes (u64); the exact value
//! arithmetic lives in `props::c15::{ref_encode, ref_decode}` (integer arithmetic only).

pub mod rt {
    pub const HEADER: u8 = 0x00;
    pub const BGNLIB: u8 = 0x01;
    pub const LIBNAME: u8 = 0x02;
    pub const UNITS: u8 = 0x03;
    pub const ENDLIB: u8 = 0x04;
    pub const BGNSTR: u8 = 0x05;
    pub const STRNAME: u8 = 0x06;
    pub const ENDSTR: u8 = 0x07;
    pub const BOUNDARY: u8 = 0x08;
    pub const PATH: u8 = 0x09;
    pub const SREF: u8 = 0x0a;
    pub const AREF: u8 = 0x0b;
    pub const TEXT: u8 = 0x0c;
    pub const LAYER: u8 = 0x0d;
    pub const DATATYPE: u8 = 0x0e;
    pub const WIDTH: u8 = 0x0f;
    pub const XY: u8 = 0x10;
    pub const ENDEL: u8 = 0x11;
    pub const SNAME: u8 = 0x12;
    pub const COLROW: u8 = 0x13;
    pub const TEXTNODE: u8 = 0x14;
    pub const NODE: u8 = 0x15;
    pub const TEXTTYPE: u8 = 0x16;
    pub const PRESENTATION: u8 = 0x17;
    pub const SPACING: u8 = 0x18;
    pub const STRING: u8 = 0x19;
    pub const STRANS: u8 = 0x1a;
    pub const MAG: u8 = 0x1b;
    pub const ANGLE: u8 = 0x1c;
    pub const UINTEGER: u8 = 0x1d;
    pub const USTRING: u8 = 0x1e;
    pub const REFLIBS: u8 = 0x1f;
    pub const FONTS: u8 = 0x20;
    pub const PATHTYPE: u8 = 0x21;
    pub const GENERATIONS: u8 = 0x22;
    pub const ATTRTABLE: u8 = 0x23;
    pub const STYPTABLE: u8 = 0x24;
    pub const STRTYPE: u8 = 0x25;
    pub const ELFLAGS: u8 = 0x26;
    pub const ELKEY: u8 = 0x27;
    pub const LINKTYPE: u8 = 0x28;
    pub const LINKKEYS: u8 = 0x29;
    pub const NODETYPE: u8 = 0x2a;
    pub const PROPATTR: u8 = 0x2b;
    pub const PROPVALUE: u8 = 0x2c;
    pub const BOX: u8 = 0x2d;
    pub const BOXTYPE: u8 = 0x2e;
    pub const PLEX: u8 = 0x2f;
    pub const BGNEXTN: u8 = 0x30;
    pub const ENDEXTN: u8 = 0x31;
    pub const TAPENUM: u8 = 0x32;
    pub const TAPECODE: u8 = 0x33;
    pub const STRCLASS: u8 = 0x34;
    pub const RESERVED: u8 = 0x35;
    pub const FORMAT: u8 = 0x36;
    pub const MASK: u8 = 0x37;
    pub const ENDMASKS: u8 = 0x38;
    pub const LIBDIRSIZE: u8 = 0x39;
    pub const SRFNAME: u8 = 0x3a;
    pub const LIBSECUR: u8 = 0x3b;
    /// number of record types the specification defines (0x00..=0x3b)
    pub const COUNT: u8 = 0x3c;
}

pub mod dt {
    pub const NONE: u8 = 0;
    pub const BITS: u8 = 1;
    pub const I16: u8 = 2;
    pub const I32: u8 = 3;
    pub const F32: u8 = 4;
    pub const F64: u8 = 5;
    pub const STR: u8 = 6;
}

/// Payload size rule of a record type.
#[derive(Clone, Copy, Debug, PartialEq)]
pub enum Size {
    Exact(usize),
    /// any even size (strings)
    Str,
    /// a positive multiple of n
    Multiple(usize),
    /// any multiple of n, zero allowed (XY: the specification asks for at least one point per element; point
    /// counts are an element-level rule, not a record-level one, and are not judged here)
    MultipleOrZero(usize),
}

/// The specification's table: record type -> (name, data type, payload size). `None` for record types
/// that carry no released definition (TEXTNODE, SPACING, UINTEGER, USTRING, STYPTABLE, STRTYPE, ELKEY,
/// LINKTYPE, LINKKEYS, RESERVED) and for numbers >= 0x3c.
pub fn spec(rtype: u8) -> Option<(&'static str, u8, Size)> {
    use Size::*;
    Some(match rtype {
        rt::HEADER => ("HEADER", dt::I16, Exact(2)),
        rt::BGNLIB => ("BGNLIB", dt::I16, Exact(24)),
        rt::LIBNAME => ("LIBNAME", dt::STR, Str),
        rt::UNITS => ("UNITS", dt::F64, Exact(16)),
        rt::ENDLIB => ("ENDLIB", dt::NONE, Exact(0)),
        rt::BGNSTR => ("BGNSTR", dt::I16, Exact(24)),
        rt::STRNAME => ("STRNAME", dt::STR, Str),
        rt::ENDSTR => ("ENDSTR", dt::NONE, Exact(0)),
        rt::BOUNDARY => ("BOUNDARY", dt::NONE, Exact(0)),
        rt::PATH => ("PATH", dt::NONE, Exact(0)),
        rt::SREF => ("SREF", dt::NONE, Exact(0)),
        rt::AREF => ("AREF", dt::NONE, Exact(0)),
        rt::TEXT => ("TEXT", dt::NONE, Exact(0)),
        rt::LAYER => ("LAYER", dt::I16, Exact(2)),
        rt::DATATYPE => ("DATATYPE", dt::I16, Exact(2)),
        rt::WIDTH => ("WIDTH", dt::I32, Exact(4)),
        rt::XY => ("XY", dt::I32, MultipleOrZero(8)),
        rt::ENDEL => ("ENDEL", dt::NONE, Exact(0)),
        rt::SNAME => ("SNAME", dt::STR, Str),
        rt::COLROW => ("COLROW", dt::I16, Exact(4)),
        rt::NODE => ("NODE", dt::NONE, Exact(0)),
        rt::TEXTTYPE => ("TEXTTYPE", dt::I16, Exact(2)),
        rt::PRESENTATION => ("PRESENTATION", dt::BITS, Exact(2)),
        rt::STRING => ("STRING", dt::STR, Str),
        rt::STRANS => ("STRANS", dt::BITS, Exact(2)),
        rt::MAG => ("MAG", dt::F64, Exact(8)),
        rt::ANGLE => ("ANGLE", dt::F64, Exact(8)),
        rt::REFLIBS => ("REFLIBS", dt::STR, Multiple(44)),
        rt::FONTS => ("FONTS", dt::STR, Exact(176)),
        rt::PATHTYPE => ("PATHTYPE", dt::I16, Exact(2)),
        rt::GENERATIONS => ("GENERATIONS", dt::I16, Exact(2)),
        rt::ATTRTABLE => ("ATTRTABLE", dt::STR, Str),
        rt::ELFLAGS => ("ELFLAGS", dt::BITS, Exact(2)),
        rt::NODETYPE => ("NODETYPE", dt::I16, Exact(2)),
        rt::PROPATTR => ("PROPATTR", dt::I16, Exact(2)),
        rt::PROPVALUE => ("PROPVALUE", dt::STR, Str),
        rt::BOX => ("BOX", dt::NONE, Exact(0)),
        rt::BOXTYPE => ("BOXTYPE", dt::I16, Exact(2)),
        rt::PLEX => ("PLEX", dt::I32, Exact(4)),
        rt::BGNEXTN => ("BGNEXTN", dt::I32, Exact(4)),
        rt::ENDEXTN => ("ENDEXTN", dt::I32, Exact(4)),
        rt::TAPENUM => ("TAPENUM", dt::I16, Exact(2)),
        rt::TAPECODE => ("TAPECODE", dt::I16, Exact(12)),
        rt::STRCLASS => ("STRCLASS", dt::BITS, Exact(2)),
        rt::FORMAT => ("FORMAT", dt::I16, Exact(2)),
        rt::MASK => ("MASK", dt::STR, Str),
        rt::ENDMASKS => ("ENDMASKS", dt::NONE, Exact(0)),
        rt::LIBDIRSIZE => ("LIBDIRSIZE", dt::I16, Exact(2)),
        rt::SRFNAME => ("SRFNAME", dt::STR, Str),
        rt::LIBSECUR => ("LIBSECUR", dt::I16, Multiple(6)),
        _ => return None,
    })
}

pub fn rname(rtype: u8) -> String {
    match spec(rtype) {
        Some((n, _, _)) => n.to_string(),
        None => format!("RT{rtype:#04x}"),
    }
}

/// One record at the byte level.
#[derive(Clone, Debug, PartialEq, Eq, Hash)]
pub struct Rec {
    pub rtype: u8,
    pub dtype: u8,
    pub payload: Vec<u8>,
}
impl Rec {
    pub fn new(rtype: u8, dtype: u8, payload: Vec<u8>) -> Rec {
        Rec { rtype, dtype, payload }
    }
    /// total length on the wire
    pub fn wire_len(&self) -> usize {
        self.payload.len() + 4
    }
}

pub const MAX_PAYLOAD: usize = 65534 - 4;

// -------------------------------------------------------------------------------------------------
// Value model
// -------------------------------------------------------------------------------------------------

#[derive(Clone, Copy, Debug, PartialEq, Eq, Hash, PartialOrd, Ord)]
pub enum Kind {
    Boundary,
    Path,
    Sref,
    Aref,
    Text,
    Node,
    Box,
}
impl Kind {
    pub const ALL: [Kind; 7] = [Kind::Boundary, Kind::Path, Kind::Sref, Kind::Aref, Kind::Text, Kind::Node, Kind::Box];
    pub fn name(&self) -> &'static str {
        match self {
            Kind::Boundary => "boundary",
            Kind::Path => "path",
            Kind::Sref => "sref",
            Kind::Aref => "aref",
            Kind::Text => "text",
            Kind::Node => "node",
            Kind::Box => "box",
        }
    }
    pub fn start(&self) -> u8 {
        match self {
            Kind::Boundary => rt::BOUNDARY,
            Kind::Path => rt::PATH,
            Kind::Sref => rt::SREF,
            Kind::Aref => rt::AREF,
            Kind::Text => rt::TEXT,
            Kind::Node => rt::NODE,
            Kind::Box => rt::BOX,
        }
    }
    /// record type of the second layer number (DATATYPE / TEXTTYPE / NODETYPE / BOXTYPE)
    pub fn xtype_rec(&self) -> Option<u8> {
        match self {
            Kind::Boundary | Kind::Path => Some(rt::DATATYPE),
            Kind::Text => Some(rt::TEXTTYPE),
            Kind::Node => Some(rt::NODETYPE),
            Kind::Box => Some(rt::BOXTYPE),
            _ => None,
        }
    }
    pub fn has_layer(&self) -> bool {
        !matches!(self, Kind::Sref | Kind::Aref)
    }
    pub fn has_strans(&self) -> bool {
        matches!(self, Kind::Sref | Kind::Aref | Kind::Text)
    }
}

#[derive(Clone, Debug, PartialEq, Eq, Hash, Default)]
pub struct RStrans {
    /// the 16 flag bits as on the wire (bit 15 reflection, bit 2 absolute magnification, bit 1 absolute angle)
    pub flags: u16,
    pub mag: Option<u64>,
    pub angle: Option<u64>,
}
pub const STRANS_REFLECT: u16 = 0x8000;
pub const STRANS_ABS_MAG: u16 = 0x0004;
pub const STRANS_ABS_ANGLE: u16 = 0x0002;

#[derive(Clone, Debug, PartialEq, Eq, Hash)]
pub struct RElem {
    pub kind: Kind,
    pub elflags: Option<[u8; 2]>,
    pub plex: Option<i32>,
    /// LAYER (all but sref/aref)
    pub layer: i16,
    /// DATATYPE / TEXTTYPE / NODETYPE / BOXTYPE
    pub xtype: i16,
    /// path, text
    pub path_type: Option<i16>,
    pub width: Option<i32>,
    /// path only
    pub bgnextn: Option<i32>,
    pub endextn: Option<i32>,
    /// text only
    pub presentation: Option<[u8; 2]>,
    /// sref / aref: SNAME
    pub sname: Vec<u8>,
    pub strans: Option<RStrans>,
    /// aref: (columns, rows) in wire order
    pub colrow: (i16, i16),
    /// flat coordinate list x0 y0 x1 y1 ...
    pub xy: Vec<i32>,
    /// text: STRING
    pub string: Vec<u8>,
    pub props: Vec<(i16, Vec<u8>)>,
}
impl RElem {
    pub fn new(kind: Kind) -> RElem {
        RElem {
            kind,
            elflags: None,
            plex: None,
            layer: 0,
            xtype: 0,
            path_type: None,
            width: None,
            bgnextn: None,
            endextn: None,
            presentation: None,
            sname: vec![],
            strans: None,
            colrow: (0, 0),
            xy: vec![],
            string: vec![],
            props: vec![],
        }
    }
}

#[derive(Clone, Debug, PartialEq, Eq, Hash, Default)]
pub struct RStruct {
    pub dates: [i16; 12],
    pub name: Vec<u8>,
    pub strclass: Option<[u8; 2]>,
    pub elems: Vec<RElem>,
}

#[derive(Clone, Debug, PartialEq, Eq, Hash, Default)]
pub struct RFormat {
    pub kind: i16,
    pub masks: Vec<Vec<u8>>,
}

#[derive(Clone, Debug, PartialEq, Eq, Hash, Default)]
pub struct RLib {
    pub version: i16,
    pub dates: [i16; 12],
    pub libdirsize: Option<i16>,
    pub srfname: Option<Vec<u8>>,
    pub libsecur: Option<Vec<i16>>,
    pub name: Vec<u8>,
    /// raw payload (n * 44 bytes)
    pub reflibs: Option<Vec<u8>>,
    /// raw payload (176 bytes)
    pub fonts: Option<Vec<u8>>,
    pub attrtable: Option<Vec<u8>>,
    pub generations: Option<i16>,
    pub format: Option<RFormat>,
    pub units: [u64; 2],
    pub structs: Vec<RStruct>,
}
impl RLib {
    pub fn uses_unsupported(&self) -> bool {
        self.libdirsize.is_some()
            || self.srfname.is_some()
            || self.libsecur.is_some()
            || self.reflibs.is_some()
            || self.fonts.is_some()
            || self.attrtable.is_some()
            || self.generations.is_some()
            || self.format.is_some()
    }
    /// every string of the value, with the name of its site
    pub fn strings(&self) -> Vec<(&'static str, &Vec<u8>)> {
        let mut v: Vec<(&'static str, &Vec<u8>)> = vec![("libname", &self.name)];
        for s in &self.structs {
            v.push(("strname", &s.name));
            for e in &s.elems {
                if matches!(e.kind, Kind::Sref | Kind::Aref) {
                    v.push(("sname", &e.sname));
                }
                if e.kind == Kind::Text {
                    v.push(("string", &e.string));
                }
                for p in &e.props {
                    v.push(("propvalue", &p.1));
                }
            }
        }
        v
    }
    pub fn elems(&self) -> impl Iterator<Item = &RElem> {
        self.structs.iter().flat_map(|s| s.elems.iter())
    }
    /// every real of the value, as raw 8 bytes
    pub fn reals(&self) -> Vec<u64> {
        let mut v = vec![self.units[0], self.units[1]];
        for e in self.elems() {
            if let Some(s) = &e.strans {
                v.extend(s.mag);
                v.extend(s.angle);
            }
        }
        v
    }
}

/// A string the stream format can carry faithfully: anything but an even-length string ending in NUL
/// (its last byte is indistinguishable from the pad of the odd-length string one byte shorter).
pub fn string_representable(s: &[u8]) -> bool {
    !(s.len() % 2 == 0 && s.last() == Some(&0))
}

// -------------------------------------------------------------------------------------------------
// Encoder
// -------------------------------------------------------------------------------------------------

fn p_i16(v: &[i16]) -> Vec<u8> {
    let mut o = Vec::with_capacity(v.len() * 2);
    for x in v {
        o.push((*x as u16 >> 8) as u8);
        o.push((*x as u16 & 0xff) as u8);
    }
    o
}
fn p_i32(v: &[i32]) -> Vec<u8> {
    let mut o = Vec::with_capacity(v.len() * 4);
    for x in v {
        let u = *x as u32;
        o.extend_from_slice(&[(u >> 24) as u8, (u >> 16) as u8, (u >> 8) as u8, u as u8]);
    }
    o
}
fn p_u64(v: &[u64]) -> Vec<u8> {
    let mut o = Vec::with_capacity(v.len() * 8);
    for x in v {
        for k in (0..8).rev() {
            o.push((x >> (8 * k)) as u8);
        }
    }
    o
}
/// string payload: one NUL of padding when (and only when) the length is odd
pub fn p_str(s: &[u8]) -> Vec<u8> {
    let mut o = s.to_vec();
    if o.len() % 2 == 1 {
        o.push(0);
    }
    o
}

pub fn r_none(t: u8) -> Rec {
    Rec::new(t, dt::NONE, vec![])
}
pub fn r_i16(t: u8, v: &[i16]) -> Rec {
    Rec::new(t, dt::I16, p_i16(v))
}
pub fn r_i32(t: u8, v: &[i32]) -> Rec {
    Rec::new(t, dt::I32, p_i32(v))
}
pub fn r_f64(t: u8, v: &[u64]) -> Rec {
    Rec::new(t, dt::F64, p_u64(v))
}
pub fn r_str(t: u8, s: &[u8]) -> Rec {
    Rec::new(t, dt::STR, p_str(s))
}
pub fn r_bits(t: u8, b: [u8; 2]) -> Rec {
    Rec::new(t, dt::BITS, b.to_vec())
}

fn strans_records(s: &RStrans, out: &mut Vec<Rec>) {
    out.push(r_bits(rt::STRANS, [(s.flags >> 8) as u8, (s.flags & 0xff) as u8]));
    if let Some(m) = s.mag {
        out.push(r_f64(rt::MAG, &[m]));
    }
    if let Some(a) = s.angle {
        out.push(r_f64(rt::ANGLE, &[a]));
    }
}

pub fn elem_records(e: &RElem, out: &mut Vec<Rec>) {
    out.push(r_none(e.kind.start()));
    if let Some(f) = e.elflags {
        out.push(r_bits(rt::ELFLAGS, f));
    }
    if let Some(p) = e.plex {
        out.push(r_i32(rt::PLEX, &[p]));
    }
    match e.kind {
        Kind::Boundary | Kind::Node | Kind::Box => {
            out.push(r_i16(rt::LAYER, &[e.layer]));
            out.push(r_i16(e.kind.xtype_rec().unwrap(), &[e.xtype]));
            out.push(r_i32(rt::XY, &e.xy));
        }
        Kind::Path => {
            out.push(r_i16(rt::LAYER, &[e.layer]));
            out.push(r_i16(rt::DATATYPE, &[e.xtype]));
            if let Some(v) = e.path_type {
                out.push(r_i16(rt::PATHTYPE, &[v]));
            }
            if let Some(v) = e.width {
                out.push(r_i32(rt::WIDTH, &[v]));
            }
            if let Some(v) = e.bgnextn {
                out.push(r_i32(rt::BGNEXTN, &[v]));
            }
            if let Some(v) = e.endextn {
                out.push(r_i32(rt::ENDEXTN, &[v]));
            }
            out.push(r_i32(rt::XY, &e.xy));
        }
        Kind::Sref | Kind::Aref => {
            out.push(r_str(rt::SNAME, &e.sname));
            if let Some(s) = &e.strans {
                strans_records(s, out);
            }
            if e.kind == Kind::Aref {
                out.push(r_i16(rt::COLROW, &[e.colrow.0, e.colrow.1]));
            }
            out.push(r_i32(rt::XY, &e.xy));
        }
        Kind::Text => {
            out.push(r_i16(rt::LAYER, &[e.layer]));
            out.push(r_i16(rt::TEXTTYPE, &[e.xtype]));
            if let Some(p) = e.presentation {
                out.push(r_bits(rt::PRESENTATION, p));
            }
            if let Some(v) = e.path_type {
                out.push(r_i16(rt::PATHTYPE, &[v]));
            }
            if let Some(v) = e.width {
                out.push(r_i32(rt::WIDTH, &[v]));
            }
            if let Some(s) = &e.strans {
                strans_records(s, out);
            }
            out.push(r_i32(rt::XY, &e.xy));
            out.push(r_str(rt::STRING, &e.string));
        }
    }
    for (a, v) in &e.props {
        out.push(r_i16(rt::PROPATTR, &[*a]));
        out.push(r_str(rt::PROPVALUE, v));
    }
    out.push(r_none(rt::ENDEL));
}

/// Flatten a library value to its record sequence in grammar order (no size checks here).
pub fn lib_records(l: &RLib) -> Vec<Rec> {
    let mut out = Vec::with_capacity(16);
    out.push(r_i16(rt::HEADER, &[l.version]));
    out.push(r_i16(rt::BGNLIB, &l.dates));
    if let Some(v) = l.libdirsize {
        out.push(r_i16(rt::LIBDIRSIZE, &[v]));
    }
    if let Some(v) = &l.srfname {
        out.push(r_str(rt::SRFNAME, v));
    }
    if let Some(v) = &l.libsecur {
        out.push(r_i16(rt::LIBSECUR, v));
    }
    out.push(r_str(rt::LIBNAME, &l.name));
    if let Some(v) = &l.reflibs {
        out.push(Rec::new(rt::REFLIBS, dt::STR, v.clone()));
    }
    if let Some(v) = &l.fonts {
        out.push(Rec::new(rt::FONTS, dt::STR, v.clone()));
    }
    if let Some(v) = &l.attrtable {
        out.push(r_str(rt::ATTRTABLE, v));
    }
    if let Some(v) = l.generations {
        out.push(r_i16(rt::GENERATIONS, &[v]));
    }
    if let Some(f) = &l.format {
        out.push(r_i16(rt::FORMAT, &[f.kind]));
        if !f.masks.is_empty() {
            for m in &f.masks {
                out.push(r_str(rt::MASK, m));
            }
            out.push(r_none(rt::ENDMASKS));
        }
    }
    out.push(r_f64(rt::UNITS, &l.units));
    for s in &l.structs {
        out.push(r_i16(rt::BGNSTR, &s.dates));
        out.push(r_str(rt::STRNAME, &s.name));
        if let Some(c) = s.strclass {
            out.push(r_bits(rt::STRCLASS, c));
        }
        for e in &s.elems {
            elem_records(e, &mut out);
        }
        out.push(r_none(rt::ENDSTR));
    }
    out.push(r_none(rt::ENDLIB));
    out
}

/// Serialise records. Err if a payload is odd or does not fit the 16-bit length field.
pub fn records_to_bytes(recs: &[Rec]) -> Result<Vec<u8>, String> {
    let total: usize = recs.iter().map(|r| r.wire_len()).sum();
    let mut out = Vec::with_capacity(total);
    for r in recs {
        if r.payload.len() > MAX_PAYLOAD {
            return Err(format!("record {} payload of {} bytes exceeds the 16-bit record length", rname(r.rtype), r.payload.len()));
        }
        if r.payload.len() % 2 != 0 {
            return Err(format!("record {} has an odd payload", rname(r.rtype)));
        }
        let n = r.wire_len() as u16;
        out.push((n >> 8) as u8);
        out.push((n & 0xff) as u8);
        out.push(r.rtype);
        out.push(r.dtype);
        out.extend_from_slice(&r.payload);
    }
    Ok(out)
}

/// Raw serialisation for fault injection: the length field is written modulo 2^16 and nothing is checked.
pub fn records_to_bytes_raw(recs: &[Rec]) -> Vec<u8> {
    let mut out = Vec::new();
    for r in recs {
        let n = (r.wire_len() & 0xffff) as u16;
        out.push((n >> 8) as u8);
        out.push((n & 0xff) as u8);
        out.push(r.rtype);
        out.push(r.dtype);
        out.extend_from_slice(&r.payload);
    }
    out
}

/// Why a value cannot be carried by the stream format (None = it can, and decode(encode(v)) == v).
pub fn unrepresentable(l: &RLib) -> Option<String> {
    for (site, s) in l.strings() {
        if !string_representable(s) {
            return Some(format!("{site}: even-length string ending in NUL"));
        }
        if p_str(s).len() > MAX_PAYLOAD {
            return Some(format!("{site}: string of {} bytes exceeds the record limit", s.len()));
        }
    }
    for e in l.elems() {
        if e.xy.len() * 4 > MAX_PAYLOAD {
            return Some(format!("{}: {} coordinates exceed the record limit", e.kind.name(), e.xy.len()));
        }
        if e.xy.len() % 2 != 0 {
            return Some("odd coordinate count".into());
        }
    }
    None
}

pub fn encode(l: &RLib) -> Result<Vec<u8>, String> {
    records_to_bytes(&lib_records(l))
}

// -------------------------------------------------------------------------------------------------
// Decoder
// -------------------------------------------------------------------------------------------------

/// Split bytes into records, checking every header against the specification's table.
/// Stops after ENDLIB; returns the records and the number of bytes consumed.
pub fn split_records(b: &[u8]) -> Result<(Vec<Rec>, usize), String> {
    let mut pos = 0usize;
    let mut out = Vec::new();
    loop {
        if b.len() - pos < 4 {
            return Err(format!("byte {pos}: stream ends inside a record header (no ENDLIB seen)"));
        }
        let len = ((b[pos] as usize) << 8) | b[pos + 1] as usize;
        let (rtype, dtype) = (b[pos + 2], b[pos + 3]);
        if len < 4 {
            return Err(format!("byte {pos}: record length {len} < 4"));
        }
        if len % 2 != 0 {
            return Err(format!("byte {pos}: odd record length {len}"));
        }
        let Some((name, want_dt, size)) = spec(rtype) else {
            return Err(format!("byte {pos}: record type {rtype:#04x} is not defined by the specification"));
        };
        if dtype != want_dt {
            return Err(format!("byte {pos}: {name} carries data type {dtype}, the specification assigns {want_dt}"));
        }
        let plen = len - 4;
        let ok = match size {
            Size::Exact(n) => plen == n,
            Size::Str => true,
            Size::Multiple(n) => plen > 0 && plen % n == 0,
            Size::MultipleOrZero(n) => plen % n == 0,
        };
        if !ok {
            return Err(format!("byte {pos}: {name} payload of {plen} bytes violates {size:?}"));
        }
        if b.len() - pos < len {
            return Err(format!("byte {pos}: {name} announces {len} bytes, only {} present", b.len() - pos));
        }
        out.push(Rec::new(rtype, dtype, b[pos + 4..pos + len].to_vec()));
        pos += len;
        if rtype == rt::ENDLIB {
            return Ok((out, pos));
        }
    }
}

fn g_i16(p: &[u8]) -> Vec<i16> {
    p.chunks_exact(2).map(|c| (((c[0] as u16) << 8) | c[1] as u16) as i16).collect()
}
fn g_i32(p: &[u8]) -> Vec<i32> {
    p.chunks_exact(4)
        .map(|c| (((c[0] as u32) << 24) | ((c[1] as u32) << 16) | ((c[2] as u32) << 8) | c[3] as u32) as i32)
        .collect()
}
fn g_u64(p: &[u8]) -> Vec<u64> {
    p.chunks_exact(8).map(|c| c.iter().fold(0u64, |a, x| (a << 8) | *x as u64)).collect()
}
/// logical string of a string payload: a final NUL is the pad of an odd-length string
pub fn g_str(p: &[u8]) -> Vec<u8> {
    if p.last() == Some(&0) {
        p[..p.len() - 1].to_vec()
    } else {
        p.to_vec()
    }
}

struct Cur<'a> {
    r: &'a [Rec],
    i: usize,
}
impl<'a> Cur<'a> {
    fn peek(&self) -> Option<u8> {
        self.r.get(self.i).map(|r| r.rtype)
    }
    fn take(&mut self, t: u8) -> Result<&'a Rec, String> {
        match self.r.get(self.i) {
            Some(r) if r.rtype == t => {
                self.i += 1;
                Ok(r)
            }
            Some(r) => Err(format!("record #{}: expected {}, found {}", self.i, rname(t), rname(r.rtype))),
            None => Err(format!("record #{}: expected {}, found end of records", self.i, rname(t))),
        }
    }
    fn opt(&mut self, t: u8) -> Option<&'a Rec> {
        if self.peek() == Some(t) {
            self.i += 1;
            Some(&self.r[self.i - 1])
        } else {
            None
        }
    }
}
fn two(p: &[u8]) -> [u8; 2] {
    [p[0], p[1]]
}
fn dates(p: &[u8]) -> [i16; 12] {
    let v = g_i16(p);
    let mut d = [0i16; 12];
    d.copy_from_slice(&v);
    d
}

fn parse_strans(c: &mut Cur) -> Option<RStrans> {
    let s = c.opt(rt::STRANS)?;
    let flags = ((s.payload[0] as u16) << 8) | s.payload[1] as u16;
    let mag = c.opt(rt::MAG).map(|r| g_u64(&r.payload)[0]);
    let angle = c.opt(rt::ANGLE).map(|r| g_u64(&r.payload)[0]);
    Some(RStrans { flags, mag, angle })
}

fn parse_elem(c: &mut Cur, kind: Kind) -> Result<RElem, String> {
    let mut e = RElem::new(kind);
    c.take(kind.start())?;
    e.elflags = c.opt(rt::ELFLAGS).map(|r| two(&r.payload));
    e.plex = c.opt(rt::PLEX).map(|r| g_i32(&r.payload)[0]);
    match kind {
        Kind::Boundary | Kind::Node | Kind::Box => {
            e.layer = g_i16(&c.take(rt::LAYER)?.payload)[0];
            e.xtype = g_i16(&c.take(kind.xtype_rec().unwrap())?.payload)[0];
            e.xy = g_i32(&c.take(rt::XY)?.payload);
        }
        Kind::Path => {
            e.layer = g_i16(&c.take(rt::LAYER)?.payload)[0];
            e.xtype = g_i16(&c.take(rt::DATATYPE)?.payload)[0];
            e.path_type = c.opt(rt::PATHTYPE).map(|r| g_i16(&r.payload)[0]);
            e.width = c.opt(rt::WIDTH).map(|r| g_i32(&r.payload)[0]);
            e.bgnextn = c.opt(rt::BGNEXTN).map(|r| g_i32(&r.payload)[0]);
            e.endextn = c.opt(rt::ENDEXTN).map(|r| g_i32(&r.payload)[0]);
            e.xy = g_i32(&c.take(rt::XY)?.payload);
        }
        Kind::Sref | Kind::Aref => {
            e.sname = g_str(&c.take(rt::SNAME)?.payload);
            e.strans = parse_strans(c);
            if kind == Kind::Aref {
                let v = g_i16(&c.take(rt::COLROW)?.payload);
                e.colrow = (v[0], v[1]);
            }
            e.xy = g_i32(&c.take(rt::XY)?.payload);
            let want = if kind == Kind::Sref { 2 } else { 6 };
            if e.xy.len() != want {
                return Err(format!("{} XY carries {} coordinates, the specification requires {}", kind.name(), e.xy.len(), want));
            }
        }
        Kind::Text => {
            e.layer = g_i16(&c.take(rt::LAYER)?.payload)[0];
            e.xtype = g_i16(&c.take(rt::TEXTTYPE)?.payload)[0];
            e.presentation = c.opt(rt::PRESENTATION).map(|r| two(&r.payload));
            e.path_type = c.opt(rt::PATHTYPE).map(|r| g_i16(&r.payload)[0]);
            e.width = c.opt(rt::WIDTH).map(|r| g_i32(&r.payload)[0]);
            e.strans = parse_strans(c);
            e.xy = g_i32(&c.take(rt::XY)?.payload);
            if e.xy.len() != 2 {
                return Err(format!("text XY carries {} coordinates, the specification requires 2", e.xy.len()));
            }
            e.string = g_str(&c.take(rt::STRING)?.payload);
        }
    }
    if kind == Kind::Box && e.xy.len() != 10 {
        return Err(format!("box XY carries {} coordinates, the specification requires 10", e.xy.len()));
    }
    while let Some(a) = c.opt(rt::PROPATTR) {
        let v = c.take(rt::PROPVALUE)?;
        e.props.push((g_i16(&a.payload)[0], g_str(&v.payload)));
    }
    c.take(rt::ENDEL)?;
    Ok(e)
}

/// Parse a record sequence (as returned by `split_records`) strictly by the grammar.
pub fn parse_records(recs: &[Rec]) -> Result<RLib, String> {
    let mut c = Cur { r: recs, i: 0 };
    let mut l = RLib::default();
    l.version = g_i16(&c.take(rt::HEADER)?.payload)[0];
    l.dates = dates(&c.take(rt::BGNLIB)?.payload);
    l.libdirsize = c.opt(rt::LIBDIRSIZE).map(|r| g_i16(&r.payload)[0]);
    l.srfname = c.opt(rt::SRFNAME).map(|r| g_str(&r.payload));
    l.libsecur = c.opt(rt::LIBSECUR).map(|r| g_i16(&r.payload));
    l.name = g_str(&c.take(rt::LIBNAME)?.payload);
    l.reflibs = c.opt(rt::REFLIBS).map(|r| r.payload.clone());
    l.fonts = c.opt(rt::FONTS).map(|r| r.payload.clone());
    l.attrtable = c.opt(rt::ATTRTABLE).map(|r| g_str(&r.payload));
    l.generations = c.opt(rt::GENERATIONS).map(|r| g_i16(&r.payload)[0]);
    if let Some(f) = c.opt(rt::FORMAT) {
        let mut fm = RFormat { kind: g_i16(&f.payload)[0], masks: vec![] };
        if c.peek() == Some(rt::MASK) {
            while let Some(m) = c.opt(rt::MASK) {
                fm.masks.push(g_str(&m.payload));
            }
            c.take(rt::ENDMASKS)?;
        }
        l.format = Some(fm);
    }
    let u = g_u64(&c.take(rt::UNITS)?.payload);
    l.units = [u[0], u[1]];
    while let Some(b) = c.opt(rt::BGNSTR) {
        let mut s = RStruct { dates: dates(&b.payload), ..Default::default() };
        s.name = g_str(&c.take(rt::STRNAME)?.payload);
        s.strclass = c.opt(rt::STRCLASS).map(|r| two(&r.payload));
        loop {
            let Some(t) = c.peek() else { return Err("records end inside a structure".into()) };
            if t == rt::ENDSTR {
                c.i += 1;
                break;
            }
            let Some(kind) = Kind::ALL.iter().copied().find(|k| k.start() == t) else {
                return Err(format!("record #{}: {} cannot start an element", c.i, rname(t)));
            };
            s.elems.push(parse_elem(&mut c, kind)?);
        }
        l.structs.push(s);
    }
    c.take(rt::ENDLIB)?;
    if c.i != recs.len() {
        return Err(format!("{} records after ENDLIB", recs.len() - c.i));
    }
    Ok(l)
}

pub struct Decoded {
    pub lib: RLib,
    /// bytes up to and including ENDLIB
    pub consumed: usize,
    pub records: usize,
}

pub fn decode(b: &[u8]) -> Result<Decoded, String> {
    let (recs, consumed) = split_records(b)?;
    let lib = parse_records(&recs)?;
    Ok(Decoded { lib, consumed, records: recs.len() })
}

// -------------------------------------------------------------------------------------------------
// Field-by-field difference (for messages)
// -------------------------------------------------------------------------------------------------

fn show(b: &[u8]) -> String {
    if b.len() > 24 {
        format!("{:?}… ({} bytes)", String::from_utf8_lossy(&b[..24]), b.len())
    } else {
        format!("{:?}", String::from_utf8_lossy(b))
    }
}

/// First difference between two values, as text; None when equal.
pub fn first_diff(a: &RLib, b: &RLib) -> Option<String> {
    if a == b {
        return None;
    }
    macro_rules! d {
        ($f:expr, $x:expr, $y:expr) => {
            if $x != $y {
                return Some(format!("{}: {:?} vs {:?}", $f, $x, $y));
            }
        };
    }
    d!("version", a.version, b.version);
    d!("library dates", a.dates, b.dates);
    if a.name != b.name {
        return Some(format!("library name: {} vs {}", show(&a.name), show(&b.name)));
    }
    d!("units[0] (8-byte real)", format!("{:#018x}", a.units[0]), format!("{:#018x}", b.units[0]));
    d!("units[1] (8-byte real)", format!("{:#018x}", a.units[1]), format!("{:#018x}", b.units[1]));
    d!("libdirsize", a.libdirsize, b.libdirsize);
    d!("srfname", a.srfname, b.srfname);
    d!("libsecur", a.libsecur, b.libsecur);
    d!("reflibs", a.reflibs, b.reflibs);
    d!("fonts", a.fonts, b.fonts);
    d!("attrtable", a.attrtable, b.attrtable);
    d!("generations", a.generations, b.generations);
    d!("format", a.format, b.format);
    d!("number of structures", a.structs.len(), b.structs.len());
    for (si, (s, t)) in a.structs.iter().zip(&b.structs).enumerate() {
        d!(format!("struct {si} dates"), s.dates, t.dates);
        if s.name != t.name {
            return Some(format!("struct {si} name: {} vs {}", show(&s.name), show(&t.name)));
        }
        d!(format!("struct {si} strclass"), s.strclass, t.strclass);
        d!(format!("struct {si} element count"), s.elems.len(), t.elems.len());
        for (ei, (e, f)) in s.elems.iter().zip(&t.elems).enumerate() {
            let p = format!("struct {si} element {ei} ({})", e.kind.name());
            d!(format!("{p} kind"), e.kind, f.kind);
            d!(format!("{p} elflags"), e.elflags, f.elflags);
            d!(format!("{p} plex"), e.plex, f.plex);
            d!(format!("{p} layer"), e.layer, f.layer);
            d!(format!("{p} datatype/texttype/nodetype/boxtype"), e.xtype, f.xtype);
            d!(format!("{p} pathtype"), e.path_type, f.path_type);
            d!(format!("{p} width"), e.width, f.width);
            d!(format!("{p} bgnextn"), e.bgnextn, f.bgnextn);
            d!(format!("{p} endextn"), e.endextn, f.endextn);
            d!(format!("{p} presentation"), e.presentation, f.presentation);
            if e.sname != f.sname {
                return Some(format!("{p} sname: {} vs {}", show(&e.sname), show(&f.sname)));
            }
            d!(format!("{p} strans"), e.strans.as_ref().map(|s| (format!("{:#06x}", s.flags), s.mag.map(|m| format!("{m:#018x}")), s.angle.map(|m| format!("{m:#018x}")))), f.strans.as_ref().map(|s| (format!("{:#06x}", s.flags), s.mag.map(|m| format!("{m:#018x}")), s.angle.map(|m| format!("{m:#018x}")))));
            d!(format!("{p} colrow (columns, rows)"), e.colrow, f.colrow);
            if e.xy != f.xy {
                let i = e.xy.iter().zip(&f.xy).position(|(x, y)| x != y);
                return Some(format!("{p} xy: {} vs {} coordinates, first difference at index {:?}", e.xy.len(), f.xy.len(), i));
            }
            if e.string != f.string {
                return Some(format!("{p} string: {} vs {}", show(&e.string), show(&f.string)));
            }
            d!(format!("{p} property count"), e.props.len(), f.props.len());
            for (pi, (x, y)) in e.props.iter().zip(&f.props).enumerate() {
                d!(format!("{p} property {pi} attr"), x.0, y.0);
                if x.1 != y.1 {
                    return Some(format!("{p} property {pi} value: {} vs {}", show(&x.1), show(&y.1)));
                }
            }
        }
    }
    Some("values differ (unlocated)".into())
}

// -------------------------------------------------------------------------------------------------
// Self-check
// -------------------------------------------------------------------------------------------------

/// Fixed vectors derived by hand from the specification (guards against a symmetric error shared by the
/// reference encoder and decoder), plus structural checks of the table.
pub fn self_check() -> Result<(), String> {
    // a complete hand-assembled stream: version 600, name "AB", one structure "C" with one SREF to "D"
    // reflected, magnification 1.0 (0x4110…), at (1, -2)
    #[rustfmt::skip]
    let golden: Vec<u8> = vec![
        0x00,0x06, 0x00,0x02, 0x02,0x58,                                   // HEADER 600
        0x00,0x1c, 0x01,0x02, 0,1, 0,2, 0,3, 0,4, 0,5, 0,6, 0,7, 0,8, 0,9, 0,10, 0,11, 0xff,0xff, // BGNLIB
        0x00,0x06, 0x02,0x06, b'A', b'B',                                   // LIBNAME "AB"
        0x00,0x14, 0x03,0x05, 0x41,0x10,0,0,0,0,0,0, 0x40,0x10,0,0,0,0,0,0, // UNITS 1.0, 1/16
        0x00,0x1c, 0x05,0x02, 0,1, 0,2, 0,3, 0,4, 0,5, 0,6, 0,7, 0,8, 0,9, 0,10, 0,11, 0x80,0x00, // BGNSTR
        0x00,0x06, 0x06,0x06, b'C', 0x00,                                   // STRNAME "C" + pad
        0x00,0x04, 0x0a,0x00,                                               // SREF
        0x00,0x06, 0x12,0x06, b'D', 0x00,                                   // SNAME "D" + pad
        0x00,0x06, 0x1a,0x01, 0x80,0x00,                                    // STRANS reflected
        0x00,0x0c, 0x1b,0x05, 0x41,0x10,0,0,0,0,0,0,                        // MAG 1.0
        0x00,0x0c, 0x10,0x03, 0,0,0,1, 0xff,0xff,0xff,0xfe,                 // XY (1,-2)
        0x00,0x04, 0x11,0x00,                                               // ENDEL
        0x00,0x04, 0x07,0x00,                                               // ENDSTR
        0x00,0x04, 0x04,0x00,                                               // ENDLIB
    ];
    let mut e = RElem::new(Kind::Sref);
    e.sname = b"D".to_vec();
    e.strans = Some(RStrans { flags: STRANS_REFLECT, mag: Some(0x4110_0000_0000_0000), angle: None });
    e.xy = vec![1, -2];
    let want = RLib {
        version: 600,
        dates: [1, 2, 3, 4, 5, 6, 7, 8, 9, 10, 11, -1],
        name: b"AB".to_vec(),
        units: [0x4110_0000_0000_0000, 0x4010_0000_0000_0000],
        structs: vec![RStruct { dates: [1, 2, 3, 4, 5, 6, 7, 8, 9, 10, 11, i16::MIN], name: b"C".to_vec(), strclass: None, elems: vec![e] }],
        ..Default::default()
    };
    let enc = encode(&want)?;
    if enc != golden {
        return Err("reference encoder does not reproduce the hand-assembled stream".into());
    }
    let dec = decode(&golden)?;
    if dec.lib != want || dec.consumed != golden.len() {
        return Err(format!("reference decoder misreads the hand-assembled stream: {:?}", first_diff(&dec.lib, &want)));
    }
    // the table: 50 released record types below 0x3c
    let n = (0u8..=255).filter(|t| spec(*t).is_some()).count();
    if n != 50 {
        return Err(format!("specification table has {n} entries, expected 50"));
    }
    // strictness spot checks
    let mut odd = golden.clone();
    odd[1] = 0x05;
    if split_records(&odd).is_ok() {
        return Err("decoder accepts an odd record length".into());
    }
    let mut wrong_dt = golden.clone();
    wrong_dt[3] = 0x03;
    if split_records(&wrong_dt).is_ok() {
        return Err("decoder accepts HEADER with data type 3".into());
    }
    if decode(&golden[..golden.len() - 4]).is_ok() {
        return Err("decoder accepts a stream without ENDLIB".into());
    }
    if g_str(b"a\0") != b"a" || g_str(b"ab") != b"ab" || g_str(b"") != b"" || p_str(b"abc") != b"abc\0" || p_str(b"") != b"" {
        return Err("string padding rule broken".into());
    }
    Ok(())
}

/// decode(encode(v)) == v for a representable value (the per-case reference self-check).
pub fn roundtrip_check(l: &RLib) -> Result<Vec<u8>, String> {
    let bytes = encode(l)?;
    let d = decode(&bytes).map_err(|e| format!("reference decoder rejects reference encoder output: {e}"))?;
    if d.consumed != bytes.len() {
        return Err("reference decoder did not consume the whole reference stream".into());
    }
    if let Some(diff) = first_diff(l, &d.lib) {
        return Err(format!("reference decode(encode(v)) != v: {diff}"));
    }
    Ok(bytes)
}

#[cfg(test)]
mod tests {
    use super::*;
    #[test]
    fn selfcheck() {
        self_check().unwrap();
    }
}
