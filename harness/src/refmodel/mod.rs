//! Independent reference models (oracles). Nothing in here calls the code it judges.
pub mod tiling;
