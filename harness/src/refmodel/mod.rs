//! Independent reference models (oracles). Nothing in here calls the code it judges.
pub mod geom;
pub mod gdsflat;
pub mod gdsstream;
pub mod lefrender;
pub mod tiling;
