//! KNOWN_FINDINGS.txt reader. The file is never written at run time.
//!
//!   finding: property=<id> match=<predicate> <what fails>
//!   fixed: property=<id> <commit> <what failed>
//!
//! A `finding:` line enables the predicate `<predicate>` for property `<id>`: a failure that the
//! property's driver attributes to exactly that predicate (input class + failure mode) is printed as
//! KNOWN-FINDING and does not fail the check. `fixed:` lines suppress nothing.

use std::collections::BTreeSet;

#[derive(Clone, Debug)]
pub struct Known {
    pub property: String,
    pub matcher: String,
    pub text: String,
}

pub fn path() -> String {
    format!("{}/KNOWN_FINDINGS.txt", crate::sandbox::verif_root())
}

pub fn load() -> Vec<Known> {
    let txt = std::fs::read_to_string(path()).unwrap_or_default();
    let mut out = vec![];
    for line in txt.lines() {
        let line = line.trim();
        let Some(rest) = line.strip_prefix("finding:") else { continue };
        let mut property = String::new();
        let mut matcher = String::new();
        let mut text: Vec<&str> = vec![];
        for tok in rest.split_whitespace() {
            if let Some(p) = tok.strip_prefix("property=") {
                if property.is_empty() {
                    property = p.to_string();
                    continue;
                }
            }
            if let Some(m) = tok.strip_prefix("match=") {
                if matcher.is_empty() {
                    matcher = m.to_string();
                    continue;
                }
            }
            text.push(tok);
        }
        if !property.is_empty() && !matcher.is_empty() {
            out.push(Known { property, matcher, text: text.join(" ") });
        }
    }
    out
}

pub fn enabled_for(id: &str) -> BTreeSet<String> {
    load().into_iter().filter(|k| k.property == id).map(|k| k.matcher).collect()
}
