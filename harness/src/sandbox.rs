//! Controller / worker sub-process machinery: dynamic hand-out of work units over pipes, progress
//! slots, hang watchdog, resource limits, blame + confirm-twice for crashes.

use crate::core::*;
use crate::{evidence, known, props};
use serde_json::{json, Value};
use std::collections::{BTreeSet, VecDeque};
use std::io::{BufRead, BufReader, Read, Write};
use std::os::unix::io::FromRawFd;
use std::os::unix::process::{CommandExt, ExitStatusExt};
use std::process::{Child, ChildStdin, Command, Stdio};
use std::sync::atomic::{AtomicBool, AtomicI32, Ordering};
use std::sync::Mutex;
use std::time::{Duration, Instant};

pub const NWORKERS: usize = 16;

pub fn verif_root() -> String {
    std::env::var("VERIF_ROOT").unwrap_or_else(|_| "/verif".to_string())
}

pub fn seed() -> u64 {
    std::env::var("VERIF_SEED").ok().and_then(|s| s.parse::<u64>().ok()).unwrap_or(0)
}

fn watchdog_secs(tier: Tier) -> u64 {
    std::env::var("VERIF_WATCHDOG").ok().and_then(|s| s.parse().ok()).unwrap_or(tier.pick(20, 60))
}
fn time_cap_secs(tier: Tier) -> u64 {
    std::env::var("VERIF_TIME_CAP").ok().and_then(|s| s.parse().ok()).unwrap_or(tier.pick(50, 3600))
}

fn now_unix() -> u64 {
    std::time::SystemTime::now().duration_since(std::time::UNIX_EPOCH).map(|d| d.as_secs()).unwrap_or(0)
}
/// Workers share one absolute deadline fixed by the controller (so a respawned worker does not get a fresh budget).
fn deadline_from_env(tier: Tier) -> Instant {
    let abs = std::env::var("L21_DEADLINE_UNIX").ok().and_then(|s| s.parse::<u64>().ok());
    match abs {
        Some(a) => Instant::now() + Duration::from_secs(a.saturating_sub(now_unix())),
        None => Instant::now() + Duration::from_secs(time_cap_secs(tier)),
    }
}

pub struct RunDir(pub String);
impl RunDir {
    pub fn create() -> RunDir {
        let base = if std::path::Path::new("/dev/shm").is_dir() {
            "/dev/shm".to_string()
        } else {
            std::env::temp_dir().to_string_lossy().to_string()
        };
        let d = format!("{}/l21mc-{}", base, std::process::id());
        let _ = std::fs::remove_dir_all(&d);
        std::fs::create_dir_all(&d).expect("MACHINERY: cannot create run dir");
        RunDir(d)
    }
}
impl Drop for RunDir {
    fn drop(&mut self) {
        let _ = std::fs::remove_dir_all(&self.0);
    }
}

pub fn set_limits() -> std::io::Result<()> {
    unsafe {
        let as_lim = libc::rlimit { rlim_cur: 6 << 30, rlim_max: 6 << 30 };
        libc::setrlimit(libc::RLIMIT_AS, &as_lim);
        let st = libc::rlimit { rlim_cur: 8 << 20, rlim_max: 8 << 20 };
        libc::setrlimit(libc::RLIMIT_STACK, &st);
        let core = libc::rlimit { rlim_cur: 0, rlim_max: 0 };
        libc::setrlimit(libc::RLIMIT_CORE, &core);
    }
    Ok(())
}

fn self_exe() -> String {
    std::env::current_exe().expect("MACHINERY: current_exe").to_string_lossy().to_string()
}

// ------------------------------------------------------------------------------------------------
// Worker side
// ------------------------------------------------------------------------------------------------

/// Detach stdout/stderr from the controller: the crates under test `println!` freely. Returns the
/// protocol stream (the original stdout).
fn detach_stdio(errfile: &str) -> std::fs::File {
    unsafe {
        let proto = libc::dup(1);
        assert!(proto >= 0);
        let devnull = std::ffi::CString::new("/dev/null").unwrap();
        let dn = libc::open(devnull.as_ptr(), libc::O_WRONLY);
        libc::dup2(dn, 1);
        let ef = std::ffi::CString::new(errfile).unwrap();
        let e = libc::open(ef.as_ptr(), libc::O_WRONLY | libc::O_CREAT | libc::O_TRUNC, 0o644);
        if e >= 0 {
            libc::dup2(e, 2);
        } else {
            libc::dup2(dn, 2);
        }
        std::fs::File::from_raw_fd(proto)
    }
}

pub fn worker_main(id: &str, tier: Tier, idx: usize, rundir: &str) -> i32 {
    let mut proto = detach_stdio(&format!("{rundir}/w{idx}.err"));
    install_panic_hook();
    let driver = props::registry(id);
    let mut cx = Cx::new(tier, seed(), rundir, idx);
    cx.slot = Some(Slot::open(&format!("{rundir}/w{idx}.slot")));
    cx.known_enabled = known::enabled_for(id);
    cx.deadline = Some(deadline_from_env(tier));
    let mut hashfile = std::fs::OpenOptions::new()
        .create(true)
        .append(true)
        .open(format!("{rundir}/w{idx}.hashes"))
        .expect("MACHINERY: hash file");
    let stdin = std::io::stdin();
    let mut line = String::new();
    loop {
        line.clear();
        let n = stdin.lock().read_line(&mut line).unwrap_or(0);
        if n == 0 {
            return 0;
        }
        let l = line.trim_end_matches('\n');
        if l == "Q" {
            return 0;
        }
        let mut it = l.splitn(3, '\t');
        let cmd = it.next().unwrap_or("");
        assert_eq!(cmd, "U", "MACHINERY: bad worker command");
        let unit = it.next().unwrap_or("").to_string();
        let skips = it.next().unwrap_or("");
        cx.skip = skips.split('\x1f').filter(|s| !s.is_empty()).map(|s| s.to_string()).collect();
        cx.stats = Stats::default();
        if cx.expired() {
            cx.cap("time");
        } else {
            driver.run_unit(&unit, &mut cx);
        }
        let hs = cx.take_hashes();
        let mut buf = Vec::with_capacity(hs.len() * 8);
        for h in hs {
            buf.extend_from_slice(&h.to_le_bytes());
        }
        hashfile.write_all(&buf).expect("MACHINERY: hash write");
        hashfile.flush().ok();
        let st = serde_json::to_string(&cx.stats).expect("MACHINERY: stats json");
        writeln!(proto, "D\t{}", st).expect("MACHINERY: proto write");
        proto.flush().ok();
    }
}

pub fn case_main(id: &str, tier: Tier, key: &str, rundir: &str) -> i32 {
    let mut proto = detach_stdio(&format!("{rundir}/case.err"));
    install_panic_hook();
    let driver = props::registry(id);
    let mut cx = Cx::new(tier, seed(), rundir, 99);
    cx.known_enabled = known::enabled_for(id);
    driver.run_case(key, &mut cx);
    let st = serde_json::to_string(&cx.stats).expect("MACHINERY: stats json");
    writeln!(proto, "R\t{}", st).ok();
    0
}

/// `l21mc aux <id> <args..>`: run a driver-defined auxiliary computation in this (fresh) process and print
/// its one-line result on the protocol stream. Used for cross-process determinism checks.
pub fn aux_main(id: &str, args: &[String]) -> i32 {
    let mut proto = detach_stdio("/dev/null");
    install_panic_hook();
    let out = props::aux(id, args);
    writeln!(proto, "A\t{}", out.replace('\n', " ")).ok();
    0
}

/// Spawn a fresh process running `aux <id> <args..>` and return its one-line result.
pub fn run_aux(id: &str, args: &[String]) -> Result<String, String> {
    let mut cmd = Command::new(self_exe());
    cmd.arg("aux").arg(id).args(args).stdin(Stdio::null()).stdout(Stdio::piped()).stderr(Stdio::null()).env("RUST_BACKTRACE", "0");
    unsafe {
        cmd.pre_exec(set_limits);
    }
    let out = cmd.output().map_err(|e| format!("spawn: {e}"))?;
    if !out.status.success() {
        return Err(format!("aux process died: {:?}", out.status));
    }
    let text = String::from_utf8_lossy(&out.stdout).to_string();
    for l in text.lines() {
        if let Some(r) = l.strip_prefix("A\t") {
            return Ok(r.to_string());
        }
    }
    Err("aux process printed no result".into())
}

// ------------------------------------------------------------------------------------------------
// Controller side
// ------------------------------------------------------------------------------------------------

struct Proc {
    child: Child,
    stdin: ChildStdin,
    out: BufReader<std::process::ChildStdout>,
}

fn spawn_worker(id: &str, tier: Tier, idx: usize, rundir: &str) -> Proc {
    let mut cmd = Command::new(self_exe());
    cmd.args(["worker", id, tier.name(), &idx.to_string(), rundir])
        .stdin(Stdio::piped())
        .stdout(Stdio::piped())
        .stderr(Stdio::null())
        .env("RUST_BACKTRACE", "0");
    unsafe {
        cmd.pre_exec(set_limits);
    }
    let mut child = cmd.spawn().expect("MACHINERY: cannot spawn worker");
    let stdin = child.stdin.take().unwrap();
    let out = BufReader::new(child.stdout.take().unwrap());
    Proc { child, stdin, out }
}

fn death_of(status: std::process::ExitStatus) -> Death {
    if let Some(s) = status.signal() {
        Death::Signal(s)
    } else {
        Death::Exit(status.code().unwrap_or(-1))
    }
}

/// Run one case in a fresh sandboxed process. Ok(stats) or how it died.
pub fn run_case_sandboxed(id: &str, tier: Tier, key: &str, rundir: &str, timeout: Duration) -> Result<Stats, Death> {
    let mut cmd = Command::new(self_exe());
    cmd.args(["case", id, tier.name(), key, rundir])
        .stdin(Stdio::null())
        .stdout(Stdio::piped())
        .stderr(Stdio::null())
        .env("RUST_BACKTRACE", "0");
    unsafe {
        cmd.pre_exec(set_limits);
    }
    let mut child = cmd.spawn().expect("MACHINERY: cannot spawn case process");
    let mut out = child.stdout.take().unwrap();
    let reader = std::thread::spawn(move || {
        let mut s = String::new();
        let _ = out.read_to_string(&mut s);
        s
    });
    let start = Instant::now();
    let status = loop {
        match child.try_wait().expect("MACHINERY: try_wait") {
            Some(st) => break Some(st),
            None => {
                if start.elapsed() > timeout {
                    let _ = child.kill();
                    let _ = child.wait();
                    break None;
                }
                std::thread::sleep(Duration::from_millis(5));
            }
        }
    };
    let text = reader.join().unwrap_or_default();
    match status {
        None => Err(Death::Hang),
        Some(st) => {
            if st.success() {
                for l in text.lines() {
                    if let Some(j) = l.strip_prefix("R\t") {
                        if let Ok(s) = serde_json::from_str::<Stats>(j) {
                            return Ok(s);
                        }
                    }
                }
                Err(Death::Exit(0))
            } else {
                Err(death_of(st))
            }
        }
    }
}

#[derive(Clone, Debug)]
pub struct CrashVerdict {
    pub key: String,
    pub death: Death,
    pub stderr_tail: String,
}

struct Mon {
    pid: AtomicI32,
    busy: AtomicBool,
    hang_killed: AtomicBool,
}

struct Shared {
    queue: Mutex<VecDeque<String>>,
    stats: Mutex<Stats>,
    crashes: Mutex<Vec<CrashVerdict>>,
    fatal: Mutex<Vec<String>>,
    units_done: Mutex<u64>,
}

fn tail_of(path: &str, n: usize) -> String {
    match std::fs::read(path) {
        Ok(b) => {
            let s = String::from_utf8_lossy(&b).to_string();
            let t: String = s.chars().rev().take(n).collect::<String>().chars().rev().collect();
            t
        }
        Err(_) => String::new(),
    }
}

fn same_death(a: &Death, b: &Death) -> bool {
    a == b
}

fn worker_thread(id: &str, tier: Tier, idx: usize, rundir: &str, sh: &Shared, mon: &Mon) {
    let slot = Slot::open(&format!("{rundir}/w{idx}.slot"));
    let mut proc: Option<Proc> = None;
    let wd = Duration::from_secs(watchdog_secs(tier));
    'jobs: loop {
        if !sh.fatal.lock().unwrap().is_empty() {
            break;
        }
        let unit = match sh.queue.lock().unwrap().pop_front() {
            Some(u) => u,
            None => break,
        };
        let mut skip: BTreeSet<String> = BTreeSet::new();
        loop {
            if proc.is_none() {
                slot.write(b"");
                let p = spawn_worker(id, tier, idx, rundir);
                mon.pid.store(p.child.id() as i32, Ordering::SeqCst);
                proc = Some(p);
            }
            let p = proc.as_mut().unwrap();
            let skips: Vec<&str> = skip.iter().map(|s| s.as_str()).collect();
            let msg = format!("U\t{}\t{}\n", unit, skips.join("\x1f"));
            mon.hang_killed.store(false, Ordering::SeqCst);
            slot.write(b"");
            mon.busy.store(true, Ordering::SeqCst);
            let sent = p.stdin.write_all(msg.as_bytes()).and_then(|_| p.stdin.flush());
            let mut line = String::new();
            let got = if sent.is_ok() { p.out.read_line(&mut line).unwrap_or(0) } else { 0 };
            mon.busy.store(false, Ordering::SeqCst);
            if got > 0 {
                if let Some(j) = line.trim_end().strip_prefix("D\t") {
                    match serde_json::from_str::<Stats>(j) {
                        Ok(s) => {
                            sh.stats.lock().unwrap().merge(s);
                            *sh.units_done.lock().unwrap() += 1;
                            continue 'jobs;
                        }
                        Err(e) => {
                            sh.fatal.lock().unwrap().push(format!("bad stats from worker {idx}: {e}"));
                            break 'jobs;
                        }
                    }
                }
                sh.fatal.lock().unwrap().push(format!("bad reply from worker {idx}: {}", truncate(&line, 200)));
                break 'jobs;
            }
            // the worker died
            let mut pr = proc.take().unwrap();
            let _ = pr.child.kill();
            let status = pr.child.wait().expect("MACHINERY: wait");
            mon.pid.store(0, Ordering::SeqCst);
            let death = if mon.hang_killed.load(Ordering::SeqCst) { Death::Hang } else { death_of(status) };
            let (_seq, key) = slot.read();
            let errtail = tail_of(&format!("{rundir}/w{idx}.err"), 300);
            if key.is_empty() {
                sh.fatal.lock().unwrap().push(format!(
                    "worker {idx} died ({}) in unit {unit} before announcing any case; stderr: {errtail}",
                    death.describe()
                ));
                break 'jobs;
            }
            // confirm twice in fresh processes
            let r1 = run_case_sandboxed(id, tier, &key, rundir, wd);
            let r2 = run_case_sandboxed(id, tier, &key, rundir, wd);
            match (&r1, &r2) {
                (Err(d1), Err(d2)) if same_death(d1, d2) => {
                    let d = d1.clone();
                    sh.crashes.lock().unwrap().push(CrashVerdict { key: key.clone(), death: d, stderr_tail: errtail });
                    if !skip.insert(key.clone()) {
                        sh.fatal.lock().unwrap().push(format!("case {key} blamed twice although skipped"));
                        break 'jobs;
                    }
                    if skip.len() > 2000 {
                        sh.fatal.lock().unwrap().push(format!("more than 2000 crashing cases in unit {unit}"));
                        break 'jobs;
                    }
                }
                _ => {
                    sh.fatal.lock().unwrap().push(format!(
                        "worker {idx} died ({}) at case {key} but the case does not fail the same way twice in isolation ({:?} / {:?}); stderr: {errtail}",
                        death.describe(),
                        r1.as_ref().err(),
                        r2.as_ref().err()
                    ));
                    break 'jobs;
                }
            }
        }
    }
    if let Some(mut p) = proc {
        let _ = p.stdin.write_all(b"Q\n");
        let _ = p.stdin.flush();
        drop(p.stdin);
        let _ = p.child.wait();
    }
    mon.pid.store(0, Ordering::SeqCst);
}

fn monitor_thread(tier: Tier, rundir: &str, mons: &[Mon], stop: &AtomicBool) {
    let wd = Duration::from_secs(watchdog_secs(tier));
    let slots: Vec<Slot> = (0..mons.len()).map(|i| Slot::open(&format!("{rundir}/w{i}.slot"))).collect();
    let mut last: Vec<(u64, Instant)> = (0..mons.len()).map(|_| (0u64, Instant::now())).collect();
    while !stop.load(Ordering::SeqCst) {
        std::thread::sleep(Duration::from_millis(250));
        for (i, m) in mons.iter().enumerate() {
            let (seq, _) = slots[i].read();
            if !m.busy.load(Ordering::SeqCst) || seq != last[i].0 {
                last[i] = (seq, Instant::now());
                continue;
            }
            if last[i].1.elapsed() > wd {
                let pid = m.pid.load(Ordering::SeqCst);
                if pid > 0 {
                    m.hang_killed.store(true, Ordering::SeqCst);
                    unsafe {
                        libc::kill(pid, libc::SIGKILL);
                    }
                }
                last[i] = (seq, Instant::now());
            }
        }
    }
}

fn count_distinct(rundir: &str, nworkers: usize) -> (u64, u64) {
    let mut all: Vec<u64> = Vec::new();
    for i in 0..nworkers {
        if let Ok(b) = std::fs::read(format!("{rundir}/w{i}.hashes")) {
            for c in b.chunks_exact(8) {
                all.push(u64::from_le_bytes(c.try_into().unwrap()));
            }
        }
    }
    all.sort_unstable();
    all.dedup();
    let nt = all.iter().filter(|h| *h & 1 == 1).count() as u64;
    (all.len() as u64, nt)
}

fn replay_path(id: &str, key: &str) -> String {
    format!("{}/replays/{}-{:016x}.json", verif_root(), id, hash_bytes(key.as_bytes()))
}

fn write_replay(id: &str, tier: Tier, key: &str, sig: &str, what: &str, detail: &Value, rendered: &Value) -> String {
    let path = replay_path(id, key);
    let _ = std::fs::create_dir_all(format!("{}/replays", verif_root()));
    let v = json!({
        "property": id, "tier": tier.name(), "key": key, "signature": sig, "what": what,
        "detail": detail, "input": rendered,
        "replay_cmd": format!("./check {} --replay {}", id, path),
    });
    std::fs::write(&path, serde_json::to_string_pretty(&v).unwrap()).expect("MACHINERY: cannot write replay");
    path
}

/// The controller: returns the process exit code.
pub fn run(id: &str, tier: Tier) -> i32 {
    let t0 = Instant::now();
    let driver = props::registry(id);
    let rd = RunDir::create();
    let rundir = rd.0.clone();
    let known_all = known::load();
    if std::env::var("L21_DEADLINE_UNIX").is_err() {
        std::env::set_var("L21_DEADLINE_UNIX", (now_unix() + time_cap_secs(tier)).to_string());
    }
    let units = driver.units(tier);
    let nunits = units.len();
    if nunits == 0 {
        println!("MACHINERY: property {id} has no work units");
        return 2;
    }
    let nworkers = NWORKERS.min(nunits).max(1);
    let sh = Shared {
        queue: Mutex::new(units.into_iter().collect()),
        stats: Mutex::new(Stats::default()),
        crashes: Mutex::new(vec![]),
        fatal: Mutex::new(vec![]),
        units_done: Mutex::new(0),
    };
    let mons: Vec<Mon> = (0..nworkers)
        .map(|_| Mon { pid: AtomicI32::new(0), busy: AtomicBool::new(false), hang_killed: AtomicBool::new(false) })
        .collect();
    // create the slot files up front
    for i in 0..nworkers {
        let _ = Slot::open(&format!("{rundir}/w{i}.slot"));
    }
    let stop = AtomicBool::new(false);
    std::thread::scope(|s| {
        let mon_handle = s.spawn(|| monitor_thread(tier, &rundir, &mons, &stop));
        let mut hs = vec![];
        for i in 0..nworkers {
            let (sh, mon, rundir) = (&sh, &mons[i], &rundir);
            hs.push(s.spawn(move || worker_thread(id, tier, i, rundir, sh, mon)));
        }
        for h in hs {
            let _ = h.join();
        }
        stop.store(true, Ordering::SeqCst);
        let _ = mon_handle.join();
    });
    let mut stats = std::mem::take(&mut *sh.stats.lock().unwrap());
    let mut crashes = std::mem::take(&mut *sh.crashes.lock().unwrap());
    crashes.sort_by(|a, b| (a.key.len(), &a.key).cmp(&(b.key.len(), &b.key)));
    let mut fatal = std::mem::take(&mut *sh.fatal.lock().unwrap());
    fatal.extend(stats.machinery_errors.iter().cloned());
    let units_done = *sh.units_done.lock().unwrap();
    let (hashed, hashed_nt) = count_distinct(&rundir, nworkers);
    let distinct = hashed + stats.bulk_states;
    let distinct_nt = hashed_nt + stats.bulk_nontrivial;

    // crashes -> known findings or violations
    let enabled = known::enabled_for(id);
    for c in &crashes {
        let finding = driver.classify_crash(tier, &c.key, &c.death);
        let what = format!("{} at case {}", c.death.describe(), c.key);
        stats.executions += 1;
        *stats.outcomes.entry(format!("crash:{:?}", c.death)).or_default() += 1;
        match finding {
            Some(f) if enabled.contains(&f) => {
                let e = stats.known.entry(f).or_default();
                if e.count == 0 {
                    e.first_key = c.key.clone();
                    e.first_what = what;
                }
                e.count += 1;
            }
            f => {
                stats.violations += 1;
                let sig = match f {
                    Some(f) => format!("crash:{:?}[{}]", c.death, f),
                    None => format!("crash:{:?}", c.death),
                };
                *stats.viol_by_sig.entry(sig.clone()).or_default() += 1;
                if stats.viol_examples.iter().filter(|v| v.sig == sig).count() < 2 {
                    stats.viol_examples.push(Viol {
                        key: c.key.clone(),
                        sig,
                        what,
                        detail: json!({"death": c.death.describe(), "stderr_tail": c.stderr_tail}),
                    });
                }
            }
        }
    }

    if fatal.is_empty() && units_done != nunits as u64 {
        fatal.push(format!("only {units_done} of {nunits} units completed"));
    }
    if fatal.is_empty() && stats.violations == 0 {
        if let Err(e) = driver.guards(tier, &stats, distinct) {
            fatal.push(e);
        }
        if distinct_nt < 2 {
            fatal.push(format!("vacuity guard: only {distinct_nt} distinct non-trivial states"));
        }
    }

    let wall = t0.elapsed().as_secs_f64();
    let capped = !stats.caps_hit.is_empty();
    let ev = evidence::build(driver.as_ref(), tier, &stats, distinct, distinct_nt, wall, nworkers, nunits, crashes.len(), capped, &known_all);
    if let Err(e) = evidence::write(id, &ev) {
        fatal.push(format!("cannot write evidence: {e}"));
    }

    // interface lines
    for (name, hit) in &stats.known {
        let desc = known_all.iter().find(|k| k.property == id && k.matcher == *name).map(|k| k.text.clone()).unwrap_or_default();
        println!(
            "KNOWN-FINDING: property={} {} — {} [{} case(s) this run; first: {} ({})]",
            id,
            name,
            desc,
            hit.count,
            hit.first_key,
            truncate(&hit.first_what, 200)
        );
    }
    let mut printed: BTreeSet<String> = BTreeSet::new();
    stats.viol_examples.sort_by(|a, b| (a.sig.as_str(), key_order(&a.key)).cmp(&(b.sig.as_str(), key_order(&b.key))));
    for v in &stats.viol_examples {
        if !printed.insert(v.sig.clone()) || printed.len() > 25 {
            continue;
        }
        let base_key = v.key.clone();
        let rendered = driver.render_case(tier, &base_key);
        let path = write_replay(id, tier, &base_key, &v.sig, &v.what, &v.detail, &rendered);
        println!("VIOLATION property={} replay={}", id, path);
        println!(
            "  kind={} count={} what={}",
            v.sig,
            stats.viol_by_sig.get(&v.sig).copied().unwrap_or(0),
            truncate(&v.what, 400)
        );
    }
    println!(
        "SUMMARY property={} tier={} executions={} evaluations={} states={} nontrivial={} violations={} known_findings={} crashes={} units={} workers={} caps={:?} wall_s={:.1}",
        id,
        tier.name(),
        stats.executions,
        stats.evaluations.max(stats.executions),
        distinct,
        distinct_nt,
        stats.violations,
        stats.known.len(),
        crashes.len(),
        nunits,
        nworkers,
        stats.caps_hit,
        wall
    );
    if !fatal.is_empty() {
        for f in fatal.iter().take(10) {
            println!("MACHINERY: {}", f);
        }
        // a violation that was found and confirmed stands (its VIOLATION line and replay file are out): machinery
        // trouble elsewhere in the same run does not turn the verdict into "no answer"
        if stats.violations > 0 {
            return 1;
        }
        return 2;
    }
    if stats.violations > 0 {
        return 1;
    }
    0
}

/// Re-execute one recorded case without the explorer.
pub fn replay(file: &str) -> i32 {
    let txt = match std::fs::read_to_string(file) {
        Ok(t) => t,
        Err(e) => {
            println!("MACHINERY: cannot read replay file {file}: {e}");
            return 2;
        }
    };
    let v: Value = match serde_json::from_str(&txt) {
        Ok(v) => v,
        Err(e) => {
            println!("MACHINERY: bad replay file: {e}");
            return 2;
        }
    };
    let id = v["property"].as_str().unwrap_or("").to_string();
    let tier = Tier::parse(v["tier"].as_str().unwrap_or("quick"));
    let key = v["key"].as_str().unwrap_or("").to_string();
    let rd = RunDir::create();
    let driver = props::registry(&id);
    let enabled = known::enabled_for(&id);
    let wd = Duration::from_secs(watchdog_secs(tier));
    let r1 = run_case_sandboxed(&id, tier, &key, &rd.0, wd);
    let r2 = run_case_sandboxed(&id, tier, &key, &rd.0, wd);
    match (r1, r2) {
        (Ok(s1), Ok(s2)) => {
            if s1.violations != s2.violations || s1.known.len() != s2.known.len() {
                println!("MACHINERY: replay is not deterministic ({} vs {} violations)", s1.violations, s2.violations);
                return 2;
            }
            for (n, h) in &s1.known {
                println!("KNOWN-FINDING: property={} {} [{}]", id, n, truncate(&h.first_what, 300));
            }
            if s1.violations > 0 {
                println!("VIOLATION property={} replay={}", id, file);
                for e in &s1.viol_examples {
                    println!("  kind={} what={}", e.sig, truncate(&e.what, 600));
                }
                return 1;
            }
            println!("REPLAY property={} case {} holds", id, key);
            0
        }
        (Err(d1), Err(d2)) if d1 == d2 => {
            let f = driver.classify_crash(tier, &key, &d1);
            match f {
                Some(f) if enabled.contains(&f) => {
                    println!("KNOWN-FINDING: property={} {} [{}]", id, f, d1.describe());
                    0
                }
                _ => {
                    println!("VIOLATION property={} replay={}", id, file);
                    println!("  kind=crash what={}", d1.describe());
                    1
                }
            }
        }
        (a, b) => {
            println!("MACHINERY: replay is not deterministic ({:?} vs {:?})", a.err(), b.err());
            2
        }
    }
}
