//! l21mc — bounded-exhaustive exploration of Layout21 against reference models.
//!
//!   l21mc run <Cxx> <quick|thorough>
//!   l21mc replay <file>
//!   l21mc list
//!   (internal) l21mc worker <Cxx> <tier> <idx> <rundir>
//!   (internal) l21mc case <Cxx> <tier> <key> <rundir>

pub mod core;
pub mod evidence;
pub mod explore;
pub mod known;
pub mod props;
pub mod refmodel;
pub mod sandbox;

fn main() {
    let args: Vec<String> = std::env::args().collect();
    let code = match args.get(1).map(|s| s.as_str()) {
        Some("run") if args.len() >= 4 => sandbox::run(&args[2], core::Tier::parse(&args[3])),
        Some("replay") if args.len() >= 3 => sandbox::replay(&args[2]),
        Some("worker") if args.len() >= 6 => {
            sandbox::worker_main(&args[2], core::Tier::parse(&args[3]), args[4].parse().unwrap(), &args[5])
        }
        Some("case") if args.len() >= 6 => sandbox::case_main(&args[2], core::Tier::parse(&args[3]), &args[4], &args[5]),
        Some("aux") if args.len() >= 3 => sandbox::aux_main(&args[2], &args[3..]),
        // stand-alone GDSII reader, run under cachegrind by C10's linear-time part
        Some("gdsread") if args.len() >= 3 => props::c10::gdsread_main(&args[2]),
        // stand-alone LEF reader, run under cachegrind by C11's linear-time part
        Some("lefread") if args.len() >= 3 => props::c11lin::lefread_main(&args[2]),
        Some("list") => {
            for id in props::ALL {
                println!("{id}");
            }
            0
        }
        _ => {
            eprintln!("usage: l21mc run <Cxx> <quick|thorough> | replay <file> | list");
            2
        }
    };
    std::process::exit(code);
}
