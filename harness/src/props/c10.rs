//! C10 — the GDSII reader never crashes or hangs; truncated streams are never accepted; accepted => re-writable.
//!
//! Fault enumeration on base streams (reference-encoder streams + the repository's tracked .gds files):
//!   T  every truncation point
//!   F  every single-record fault at every record position
//!   P  pairs of faults on the 18 smallest bases (thorough)
//!   S  every record sequence of bounded length after every parser context
//!   HL / HT  header space: all 65 536 length values at 3 positions; all 256 x 256 (record type, data type) pairs
//!   N  VERIF_SEED byte noise (thorough; labelled supplement, never the deciding step)
//!
//! Oracle per stream: `from_bytes` returns (sandbox watchdog) without panic; a strict prefix of a valid
//! stream that ends before the end of ENDLIB is never Ok; every Ok(lib): write(lib) = Ok(b), from_bytes(b) == lib.

use crate::core::*;
use crate::props::c01::{debug_diff, is_read_str_len0_panic, ref_self_check, write_lib};
use crate::props::gdsgen::*;
use crate::refmodel::gdsstream::{self as gs, dt, rt, Kind, Rec};
use gds21::{GdsElement, GdsError, GdsLibrary};
use serde_json::{json, Value};
use std::sync::OnceLock;

pub const F_EMPTY: &str = "gds_zero_length_string_record_read_panic";
pub const F_REAL_TINY: &str = "gds_real_below_writer_range";
pub const F_REAL_TOP: &str = "gds_real_rounds_up_to_16pow63";

// -------------------------------------------------------------------------------------------------
// Base streams
// -------------------------------------------------------------------------------------------------

pub struct Base {
    pub name: String,
    pub bytes: Vec<u8>,
    /// loose split (headers only, no table check)
    pub recs: Vec<Rec>,
    /// byte offset of every record (+ end)
    pub offs: Vec<usize>,
    /// Some(n): the reference decoder accepts the stream; n = bytes up to and including ENDLIB
    pub valid_len: Option<usize>,
}

pub const REPO_FILES: [&str; 7] = [
    "gds21/resources/has_properties.gds",
    "gds21/resources/invalid_dates.gds",
    "gds21/resources/sample1.gds",
    "layout21converters/resources/sky130_fd_sc_hd__dfxtp_1.gds",
    "layout21converters/resources/sky130_fd_sc_hd__dfxtp_1.roundtrip.gds",
    "layout21raw/resources/dff1_lib.golden.gds",
    "layout21tetris/resources/ginv.gds",
];

/// framing only: follow the length fields; stops at ENDLIB, at a length < 4 or at the end of the bytes
pub fn split_loose(b: &[u8]) -> (Vec<Rec>, Vec<usize>) {
    let mut recs = vec![];
    let mut offs = vec![];
    let mut pos = 0usize;
    while pos + 4 <= b.len() {
        let len = ((b[pos] as usize) << 8) | b[pos + 1] as usize;
        if len < 4 {
            break;
        }
        let end = (pos + len).min(b.len());
        offs.push(pos);
        recs.push(Rec::new(b[pos + 2], b[pos + 3], b[pos + 4..end].to_vec()));
        pos = end;
        if b[offs[offs.len() - 1] + 2] == rt::ENDLIB {
            break;
        }
    }
    offs.push(pos);
    (recs, offs)
}

fn lib_of(structs: Vec<gs::RStruct>) -> gs::RLib {
    let mut l = fixed_header();
    l.structs = structs;
    l
}
fn struct_of(si: usize, elems: Vec<gs::RElem>) -> gs::RStruct {
    let mut s = fixed_struct(si);
    s.elems = elems;
    s
}

fn generated_bases() -> Vec<(String, gs::RLib)> {
    let mut v: Vec<(String, gs::RLib)> = vec![];
    v.push(("g:empty-lib".into(), lib_of(vec![])));
    v.push(("g:empty-struct".into(), lib_of(vec![struct_of(0, vec![])])));
    for k in Kind::ALL {
        v.push((format!("g:{}-min", k.name()), lib_of(vec![struct_of(0, vec![fixed_elem(k, false, 0)])])));
        v.push((format!("g:{}-full", k.name()), lib_of(vec![struct_of(0, vec![fixed_elem(k, true, 0)])])));
    }
    // strans variants
    for (n, flags, mag, angle) in [("flags-only", gs::STRANS_ABS_MAG, false, false), ("mag-only", 0, true, false), ("angle-only", gs::STRANS_REFLECT, false, true)] {
        let mut e = fixed_elem(Kind::Sref, false, 0);
        e.strans = Some(gs::RStrans { flags, mag: mag.then(|| real_raw(2.5)), angle: angle.then(|| real_raw(90.0)) });
        v.push((format!("g:sref-strans-{n}"), lib_of(vec![struct_of(0, vec![e])])));
    }
    // property lists
    let mut e = fixed_elem(Kind::Boundary, false, 0);
    for i in 0..5 {
        e.props.push((100 + i, format!("value{i}").repeat(i as usize + 1).into_bytes()));
    }
    v.push(("g:boundary-5-props".into(), lib_of(vec![struct_of(0, vec![e])])));
    // strings: odd, even, non-ASCII
    let mut l = lib_of(vec![struct_of(0, vec![fixed_elem(Kind::Text, false, 0)])]);
    l.name = "odd".into();
    l.structs[0].name = "\u{e9}\u{20ac}".into();
    l.structs[0].elems[0].string = "\0".into();
    v.push(("g:strings-mixed".into(), l));
    // multi-struct
    v.push(("g:two-structs-all-kinds-min".into(), lib_of(vec![struct_of(0, Kind::ALL.iter().enumerate().map(|(i, k)| fixed_elem(*k, false, i)).collect()), struct_of(1, vec![])])));
    v.push((
        "g:two-structs-all-kinds-full".into(),
        lib_of(vec![
            struct_of(0, Kind::ALL.iter().enumerate().map(|(i, k)| fixed_elem(*k, true, i)).collect()),
            struct_of(1, Kind::ALL.iter().rev().enumerate().map(|(i, k)| fixed_elem(*k, i % 2 == 0, i + 7)).collect()),
        ]),
    ));
    // longer coordinate lists
    let mut e = fixed_elem(Kind::Boundary, false, 0);
    e.xy = (0..50).flat_map(|i| [i * 10, -i * 20]).collect();
    let mut p = fixed_elem(Kind::Path, true, 1);
    p.xy = (0..200).flat_map(|i| [i * 3, i * i]).collect();
    v.push(("g:long-xy".into(), lib_of(vec![struct_of(0, vec![e, p])])));
    // a larger library: 24 structures x all kinds
    let structs = (0..24)
        .map(|s| {
            let mut st = struct_of(s % 2, Kind::ALL.iter().enumerate().map(|(i, k)| fixed_elem(*k, (i + s) % 2 == 0, i)).collect());
            st.name = format!("cell_{s}").into_bytes();
            st
        })
        .collect();
    v.push(("g:large-24-structs".into(), lib_of(structs)));
    v
}

pub fn bases() -> &'static Vec<Base> {
    static B: OnceLock<Vec<Base>> = OnceLock::new();
    B.get_or_init(|| {
        let mut out = vec![];
        let mk = |name: String, bytes: Vec<u8>| {
            let (recs, offs) = split_loose(&bytes);
            let valid_len = gs::decode(&bytes).ok().map(|d| d.consumed);
            Base { name, bytes, recs, offs, valid_len }
        };
        for (n, l) in generated_bases() {
            let b = gs::roundtrip_check(&l).unwrap_or_else(|e| panic!("MACHINERY: base {n}: {e}"));
            out.push(mk(n, b));
        }
        let root = format!("{}/.repo", crate::sandbox::verif_root());
        for f in REPO_FILES {
            let b = std::fs::read(format!("{root}/{f}")).unwrap_or_else(|e| panic!("MACHINERY: cannot read repository resource {f}: {e}"));
            out.push(mk(format!("r:{f}"), b));
        }
        out
    })
}

fn is_small(b: &Base) -> bool {
    b.recs.len() <= 64
}

// -------------------------------------------------------------------------------------------------
// Record alphabet and single-record faults
// -------------------------------------------------------------------------------------------------

const UNRELEASED: [u8; 10] = [rt::TEXTNODE, rt::SPACING, rt::UINTEGER, rt::USTRING, rt::STYPTABLE, rt::STRTYPE, rt::ELKEY, rt::LINKTYPE, rt::LINKKEYS, rt::RESERVED];

fn minimal_payload(t: u8, d: u8, size: gs::Size) -> Vec<u8> {
    let n = match size {
        gs::Size::Exact(n) => n,
        gs::Size::Str => 2,
        gs::Size::Multiple(n) => n,
        gs::Size::MultipleOrZero(n) => n,
    };
    match d {
        dt::STR => {
            let mut v = b"ab".to_vec();
            v.resize(n, 0);
            v
        }
        dt::F64 => (0..n / 8).flat_map(|_| [0x41u8, 0x10, 0, 0, 0, 0, 0, 0]).collect(),
        dt::I16 => (0..n / 2).flat_map(|i| [0u8, (i as u8 + 1 + t) & 0x7f]).collect(),
        dt::I32 => (0..n / 4).flat_map(|i| [0u8, 0, 1, i as u8 + 2]).collect(),
        dt::BITS => vec![0x80, 0x06],
        _ => vec![],
    }
}

/// The typed record alphabet. `full`: every defined record type with its minimal valid payload, plus a
/// zero-length and a wrong-size variant, the ten unreleased record types, and XY with 3 / 5 points.
/// `!full`: the minimal valid payloads and the unreleased types only.
pub fn alphabet(full: bool) -> &'static Vec<Rec> {
    static A: [OnceLock<Vec<Rec>>; 2] = [OnceLock::new(), OnceLock::new()];
    A[full as usize].get_or_init(|| {
        let mut v = vec![];
        for t in 0..rt::COUNT {
            if let Some((_, d, size)) = gs::spec(t) {
                v.push(Rec::new(t, d, minimal_payload(t, d, size)));
            }
        }
        for t in UNRELEASED {
            v.push(Rec::new(t, dt::NONE, vec![]));
        }
        if full {
            for t in 0..rt::COUNT {
                if let Some((_, d, size)) = gs::spec(t) {
                    let p = minimal_payload(t, d, size);
                    if !p.is_empty() {
                        v.push(Rec::new(t, d, vec![])); // zero-length variant
                    }
                    let mut w = p.clone();
                    w.extend_from_slice(&[0, 1]); // wrong-size variant (for strings: a longer, odd-content string)
                    v.push(Rec::new(t, d, w));
                }
            }
            v.push(gs::r_i32(rt::XY, &[1, 2, 3, 4, 5, 6]));
            v.push(gs::r_i32(rt::XY, &[0, 0, 0, 5, 5, 5, 5, 0, 0, 0]));
            v.push(Rec::new(rt::STRING, dt::STR, vec![b'a', 0]));
        }
        v
    })
}

const RTYPE_SAMPLE: [u8; 7] = [0x3c, 0x3d, 0x40, 0x7f, 0x80, 0xfe, 0xff];
const DTYPES: [u8; 9] = [0, 1, 2, 3, 4, 5, 6, 7, 255];
pub const F64_VALUES: [u64; 16] = [
    0,
    0x0000_0000_0000_0001,
    0x8000_0000_0000_0000,
    0x7fff_ffff_ffff_ffff,
    0xffff_ffff_ffff_ffff,
    0x0010_0000_0000_0000,
    0x000f_ffff_ffff_ffff,
    0x8000_0000_0000_1000,
    // the top exponent band (16^62 .. 16^63): smallest, middle, negative
    0x7f10_0000_0000_0000,
    0x7f80_0000_0000_0001,
    0xff10_0000_0000_0000,
    // the second-lowest hexade, un-normalised mantissas at a middle exponent, 56 significant bits (rounds up), 1 + 2^-52
    0x0110_0000_0000_0000,
    0x4100_0000_0000_0001,
    0x4101_0000_0000_0000,
    0x40ff_ffff_ffff_ffff,
    0x4110_0000_0000_0001,
];

/// integer words: zero, small, around the calendar-year conventions (1900, 2100, 3800), a high byte of noise, limits
pub const INT_WORDS: [i32; 12] = [0, 1, -1, 1899, 1900, 2100, 3799, 3801, 0x1000, 0x7fff, -0x8000, 0x7fff_ffff];

#[derive(Clone, Debug, PartialEq)]
pub enum Fault {
    /// set the 16-bit length field (payload bytes stay where they are)
    Len(LenF),
    /// length 4, payload removed
    Empty,
    Rtype(u8),
    Dtype(u8),
    Delete,
    Dup,
    Swap,
    /// a whole element of this kind (all optional records) inserted before the record
    Splice(usize),
    /// record replaced by / preceded by the i-th record of the minimal alphabet
    Replace(usize),
    Insert(usize),
    F64(usize, usize),
    /// the 16-bit word `slot` of a two-byte-integer record / the 32-bit word `slot` of a four-byte-integer record
    /// replaced by the i-th value of `INT_WORDS`
    Int(usize, usize),
    /// the payload of a string record replaced by the i-th byte string of `STR_PAYLOADS` (mostly not valid UTF-8)
    Str(usize),
}
/// string payloads: cut-short multi-byte sequences (with and without NUL padding), stray continuation bytes,
/// overlong / surrogate encodings, Latin-1 bytes, a long run of 0xFF
pub fn str_payloads() -> &'static Vec<Vec<u8>> {
    static T: OnceLock<Vec<Vec<u8>>> = OnceLock::new();
    T.get_or_init(|| {
        let mut v: Vec<Vec<u8>> = vec![
            vec![0xE2, 0x82, 0x00, 0x00],
            vec![0xE2, 0x82],
            vec![0xC3, 0x00],
            vec![0xC3],
            vec![b'a', 0x80],
            vec![0xFF, 0xFE],
            vec![0xC0, 0xAF],
            vec![0xED, 0xA0, 0x80, 0x00],
            vec![0xF0, 0x9F, 0x98, 0x00],
            vec![0xB5, b'm'],
            vec![b'a', 0x00, 0x00, 0x00],
        ];
        v.push(vec![0xFF; 30000]);
        v
    })
}
#[derive(Clone, Copy, Debug, PartialEq)]
pub enum LenF {
    Set(u16),
    Odd,
    Minus2,
    Plus2,
}

pub fn fault_table() -> &'static Vec<Fault> {
    static T: OnceLock<Vec<Fault>> = OnceLock::new();
    T.get_or_init(|| {
        let mut v = vec![];
        for l in [LenF::Set(0), LenF::Set(1), LenF::Set(2), LenF::Set(3), LenF::Odd, LenF::Minus2, LenF::Plus2, LenF::Set(0xfffe), LenF::Set(0xffff)] {
            v.push(Fault::Len(l));
        }
        v.push(Fault::Empty);
        for t in 0..rt::COUNT {
            v.push(Fault::Rtype(t));
        }
        for t in RTYPE_SAMPLE {
            v.push(Fault::Rtype(t));
        }
        for d in DTYPES {
            v.push(Fault::Dtype(d));
        }
        v.extend([Fault::Delete, Fault::Dup, Fault::Swap]);
        for k in 0..7 {
            v.push(Fault::Splice(k));
        }
        let n = alphabet(false).len();
        for i in 0..n {
            v.push(Fault::Replace(i));
        }
        for i in 0..n {
            v.push(Fault::Insert(i));
        }
        for slot in 0..2 {
            for val in 0..F64_VALUES.len() {
                v.push(Fault::F64(slot, val));
            }
        }
        for i in 0..str_payloads().len() {
            v.push(Fault::Str(i));
        }
        // the first word of an integer record, and words 6 and 11 (the access-time year and the last date word)
        for slot in [0usize, 6, 11] {
            for val in 0..INT_WORDS.len() {
                v.push(Fault::Int(slot, val));
            }
        }
        v
    })
}
/// the reduced fault list used for pairs
pub fn pair_faults() -> &'static Vec<Fault> {
    static T: OnceLock<Vec<Fault>> = OnceLock::new();
    T.get_or_init(|| {
        let a = alphabet(false);
        let ai = |t: u8| a.iter().position(|r| r.rtype == t).unwrap();
        vec![
            Fault::Len(LenF::Set(0)),
            Fault::Len(LenF::Odd),
            Fault::Len(LenF::Minus2),
            Fault::Len(LenF::Plus2),
            Fault::Len(LenF::Set(0xffff)),
            Fault::Empty,
            Fault::Delete,
            Fault::Dup,
            Fault::Swap,
            Fault::Rtype(rt::ENDLIB),
            Fault::Rtype(rt::ENDEL),
            Fault::Rtype(rt::ENDSTR),
            Fault::Rtype(rt::XY),
            Fault::Rtype(rt::STRING),
            Fault::Dtype(0),
            Fault::Dtype(6),
            Fault::Insert(ai(rt::ENDLIB)),
            Fault::Insert(ai(rt::PROPATTR)),
            Fault::Insert(ai(rt::STRANS)),
            Fault::Insert(ai(rt::MAG)),
            Fault::F64(0, 1),
            Fault::F64(0, 3),
        ]
    })
}

fn wire(r: &Rec) -> Vec<u8> {
    gs::records_to_bytes_raw(std::slice::from_ref(r))
}
fn splice_elem(k: usize) -> Vec<u8> {
    let mut recs = vec![];
    gs::elem_records(&fixed_elem(Kind::ALL[k], true, 3), &mut recs);
    gs::records_to_bytes_raw(&recs)
}

/// The bytes that replace records [pos, pos+span) of the base; None when the fault does not apply.
fn fault_patch(b: &Base, pos: usize, f: &Fault) -> Option<(Vec<u8>, usize)> {
    let r = &b.recs[pos];
    let raw = &b.bytes[b.offs[pos]..b.offs[pos + 1]];
    let with_len = |n: u16| {
        let mut v = raw.to_vec();
        v[0] = (n >> 8) as u8;
        v[1] = (n & 0xff) as u8;
        v
    };
    let cur = raw.len();
    Some(match f {
        Fault::Len(l) => {
            let n: i64 = match l {
                LenF::Set(n) => *n as i64,
                LenF::Odd => (cur as i64) | 1,
                LenF::Minus2 => cur as i64 - 2,
                LenF::Plus2 => cur as i64 + 2,
            };
            if n < 0 || n > 0xffff || n as usize == cur {
                return None;
            }
            (with_len(n as u16), 1)
        }
        Fault::Empty => {
            if r.payload.is_empty() {
                return None;
            }
            (wire(&Rec::new(r.rtype, r.dtype, vec![])), 1)
        }
        Fault::Rtype(t) => {
            if *t == r.rtype {
                return None;
            }
            let mut v = raw.to_vec();
            v[2] = *t;
            (v, 1)
        }
        Fault::Dtype(d) => {
            if *d == r.dtype {
                return None;
            }
            let mut v = raw.to_vec();
            v[3] = *d;
            (v, 1)
        }
        Fault::Delete => (vec![], 1),
        Fault::Dup => {
            let mut v = raw.to_vec();
            v.extend_from_slice(raw);
            (v, 1)
        }
        Fault::Swap => {
            if pos + 1 >= b.recs.len() {
                return None;
            }
            let nxt = &b.bytes[b.offs[pos + 1]..b.offs[pos + 2]];
            if nxt == raw {
                return None;
            }
            let mut v = nxt.to_vec();
            v.extend_from_slice(raw);
            (v, 2)
        }
        Fault::Splice(k) => {
            let mut v = splice_elem(*k);
            v.extend_from_slice(raw);
            (v, 1)
        }
        Fault::Replace(i) => {
            let a = &alphabet(false)[*i];
            if a == r {
                return None;
            }
            (wire(a), 1)
        }
        Fault::Insert(i) => {
            let mut v = wire(&alphabet(false)[*i]);
            v.extend_from_slice(raw);
            (v, 1)
        }
        Fault::Str(i) => {
            if r.dtype != dt::STR {
                return None;
            }
            let pl = &str_payloads()[*i];
            if *pl == r.payload {
                return None;
            }
            (wire(&Rec::new(r.rtype, r.dtype, pl.clone())), 1)
        }
        Fault::Int(slot, val) => {
            let width = if r.dtype == dt::I16 { 2 } else if r.dtype == dt::I32 { 4 } else { return None };
            if raw.len() < 4 + width * (slot + 1) {
                return None;
            }
            let x = INT_WORDS[*val];
            if width == 2 && (x > 0x7fff || x < -0x8000) {
                return None;
            }
            let mut v = raw.to_vec();
            for k in 0..width {
                v[4 + width * slot + k] = ((x as u32) >> (8 * (width - 1 - k))) as u8;
            }
            if v == raw {
                return None;
            }
            (v, 1)
        }
        Fault::F64(slot, val) => {
            if r.dtype != dt::F64 || raw.len() < 4 + 8 * (slot + 1) {
                return None;
            }
            let mut v = raw.to_vec();
            let x = F64_VALUES[*val];
            for k in 0..8 {
                v[4 + 8 * slot + k] = (x >> (8 * (7 - k))) as u8;
            }
            if v == raw {
                return None;
            }
            (v, 1)
        }
    })
}

fn apply_one(b: &Base, pos: usize, f: &Fault) -> Option<Vec<u8>> {
    let (patch, span) = fault_patch(b, pos, f)?;
    let mut out = Vec::with_capacity(b.bytes.len() + patch.len());
    out.extend_from_slice(&b.bytes[..b.offs[pos]]);
    out.extend_from_slice(&patch);
    out.extend_from_slice(&b.bytes[b.offs[pos + span]..]);
    Some(out)
}
/// two faults at positions i < j (j beyond the span of the first)
fn apply_two(b: &Base, i: usize, f: &Fault, j: usize, g: &Fault) -> Option<Vec<u8>> {
    let (p1, s1) = fault_patch(b, i, f)?;
    if j < i + s1 {
        return None;
    }
    let (p2, s2) = fault_patch(b, j, g)?;
    let mut out = Vec::with_capacity(b.bytes.len() + p1.len() + p2.len());
    out.extend_from_slice(&b.bytes[..b.offs[i]]);
    out.extend_from_slice(&p1);
    out.extend_from_slice(&b.bytes[b.offs[i + s1]..b.offs[j]]);
    out.extend_from_slice(&p2);
    out.extend_from_slice(&b.bytes[b.offs[j + s2]..]);
    Some(out)
}

// -------------------------------------------------------------------------------------------------
// Parser contexts
// -------------------------------------------------------------------------------------------------

pub struct Context {
    pub name: String,
    pub prefix: Vec<u8>,
    pub completion: Vec<u8>,
}

pub fn contexts() -> &'static Vec<Context> {
    static C: OnceLock<Vec<Context>> = OnceLock::new();
    C.get_or_init(|| {
        let mut out = vec![];
        let head = {
            let l = fixed_header();
            let r = gs::lib_records(&l);
            r[..r.len() - 1].to_vec() // HEADER BGNLIB LIBNAME UNITS
        };
        let s = fixed_struct(0);
        let bs = gs::r_i16(rt::BGNSTR, &s.dates);
        let sn = gs::r_str(rt::STRNAME, &s.name);
        let es = gs::r_none(rt::ENDSTR);
        let el = gs::r_none(rt::ENDLIB);
        let ee = gs::r_none(rt::ENDEL);
        let mut add = |name: &str, prefix: Vec<Rec>, completion: Vec<Rec>| {
            out.push(Context { name: name.to_string(), prefix: gs::records_to_bytes_raw(&prefix), completion: gs::records_to_bytes_raw(&completion) });
        };
        // library level: after each of the first k header records
        let names = ["start", "after-header", "after-bgnlib", "after-libname", "after-units"];
        for k in 0..=4 {
            let mut comp = head[k..].to_vec();
            comp.push(el.clone());
            add(names[k], head[..k].to_vec(), comp);
        }
        let mut p = head.clone();
        p.push(bs.clone());
        add("after-bgnstr", p.clone(), vec![sn.clone(), es.clone(), el.clone()]);
        p.push(sn.clone());
        add("in-struct", p.clone(), vec![es.clone(), el.clone()]);
        let in_struct = p.clone();
        p.push(es.clone());
        add("after-endstr", p.clone(), vec![el.clone()]);
        p.push(el.clone());
        add("after-endlib", p.clone(), vec![]);
        let tail = vec![es.clone(), el.clone()];
        // element level
        for k in Kind::ALL {
            let mut recs = vec![];
            gs::elem_records(&fixed_elem(k, false, 0), &mut recs);
            // recs = START ... XY [STRING] ENDEL
            let xy = recs.iter().position(|r| r.rtype == rt::XY).unwrap();
            let with = |n: usize| {
                let mut v = in_struct.clone();
                v.extend_from_slice(&recs[..n]);
                v
            };
            let rest = |n: usize| {
                let mut v = recs[n..].to_vec();
                v.extend(tail.clone());
                v
            };
            add(&format!("{}-start", k.name()), with(1), rest(1));
            add(&format!("{}-after-xy", k.name()), with(xy + 1), rest(xy + 1));
        }
        // after STRANS / MAG
        for k in [Kind::Sref, Kind::Aref, Kind::Text] {
            let mut e = fixed_elem(k, false, 0);
            e.strans = Some(gs::RStrans { flags: gs::STRANS_REFLECT, mag: Some(real_raw(2.5)), angle: None });
            let mut recs = vec![];
            gs::elem_records(&e, &mut recs);
            let st = recs.iter().position(|r| r.rtype == rt::STRANS).unwrap();
            let mut pre = in_struct.clone();
            pre.extend_from_slice(&recs[..st + 1]);
            let mut comp = recs[st + 2..].to_vec();
            comp.extend(tail.clone());
            add(&format!("{}-after-strans", k.name()), pre.clone(), comp.clone());
            if k == Kind::Sref {
                pre.push(recs[st + 1].clone());
                add("sref-after-mag", pre, comp);
            }
        }
        // properties
        let mut recs = vec![];
        gs::elem_records(&fixed_elem(Kind::Boundary, false, 0), &mut recs);
        let mut pre = in_struct.clone();
        pre.extend_from_slice(&recs[..recs.len() - 1]);
        pre.push(gs::r_i16(rt::PROPATTR, &[31]));
        let pv = gs::r_str(rt::PROPVALUE, b"pv");
        add("after-propattr", pre.clone(), vec![pv.clone(), ee.clone(), es.clone(), el.clone()]);
        pre.push(pv);
        add("after-propvalue", pre.clone(), vec![ee.clone(), es.clone(), el.clone()]);
        pre.push(ee.clone());
        add("after-endel", pre, vec![es.clone(), el.clone()]);
        out
    })
}

// -------------------------------------------------------------------------------------------------
// Input-side predicates of the recorded defect classes
// -------------------------------------------------------------------------------------------------

const STRING_RECORDS: [u8; 10] = [rt::LIBNAME, rt::STRNAME, rt::SNAME, rt::STRING, rt::REFLIBS, rt::FONTS, rt::ATTRTABLE, rt::PROPVALUE, rt::MASK, rt::SRFNAME];

/// the stream (followed by its length fields) contains a string record with a zero-length payload
pub fn has_zero_length_string_record(b: &[u8]) -> bool {
    let mut pos = 0usize;
    while pos + 4 <= b.len() {
        let len = ((b[pos] as usize) << 8) | b[pos + 1] as usize;
        if len < 4 || len % 2 != 0 {
            return false;
        }
        if len == 4 && b[pos + 3] == dt::STR && STRING_RECORDS.contains(&b[pos + 2]) {
            return true;
        }
        if b[pos + 2] == rt::ENDLIB {
            return false;
        }
        pos += len;
    }
    false
}

#[derive(PartialEq, Clone, Copy)]
pub enum RealClass {
    Writable,
    /// non-zero and below 16^-65: the writer has no exponent for it
    Tiny,
    /// exponent byte 127 and a mantissa that rounds up to 2^56 as a double: the value read is 16^63
    Top,
}
pub fn real_class(r: u64) -> RealClass {
    let m = r & 0x00ff_ffff_ffff_ffff;
    let ex = (r >> 56) & 0x7f;
    if m == 0 {
        return RealClass::Writable;
    }
    if ex <= 13 && m < (1u64 << (4 * (13 - ex))) {
        return RealClass::Tiny;
    }
    if ex == 127 && m >= (1u64 << 56) - 4 {
        return RealClass::Top;
    }
    RealClass::Writable
}
/// classes of the reals carried by UNITS / MAG / ANGLE records of the stream (following its length fields)
pub fn real_classes(b: &[u8]) -> (bool, bool) {
    let (mut tiny, mut top) = (false, false);
    let mut pos = 0usize;
    while pos + 4 <= b.len() {
        let len = ((b[pos] as usize) << 8) | b[pos + 1] as usize;
        if len < 4 || len % 2 != 0 {
            break;
        }
        let (t, d) = (b[pos + 2], b[pos + 3]);
        let want = match t {
            rt::UNITS => 16,
            rt::MAG | rt::ANGLE => 8,
            _ => 0,
        };
        if want > 0 && d == dt::F64 && len - 4 == want && pos + len <= b.len() {
            for c in b[pos + 4..pos + len].chunks_exact(8) {
                let r = c.iter().fold(0u64, |a, x| (a << 8) | *x as u64);
                match real_class(r) {
                    RealClass::Tiny => tiny = true,
                    RealClass::Top => top = true,
                    RealClass::Writable => {}
                }
            }
        }
        if t == rt::ENDLIB {
            break;
        }
        pos += len;
    }
    (tiny, top)
}

fn mask_reals(l: &GdsLibrary) -> GdsLibrary {
    let mut m = l.clone();
    m.units = gds21::GdsUnits(0.0, 0.0);
    let fix = |s: &mut Option<gds21::GdsStrans>| {
        if let Some(s) = s {
            s.mag = s.mag.map(|_| 0.0);
            s.angle = s.angle.map(|_| 0.0);
        }
    };
    for s in &mut m.structs {
        for e in &mut s.elems {
            match e {
                GdsElement::GdsStructRef(x) => fix(&mut x.strans),
                GdsElement::GdsArrayRef(x) => fix(&mut x.strans),
                GdsElement::GdsTextElem(x) => fix(&mut x.strans),
                _ => {}
            }
        }
    }
    m
}

fn err_class(e: &GdsError) -> &'static str {
    match e {
        GdsError::RecordDecode(..) => "err:record-decode",
        GdsError::RecordLen(_) => "err:record-len",
        GdsError::InvalidDataType(_) => "err:invalid-data-type",
        GdsError::InvalidRecordType(_) => "err:invalid-record-type",
        GdsError::Unsupported(..) => "err:unsupported",
        GdsError::Parse { .. } => "err:parse",
        GdsError::Boxed(_) => "err:io-or-utf8",
        GdsError::Str(_) => "err:builder-or-coordinates",
    }
}

// -------------------------------------------------------------------------------------------------
// Oracle
// -------------------------------------------------------------------------------------------------

fn is_encode_overflow_panic(p: &PanicInfo) -> bool {
    p.loc.contains("gds21/src/data.rs") && p.msg.contains("overflow")
}

/// Following the length fields from byte 0, is a complete ENDLIB record ever reached? (If not, the stream
/// "ends before its end-of-library record" whatever else it contains.)
pub fn framing_reaches_endlib(b: &[u8]) -> bool {
    let mut pos = 0usize;
    while pos + 4 <= b.len() {
        let len = ((b[pos] as usize) << 8) | b[pos + 1] as usize;
        if len < 4 || pos + len > b.len() {
            return false;
        }
        if b[pos + 2] == rt::ENDLIB {
            return true;
        }
        pos += len;
    }
    false
}

/// Judge one stream.
pub fn judge(key: &str, bytes: &[u8], desc: &dyn Fn() -> String, cx: &mut Cx) {
    let must_err = !framing_reaches_endlib(bytes);
    if must_err {
        cx.tag("class:no-endlib-reachable");
    }
    let detail = || json!({"input": desc(), "stream": render_bytes(bytes, 1200)});
    let r = guard(|| GdsLibrary::from_bytes(bytes));
    let lib = match r {
        Err(p) => {
            let f = if has_zero_length_string_record(bytes) && is_read_str_len0_panic(&p) { Some(F_EMPTY) } else { None };
            cx.outcome("read-panic");
            cx.fail(key, "read-panic", f, || format!("from_bytes {} [{}]", p.short(), desc()), detail);
            return;
        }
        Ok(Err(e)) => {
            cx.outcome(err_class(&e));
            return;
        }
        Ok(Ok(l)) => l,
    };
    if must_err {
        cx.outcome("truncated-accepted");
        cx.fail(key, "truncated-accepted", None, || format!("accepted a stream in which no complete ENDLIB record is reachable by following the record lengths (it ends before its end-of-library record) [{}]", desc()), detail);
        return;
    }
    let (tiny, top) = real_classes(bytes);
    let real_finding = if tiny {
        Some(F_REAL_TINY)
    } else if top {
        Some(F_REAL_TOP)
    } else {
        None
    };
    let wbytes = match write_lib(&lib) {
        Err(p) => {
            let f = if is_encode_overflow_panic(&p) { real_finding } else { None };
            cx.outcome("ok-then-write-panic");
            cx.fail(key, "rewrite-panic", f, || format!("the accepted library cannot be written: {} [{}]", p.short(), desc()), detail);
            return;
        }
        Ok(Err(e)) => {
            cx.outcome("ok-then-write-err");
            cx.fail(key, "rewrite-err", None, || format!("the accepted library cannot be written: {e} [{}]", desc()), detail);
            return;
        }
        Ok(Ok(b)) => b,
    };
    match guard(|| GdsLibrary::from_bytes(&wbytes)) {
        Err(p) => {
            cx.outcome("ok-then-reread-panic");
            cx.fail(key, "reread-panic", None, || format!("re-reading the re-written library: {} [{}]", p.short(), desc()), detail);
        }
        Ok(Err(e)) => {
            cx.outcome("ok-then-reread-err");
            cx.fail(key, "reread-err", None, || format!("the re-written library is rejected: {} [{}]", truncate(&format!("{e:?}"), 160), desc()), detail);
        }
        Ok(Ok(back)) => {
            if back == lib {
                cx.outcome("ok-rewritable");
            } else {
                let f = if real_finding.is_some() && mask_reals(&back) == mask_reals(&lib) { real_finding } else { None };
                cx.outcome("ok-then-reread-differs");
                cx.fail(key, "reread-differs", f, || format!("write + read of the accepted library gives a different library: {} [{}]", debug_diff(&lib, &back), desc()), detail);
            }
        }
    }
}

// -------------------------------------------------------------------------------------------------
// Case construction from keys
// -------------------------------------------------------------------------------------------------

pub struct Built {
    pub bytes: Vec<u8>,
    /// a strict prefix of a base the reference decoder accepts, ending before the end of its ENDLIB
    pub strict_prefix_of_valid: bool,
    pub desc: String,
}

fn base_idx(name: &str) -> usize {
    bases().iter().position(|b| b.name == name).unwrap_or_else(|| panic!("MACHINERY: unknown base {name}"))
}

fn hl_base() -> &'static Base {
    &bases()[base_idx("g:boundary-full")]
}
fn hl_positions() -> [usize; 3] {
    let b = hl_base();
    [0, b.recs.iter().position(|r| r.rtype == rt::XY).unwrap(), b.recs.len() - 1]
}
fn ht_positions() -> [usize; 2] {
    let b = hl_base();
    [b.recs.iter().position(|r| r.rtype == rt::LAYER).unwrap(), b.recs.iter().position(|r| r.rtype == rt::ENDEL).unwrap()]
}

fn seq_bytes(ctx: &Context, alpha: &[Rec], seq: &[usize], tail: usize) -> Vec<u8> {
    let mut v = ctx.prefix.clone();
    for i in seq {
        let r = &alpha[*i];
        let n = r.wire_len() as u16;
        v.extend_from_slice(&[(n >> 8) as u8, n as u8, r.rtype, r.dtype]);
        v.extend_from_slice(&r.payload);
    }
    if tail == 1 {
        v.extend_from_slice(&ctx.completion);
    }
    v
}

fn xorshift(s: &mut u64) -> u64 {
    let mut x = *s;
    x ^= x << 13;
    x ^= x >> 7;
    x ^= x << 17;
    *s = x;
    x
}
const NOISE_PER_CHUNK: u64 = 4096;
const NOISE_CHUNKS: u64 = 64;
fn noise_case(seed: u64, idx: u64) -> (Vec<u8>, String) {
    let mut s = (seed ^ 0x9e37_79b9_7f4a_7c15).wrapping_add(idx.wrapping_mul(0xbf58_476d_1ce4_e5b9)) | 1;
    for _ in 0..4 {
        xorshift(&mut s);
    }
    let small: Vec<&Base> = bases().iter().filter(|b| is_small(b) && !b.bytes.is_empty()).collect();
    match idx % 3 {
        0 => {
            let n = (xorshift(&mut s) % 96) as usize;
            let v: Vec<u8> = (0..n).map(|_| xorshift(&mut s) as u8).collect();
            (v, format!("noise #{idx}: {n} random bytes"))
        }
        1 => {
            let b = small[(xorshift(&mut s) % small.len() as u64) as usize];
            let mut v = b.bytes.clone();
            let k = 1 + xorshift(&mut s) % 4;
            for _ in 0..k {
                let p = (xorshift(&mut s) % v.len() as u64) as usize;
                v[p] = xorshift(&mut s) as u8;
            }
            (v, format!("noise #{idx}: {k} random byte(s) overwritten in base {}", b.name))
        }
        _ => {
            // random well-framed records: valid headers from the alphabet, random payload bytes
            let a = alphabet(true);
            let mut v = contexts()[(xorshift(&mut s) % contexts().len() as u64) as usize].prefix.clone();
            let k = 1 + xorshift(&mut s) % 6;
            for _ in 0..k {
                let r = &a[(xorshift(&mut s) % a.len() as u64) as usize];
                let n = r.wire_len() as u16;
                v.extend_from_slice(&[(n >> 8) as u8, n as u8, r.rtype, r.dtype]);
                v.extend(r.payload.iter().map(|_| xorshift(&mut s) as u8));
            }
            v.extend_from_slice(&gs::records_to_bytes_raw(&[gs::r_none(rt::ENDEL), gs::r_none(rt::ENDSTR), gs::r_none(rt::ENDLIB)]));
            (v, format!("noise #{idx}: {k} alphabet records with random payloads"))
        }
    }
}

/// Build the stream a case key names.
pub fn build(key: &str, seed: u64) -> Option<Built> {
    let parts: Vec<&str> = key.split(';').collect();
    let num = |i: usize| -> usize { parts[i].parse().expect("MACHINERY: bad C10 key") };
    match parts[0] {
        "t" => {
            let b = &bases()[base_idx(parts[1])];
            let n = num(2);
            Some(Built { bytes: b.bytes[..n].to_vec(), strict_prefix_of_valid: b.valid_len.map_or(false, |v| n < v), desc: format!("first {n} of {} bytes of base {}", b.bytes.len(), b.name) })
        }
        "f" => {
            let b = &bases()[base_idx(parts[1])];
            let (pos, fid) = (num(2), num(3));
            let f = &fault_table()[fid];
            let bytes = apply_one(b, pos, f)?;
            Some(Built { bytes, strict_prefix_of_valid: false, desc: format!("base {} record #{pos} ({}): fault {f:?}", b.name, gs::rname(b.recs[pos].rtype)) })
        }
        "p" => {
            let b = &bases()[base_idx(parts[1])];
            let (i, fi, j, fj) = (num(2), num(3), num(4), num(5));
            let (f, g) = (&pair_faults()[fi], &pair_faults()[fj]);
            let bytes = apply_two(b, i, f, j, g)?;
            Some(Built { bytes, strict_prefix_of_valid: false, desc: format!("base {} record #{i} ({}): {f:?} and record #{j} ({}): {g:?}", b.name, gs::rname(b.recs[i].rtype), gs::rname(b.recs[j].rtype)) })
        }
        "s" => {
            let ctx = contexts().iter().find(|c| c.name == parts[1])?;
            let full = parts[2] == "full";
            let tail = num(3);
            let a = alphabet(full);
            let seq: Vec<usize> = if parts[4].is_empty() { vec![] } else { parts[4].split('.').map(|x| x.parse().unwrap()).collect() };
            let names: Vec<String> = seq.iter().map(|i| format!("{}[{}B]", gs::rname(a[*i].rtype), a[*i].payload.len())).collect();
            Some(Built { bytes: seq_bytes(ctx, a, &seq, tail), strict_prefix_of_valid: false, desc: format!("context {} + records {:?} + {}", ctx.name, names, if tail == 1 { "natural completion" } else { "end of input" }) })
        }
        "hl" => {
            let b = hl_base();
            let (pi, val) = (num(1), num(2));
            let pos = hl_positions()[pi];
            let mut bytes = b.bytes.clone();
            bytes[b.offs[pos]] = (val >> 8) as u8;
            bytes[b.offs[pos] + 1] = val as u8;
            Some(Built { bytes, strict_prefix_of_valid: false, desc: format!("base {} record #{pos} ({}): length field := {val}", b.name, gs::rname(b.recs[pos].rtype)) })
        }
        "ht" => {
            let b = hl_base();
            let (pi, t, d) = (num(1), num(2), num(3));
            let pos = ht_positions()[pi];
            let mut bytes = b.bytes.clone();
            bytes[b.offs[pos] + 2] = t as u8;
            bytes[b.offs[pos] + 3] = d as u8;
            Some(Built { bytes, strict_prefix_of_valid: false, desc: format!("base {} record #{pos} ({}): record type := {t:#04x}, data type := {d}", b.name, gs::rname(b.recs[pos].rtype)) })
        }
        "n" => {
            let (bytes, desc) = noise_case(seed, num(1) as u64);
            Some(Built { bytes, strict_prefix_of_valid: false, desc })
        }
        _ => None,
    }
}

// -------------------------------------------------------------------------------------------------
// Linear-time evidence (secondary, bounded): deterministic instruction counts under cachegrind
// -------------------------------------------------------------------------------------------------

pub const LIN_FAMILIES: [&str; 6] = ["many-tiny-structs", "many-elements", "maximal-xy-records", "many-properties", "maximal-strings", "error-at-the-very-end"];
/// sizes in KiB (N, 2N, 4N)
pub fn lin_sizes(t: Tier) -> [usize; 3] {
    t.pick([32, 64, 128], [64, 128, 256])
}

/// A stream of the family of roughly `kib` KiB.
pub fn lin_stream(family: &str, kib: usize) -> Vec<u8> {
    let target = kib * 1024;
    let mut l = fixed_header();
    let mut s = fixed_struct(0);
    match family {
        "many-tiny-structs" => {
            let n = target / 40;
            for i in 0..n {
                let mut st = fixed_struct(i % 2);
                st.name = format!("c{i:06}").into_bytes();
                l.structs.push(st);
            }
        }
        "many-elements" | "error-at-the-very-end" => {
            let n = target / 66;
            for i in 0..n {
                s.elems.push(fixed_elem(Kind::ALL[i % 7], false, i % 5));
            }
            l.structs.push(s);
        }
        "maximal-xy-records" => {
            for i in 0..kib / 32 {
                let mut e = fixed_elem(Kind::Boundary, false, i % 5);
                e.xy = (0..4095 * 2).map(|k| k as i32 * 3 - 20000).collect();
                s.elems.push(e);
            }
            l.structs.push(s);
        }
        "many-properties" => {
            let mut e = fixed_elem(Kind::Boundary, false, 0);
            for i in 0..target / 14 {
                e.props.push(((i % 30000) as i16, format!("v{:03}", i % 1000).into_bytes()));
            }
            s.elems.push(e);
            l.structs.push(s);
        }
        "maximal-strings" => {
            for i in 0..kib / 32 {
                let mut e = fixed_elem(Kind::Text, false, i % 5);
                e.string = long_string(32764);
                s.elems.push(e);
            }
            l.structs.push(s);
        }
        _ => panic!("MACHINERY: unknown linear-time family {family}"),
    }
    let mut recs = gs::lib_records(&l);
    if family == "error-at-the-very-end" {
        // the last record is an undefined record type: the reader must fail only after consuming everything
        let n = recs.len();
        recs[n - 1] = Rec::new(0x63, 0, vec![]);
    }
    gs::records_to_bytes(&recs).expect("MACHINERY: linear-time stream")
}

/// `l21mc gdsread <file>`: the stand-alone reader run under cachegrind.
pub fn gdsread_main(path: &str) -> i32 {
    let bytes = std::fs::read(path).expect("gdsread: cannot read file");
    match GdsLibrary::from_bytes(&bytes) {
        Ok(l) => {
            std::hint::black_box(&l);
            0
        }
        Err(_) => 0,
    }
}

/// instructions executed by `l21mc gdsread file` (Ir under cachegrind); Err(reason) when valgrind cannot be run
fn cachegrind_instructions(file: &str) -> Result<u64, String> {
    let exe = std::env::current_exe().map_err(|e| e.to_string())?;
    let out = std::process::Command::new("valgrind")
        .args(["--tool=cachegrind", "--cache-sim=no", "--cachegrind-out-file=/dev/null"])
        .arg(exe)
        .args(["gdsread", file])
        .stdin(std::process::Stdio::null())
        .stdout(std::process::Stdio::null())
        .stderr(std::process::Stdio::piped())
        .output()
        .map_err(|e| format!("cannot run valgrind: {e}"))?;
    let err = String::from_utf8_lossy(&out.stderr);
    for line in err.lines() {
        if let Some(i) = line.find("I   refs:") {
            let digits: String = line[i + 9..].chars().filter(|c| c.is_ascii_digit()).collect();
            return digits.parse::<u64>().map_err(|e| e.to_string());
        }
    }
    Err(format!("no instruction count in cachegrind output (exit {:?}): {}", out.status.code(), truncate(&err, 300)))
}

impl C10 {
    fn linear_family(&self, family: &str, cx: &mut Cx) {
        let key = format!("l{SEP}{family}");
        let mut counts = [0u64; 3];
        let sizes = lin_sizes(cx.tier);
        for (i, kib) in sizes.iter().enumerate() {
            if !cx.enter(&key) {
                return;
            }
            let bytes = lin_stream(family, *kib);
            let file = cx.scratch_file(&format!("lin-{family}-{kib}.gds"));
            if let Err(e) = std::fs::write(&file, &bytes) {
                cx.machinery(format!("cannot write {file}: {e}"));
                return;
            }
            // the stream itself also goes through the ordinary oracle (in-process)
            let k2 = format!("l{SEP}{family}{SEP}{kib}");
            cx.stats.executions += 1;
            cx.state(hash_bytes(&bytes), true);
            judge(&k2, &bytes, &|| format!("linear-time family {family}, {kib} KiB"), cx);
            cx.enter(&key);
            match cachegrind_instructions(&file) {
                Ok(n) => counts[i] = n,
                Err(e) => {
                    cx.cap("cachegrind-unavailable");
                    cx.tag("linear-time:skipped");
                    let _ = std::fs::remove_file(&file);
                    let _ = e;
                    return;
                }
            }
            let _ = std::fs::remove_file(&file);
            cx.tag_n(&format!("instructions:{family}:{kib}KiB"), counts[i]);
        }
        cx.tag("part:linear-time");
        cx.stats.evaluations += 1;
        let (d1, d2) = (counts[1].saturating_sub(counts[0]), counts[2].saturating_sub(counts[1]));
        // growth below 10 % of I(N) is measurement noise of a (sub-)linear reader, not super-linear work
        if (d2 > 3 * d1 && d2 > counts[0] / 10) || counts[2] > 6 * counts[0] {
            cx.outcome("linear-time:superlinear");
            cx.fail(
                &key,
                "superlinear",
                None,
                || format!("family {family}: instructions {} / {} / {} for {} / {} / {} KiB; I(4N)-I(2N) = {d2} > 3 x (I(2N)-I(N)) = {}", counts[0], counts[1], counts[2], sizes[0], sizes[1], sizes[2], 3 * d1),
                || json!({"family": family, "instructions": counts}),
            );
        } else {
            cx.outcome("linear-time:ok");
        }
    }
}

const SEP: char = ';';

pub struct C10;

impl C10 {
    fn run_built(&self, key: &str, b: Built, base_trivial: bool, cx: &mut Cx) {
        if !cx.enter(key) {
            return;
        }
        cx.stats.executions += 1;
        cx.stats.transitions += 1;
        cx.state(hash_bytes(&b.bytes), !base_trivial);
        if cx.wants_sample() && !base_trivial {
            cx.sample(|| json!({"case": key.replace(SEP, " "), "input": b.desc, "stream": render_bytes(&b.bytes, 160)}));
        }
        let d = &b.desc;
        judge(key, &b.bytes, &|| d.clone(), cx);
    }
    fn run_key(&self, key: &str, cx: &mut Cx) {
        match build(key, cx.seed) {
            Some(b) => self.run_built(key, b, false, cx),
            None => {}
        }
    }
    fn fault_positions(&self, b: &Base, tier: Tier) -> Vec<usize> {
        let n = b.recs.len();
        if is_small(b) || tier.is_thorough() {
            (0..n).collect()
        } else {
            (0..n).filter(|i| *i < 24 || *i + 12 >= n || i % 37 == 0).collect()
        }
    }
    fn seq_unit(&self, ctx: &Context, full: bool, first: usize, depth: usize, cx: &mut Cx) {
        let a = alphabet(full);
        let mode = if full { "full" } else { "min" };
        let mut seqs: Vec<Vec<usize>> = vec![vec![first]];
        if depth >= 2 {
            for j in 0..a.len() {
                seqs.push(vec![first, j]);
                if depth >= 3 {
                    for k in 0..a.len() {
                        seqs.push(vec![first, j, k]);
                    }
                }
            }
        }
        for seq in seqs {
            // depth-3 sequences over the minimal alphabet only add what the full-alphabet depth <= 2 run did not cover
            if !full && seq.len() < 3 {
                continue;
            }
            let s = seq.iter().map(|x| x.to_string()).collect::<Vec<_>>().join(".");
            for tail in 0..2 {
                let key = format!("s{SEP}{}{SEP}{mode}{SEP}{tail}{SEP}{s}", ctx.name);
                if !cx.enter(&key) {
                    continue;
                }
                let bytes = seq_bytes(ctx, a, &seq, tail);
                cx.stats.executions += 1;
                cx.stats.transitions += seq.len() as u64;
                cx.state(hash_bytes(&bytes), true);
                judge(&key, &bytes, &|| format!("context {} + alphabet({mode}) records {:?} + tail {tail}", ctx.name, seq), cx);
            }
            if cx.expired() {
                cx.cap("time");
                return;
            }
        }
    }
}

impl Driver for C10 {
    fn id(&self) -> &'static str {
        "C10"
    }
    fn describe(&self, t: Tier) -> Describe {
        let nb = generated_bases().len();
        Describe {
            rule: format!(
                "base streams: {nb} reference-encoder streams (empty library, empty structure, each element kind minimal and with all optional records, strans variants, property list, mixed strings, two multi-element structures, long coordinate lists, a 24-structure library) + the {} tracked repository .gds files. [T] every byte prefix of bases with <= 64 records (incl. length 0 and the full stream), record boundary +-0..3 bytes of the larger ones. [F] at {} record position(s) each of {} single-record faults: length field := 0,1,2,3,odd,len-2,len+2,0xFFFE,0xFFFF; payload emptied; record type := each of 0x00..0x3b and 0x3c,0x3d,0x40,0x7f,0x80,0xfe,0xff; data type := 0..7,255; record deleted / duplicated / swapped with successor; a whole element of each of the 7 kinds spliced in; record replaced by / preceded by each record of the minimal typed alphabet; the payload of each string record := each of 12 byte strings that are mostly not valid UTF-8 (cut-short sequences with / without NUL padding, stray continuation bytes, overlong and surrogate encodings, Latin-1, 30 000 x 0xFF); word 0 / 6 / 11 of each integer record := {{0, +-1, 1899, 1900, 2100, 3799, 3801, 0x1000, i16 limits, i32 max}}; each 8-byte real := {{0, 1 (smallest unnormalised), 0x80..0, 0x7f..f, 0xff..f, smallest normalised, largest unnormalised at exponent 0, a negative unnormalised, three values of the top exponent band, the second-lowest hexade, two unnormalised values at a middle exponent, a 56-bit mantissa, 1 + 2^-52}}. {} [S] after each of {} parser contexts (library header x5, structure x4, each element kind after its start record and after XY, after STRANS/MAG, after PROPATTR/PROPVALUE/ENDEL, after ENDLIB) every sequence of 1..2 records over the full typed alphabet ({} records: each defined record type with minimal valid payload, zero-length variant, wrong-size variant, the ten unreleased types, XY with 3/5 points){}, each once followed by end-of-input and once by the context's natural completion. [L] linear-time evidence: for the families many-tiny-structs, many-elements, maximal-xy-records (32 KiB each), many-properties, maximal-strings (32 KiB each), error-at-the-very-end at {} KiB the stand-alone reader (`l21mc gdsread`) runs under `valgrind --tool=cachegrind --cache-sim=no`; the deterministic instruction counts must satisfy I(4N)-I(2N) <= 3 x (I(2N)-I(N)) and I(4N) <= 6 x I(N) (linear => 2, quadratic => 4; differences below 10 % of I(N) count as noise); the counts are echoed under alphabet_use as instructions:<family>:<size>. [HL] all 65 536 values of the length field at 3 record positions; [HT] all 256 x 256 (record type, data type) pairs at 2 record positions. A state is one byte stream (hashed); non-trivial = differs from its unfaulted base.",
                REPO_FILES.len(),
                t.pick("every (bases <= 64 records) / first 24, last 12 and every 37th (larger bases)", "every"),
                fault_table().len(),
                t.pick("[P] pairs of faults: thorough tier only.", "[P] on the 18 smallest bases every pair of record positions x 22 x 22 faults of a reduced list."),
                contexts().len(),
                alphabet(true).len(),
                t.pick("", &format!(", and every sequence of 3 records over the minimal alphabet ({} records)", alphabet(false).len())),
                t.pick("32/64/128", "64/128/256"),
            ),
            assumptions: vec![
                "'ends before its end-of-library record' is judged on every explored input: if following the record length fields from byte 0 never reaches a complete ENDLIB record (length < 4 or a record running past the end of the input stops the walk), Ok is a violation; every strict prefix of a valid base is in this class (checked)".into(),
                "Ok on a damaged stream is allowed (the reader is lenient about record order); what is required of every Ok is write = Ok and read-back equality".into(),
            ],
            excluded: vec![
                "time proportional to the input length: decided as 'terminates under the sandbox watchdog on every explored input' plus a bounded instruction-count test (part L) on six shape families at 32/64/128 KiB (quick) or 64/128/256 KiB (thorough); this is evidence of linear behaviour on those families up to that size, not a complexity proof. If valgrind cannot be run the L part is skipped and reported as cap 'cachegrind-unavailable'".into(),
                "GdsLibrary::open (file front end of the same parser), inputs larger than the bases".into(),
            ],
            technique: "fault enumeration (truncation points, single and paired record faults, bounded-depth record sequences from every parser context, header space) on the real reader in sandboxed workers; accepted libraries re-written and re-read".into(),
        }
    }
    fn units(&self, tier: Tier) -> Vec<String> {
        let mut v = vec![];
        for b in bases() {
            v.push(format!("T|{}", b.name));
            let pos = self.fault_positions(b, tier);
            for ch in pos.chunks(8) {
                v.push(format!("F|{}|{}", b.name, ch.iter().map(|x| x.to_string()).collect::<Vec<_>>().join(",")));
            }
        }
        if tier.is_thorough() {
            let mut small: Vec<&Base> = bases().iter().filter(|b| b.recs.len() >= 2).collect();
            small.sort_by_key(|b| (b.recs.len(), b.name.clone()));
            for b in small.iter().take(18) {
                for i in 0..b.recs.len() - 1 {
                    v.push(format!("P|{}|{}", b.name, i));
                }
            }
        }
        for c in contexts() {
            for a in 0..alphabet(true).len() {
                v.push(format!("S|{}|full|{}", c.name, a));
            }
            if tier.is_thorough() {
                for a in 0..alphabet(false).len() {
                    v.push(format!("S|{}|min|{}", c.name, a));
                }
            }
        }
        for p in 0..3 {
            for hi in 0..16 {
                v.push(format!("HL|{p}|{hi}"));
            }
        }
        for p in 0..2 {
            for t in 0..256 {
                if t % 8 == 0 {
                    v.push(format!("HT|{p}|{t}"));
                }
            }
        }
        if tier.is_thorough() {
            for c in 0..NOISE_CHUNKS {
                v.push(format!("N|{c}"));
            }
        }
        // first in the queue: these units are the longest single steps
        for f in LIN_FAMILIES {
            v.insert(0, format!("L|{f}"));
        }
        v
    }
    fn run_unit(&self, unit: &str, cx: &mut Cx) {
        if !ref_self_check(cx) {
            return;
        }
        let parts: Vec<&str> = unit.split('|').collect();
        match parts[0] {
            "T" => {
                let b = &bases()[base_idx(parts[1])];
                cx.tag("part:truncation");
                cx.tag(if b.name.starts_with("r:") { "base:repository" } else { "base:generated" });
                if b.valid_len.is_some() {
                    cx.tag("base:valid-by-reference-decoder");
                }
                let lens: Vec<usize> = if is_small(b) {
                    (0..=b.bytes.len()).collect()
                } else {
                    let mut v = vec![];
                    for o in &b.offs {
                        for d in -3i64..=3 {
                            let n = *o as i64 + d;
                            if n >= 0 && n as usize <= b.bytes.len() {
                                v.push(n as usize);
                            }
                        }
                    }
                    v.sort_unstable();
                    v.dedup();
                    v
                };
                for n in lens {
                    let key = format!("t{SEP}{}{SEP}{n}", b.name);
                    let full = n == b.bytes.len();
                    if let Some(built) = build(&key, cx.seed) {
                        if built.strict_prefix_of_valid {
                            cx.tag("class:strict-prefix-of-valid");
                            if framing_reaches_endlib(&built.bytes) {
                                cx.machinery(format!("C10 oracle: prefix {key} of a valid base reaches ENDLIB"));
                            }
                        }
                        self.run_built(&key, built, full, cx);
                    }
                }
            }
            "F" => {
                let b = &bases()[base_idx(parts[1])];
                cx.tag("part:single-fault");
                for pos in parts[2].split(',').map(|x| x.parse::<usize>().unwrap()) {
                    for (fid, _) in fault_table().iter().enumerate() {
                        let key = format!("f{SEP}{}{SEP}{pos}{SEP}{fid}", b.name);
                        self.run_key(&key, cx);
                    }
                    if cx.expired() {
                        cx.cap("time");
                        return;
                    }
                }
            }
            "P" => {
                let b = &bases()[base_idx(parts[1])];
                cx.tag("part:fault-pairs");
                let i: usize = parts[2].parse().unwrap();
                let nf = pair_faults().len();
                for fi in 0..nf {
                    for j in (i + 1)..b.recs.len() {
                        for fj in 0..nf {
                            let key = format!("p{SEP}{}{SEP}{i}{SEP}{fi}{SEP}{j}{SEP}{fj}", b.name);
                            self.run_key(&key, cx);
                        }
                    }
                    if cx.expired() {
                        cx.cap("time");
                        return;
                    }
                }
            }
            "S" => {
                let ctx = contexts().iter().find(|c| c.name == parts[1]).expect("MACHINERY: context");
                let full = parts[2] == "full";
                cx.tag("part:sequences");
                let first: usize = parts[3].parse().unwrap();
                if full && first == 0 {
                    // the empty sequence
                    for tail in 0..2 {
                        let key = format!("s{SEP}{}{SEP}full{SEP}{tail}{SEP}", ctx.name);
                        self.run_key(&key, cx);
                    }
                }
                self.seq_unit(ctx, full, first, if full { 2 } else { 3 }, cx);
            }
            "HL" => {
                cx.tag("part:header-length");
                let (p, hi): (usize, usize) = (parts[1].parse().unwrap(), parts[2].parse().unwrap());
                for lo in 0..4096 {
                    let key = format!("hl{SEP}{p}{SEP}{}", hi * 4096 + lo);
                    self.run_key(&key, cx);
                }
            }
            "HT" => {
                cx.tag("part:header-types");
                let (p, t0): (usize, usize) = (parts[1].parse().unwrap(), parts[2].parse().unwrap());
                for t in t0..t0 + 8 {
                    for d in 0..256 {
                        let key = format!("ht{SEP}{p}{SEP}{t}{SEP}{d}");
                        self.run_key(&key, cx);
                    }
                }
            }
            "N" => {
                cx.tag("part:noise-supplement");
                let c: u64 = parts[1].parse().unwrap();
                for i in 0..NOISE_PER_CHUNK {
                    let key = format!("n{SEP}{}", c * NOISE_PER_CHUNK + i);
                    let before = cx.stats.executions;
                    self.run_key(&key, cx);
                    cx.stats.supplement_evaluations += cx.stats.executions - before;
                }
            }
            "L" => self.linear_family(parts[1], cx),
            _ => panic!("MACHINERY: C10 bad unit {unit}"),
        }
    }
    fn run_case(&self, key: &str, cx: &mut Cx) {
        if !ref_self_check(cx) {
            return;
        }
        if key.contains('|') && !key.contains(SEP) {
            return self.run_unit(key, cx);
        }
        let parts: Vec<&str> = key.split(SEP).collect();
        if parts[0] == "l" {
            if parts.len() == 2 {
                return self.linear_family(parts[1], cx);
            }
            let bytes = lin_stream(parts[1], parts[2].parse().expect("MACHINERY: bad C10 key"));
            cx.stats.executions += 1;
            return judge(key, &bytes, &|| format!("linear-time family {}, {} KiB", parts[1], parts[2]), cx);
        }
        self.run_key(key, cx);
    }
    fn classify_crash(&self, _tier: Tier, _key: &str, _death: &Death) -> Option<String> {
        None
    }
    fn render_case(&self, _tier: Tier, key: &str) -> Value {
        match build(key, crate::sandbox::seed()) {
            _ if key.starts_with("l;") => json!({"case": key.replace(SEP, " "), "input": "linear-time family stream (generated by props::c10::lin_stream)"}),
            Some(b) => json!({"case": key.replace(SEP, " "), "input": b.desc, "must_be_rejected": !framing_reaches_endlib(&b.bytes), "stream": render_bytes(&b.bytes, 4000)}),
            None => json!({"case": key.replace(SEP, " ")}),
        }
    }
    fn guards(&self, tier: Tier, stats: &Stats, _distinct: u64) -> Result<(), String> {
        let mut tags = vec![
            "part:truncation", "part:single-fault", "part:sequences", "part:header-length", "part:header-types", "base:repository", "base:generated",
            "base:valid-by-reference-decoder", "class:strict-prefix-of-valid", "class:no-endlib-reachable",
        ];
        if tier.is_thorough() {
            tags.extend(["part:fault-pairs", "part:noise-supplement"]);
        }
        require_tags(stats, &tags)?;
        if stats.tags.get("linear-time:skipped").copied().unwrap_or(0) == 0 {
            require_tags(stats, &["part:linear-time"])?;
            if stats.outcomes.get("linear-time:ok").copied().unwrap_or(0) != LIN_FAMILIES.len() as u64 {
                return Err("vacuity guard: not every linear-time family was measured".into());
            }
        }
        require_outcomes(stats, &["ok-rewritable", "err:record-decode", "err:record-len", "err:invalid-data-type", "err:invalid-record-type", "err:unsupported", "err:parse", "err:io-or-utf8", "err:builder-or-coordinates"])
    }
}

pub fn driver() -> Box<dyn Driver> {
    Box::new(C10)
}

#[cfg(test)]
mod tests {
    use super::*;
    #[test]
    fn report_bases() {
        std::env::set_var("VERIF_ROOT", concat!(env!("CARGO_MANIFEST_DIR"), "/.."));
        for b in bases() {
            let d = gs::decode(&b.bytes);
            println!("{:70} bytes={:6} recs={:5} valid={:?} {}", b.name, b.bytes.len(), b.recs.len(), b.valid_len, d.err().unwrap_or_default());
        }
        println!("alphabet full={} min={} faults={} contexts={}", alphabet(true).len(), alphabet(false).len(), fault_table().len(), contexts().len());
    }
}
