//! C12 — instance transforms compose like the geometric operations they name.
//!
//! Exhaustive: the 8 right-angle orientations (plus spellings None / Some(0)) x offsets x every point of a
//! 9x9 grid (+ i32 corners); chains of depth 1..3 (thorough 4) of placements, both as cascaded `Transform`s
//! and through the real `Layout::flatten` on nested layouts; every integer degree 0..359 x reflect.
//! Oracle: exact integer signed-permutation maps; double precision reference with half-unit tolerance for
//! general angles.

use crate::core::*;
use layout21raw::utils::Ptr;
use layout21raw::{Cell, Element, Instance, Layer, LayerPurpose, Layers, Layout, Path, Point, Polygon, Rect, Shape, Transform};
use serde_json::{json, Value};

pub struct C12;

type P = (i64, i64);

/// Exact affine map with integer 2x2 matrix: p -> M p + t
#[derive(Clone, Copy, Debug, PartialEq)]
struct IMap {
    m: [[i64; 2]; 2],
    t: P,
}
impl IMap {
    fn ident() -> IMap {
        IMap { m: [[1, 0], [0, 1]], t: (0, 0) }
    }
    /// reflect about the x-axis (if r), then rotate CCW by q*90 degrees, then translate by t
    fn placement(r: bool, q: u32, t: P) -> IMap {
        // rotation by q quarter turns
        let (c, s) = match q % 4 {
            0 => (1, 0),
            1 => (0, 1),
            2 => (-1, 0),
            _ => (0, -1),
        };
        // R = [[c,-s],[s,c]], F = diag(1,-1) if r
        let f = if r { -1 } else { 1 };
        IMap { m: [[c, -s * f], [s, c * f]], t }
    }
    fn apply(&self, p: P) -> P {
        (self.m[0][0] * p.0 + self.m[0][1] * p.1 + self.t.0, self.m[1][0] * p.0 + self.m[1][1] * p.1 + self.t.1)
    }
    /// self after child: p -> self(child(p))
    fn after(&self, child: &IMap) -> IMap {
        let a = &self.m;
        let b = &child.m;
        let m = [
            [a[0][0] * b[0][0] + a[0][1] * b[1][0], a[0][0] * b[0][1] + a[0][1] * b[1][1]],
            [a[1][0] * b[0][0] + a[1][1] * b[1][0], a[1][0] * b[0][1] + a[1][1] * b[1][1]],
        ];
        let ct = child.t;
        let t = (a[0][0] * ct.0 + a[0][1] * ct.1 + self.t.0, a[1][0] * ct.0 + a[1][1] * ct.1 + self.t.1);
        IMap { m, t }
    }
    fn det(&self) -> i64 {
        self.m[0][0] * self.m[1][1] - self.m[0][1] * self.m[1][0]
    }
}

/// Orientation alphabet: (reflect, angle spelling, quarter turns)
fn orientations() -> Vec<(bool, Option<f64>, u32, &'static str)> {
    let mut v = vec![];
    for r in [false, true] {
        v.push((r, None, 0, "none"));
        v.push((r, Some(0.0), 0, "0"));
        v.push((r, Some(90.0), 1, "90"));
        v.push((r, Some(180.0), 2, "180"));
        v.push((r, Some(270.0), 3, "270"));
        // the same rotations spelled with negative angles and with angles of a full turn and more
        v.push((r, Some(-90.0), 3, "-90"));
        v.push((r, Some(-180.0), 2, "-180"));
        v.push((r, Some(-270.0), 1, "-270"));
        v.push((r, Some(-360.0), 0, "-360"));
        v.push((r, Some(360.0), 0, "360"));
        v.push((r, Some(450.0), 1, "450"));
        v.push((r, Some(-630.0), 1, "-630"));
        v.push((r, Some(-0.0), 0, "-0"));
    }
    v
}
/// the 8 distinct orientations
fn orient8() -> Vec<(bool, Option<f64>, u32)> {
    let mut v = vec![];
    for r in [false, true] {
        for (a, q) in [(None, 0), (Some(90.0), 1), (Some(180.0), 2), (Some(270.0), 3)] {
            v.push((r, a, q));
        }
    }
    v
}
const OFFS: [i64; 6] = [0, 1, -7, 1000, -(1 << 31), (1 << 31) - 1];

fn grid_points() -> Vec<P> {
    let mut v = vec![];
    for x in -4..=4 {
        for y in -4..=4 {
            v.push((x, y));
        }
    }
    let (lo, hi) = (-(1i64 << 31), (1i64 << 31) - 1);
    v.extend_from_slice(&[(lo, lo), (lo, hi), (hi, lo), (hi, hi)]);
    v
}
fn rp(p: P) -> Point {
    Point::new(p.0 as isize, p.1 as isize)
}
fn ip(p: &Point) -> P {
    (p.x as i64, p.y as i64)
}

fn finding_reflect_quarter(r: bool, q: u32) -> Option<&'static str> {
    if r && (q % 2 == 1) {
        Some("raw_from_instance_reflect_odd_quarter")
    } else {
        None
    }
}

impl C12 {
    // ---------------- part 1: single placement ----------------
    fn single(&self, oi: usize, cx: &mut Cx) {
        let (r, a, q, name) = orientations()[oi];
        let pts = grid_points();
        for &ox in &OFFS {
            for &oy in &OFFS {
                let key = format!("one:{oi}:{ox}:{oy}");
                cx.stats.executions += 1;
                cx.stats.transitions += 3;
                let exact = IMap::placement(r, q, (ox, oy));
                let loc = rp((ox, oy));
                let res = guard(|| {
                    let t1 = Transform::from_instance(&loc, r, a);
                    let refl = if r { Transform::reflect_vert() } else { Transform::identity() };
                    let t2 = Transform::cascade(
                        &Transform::translate(ox as f64, oy as f64),
                        &Transform::cascade(&Transform::rotate(a.unwrap_or(0.0)), &refl),
                    );
                    let i1: Vec<P> = pts.iter().map(|p| ip(&rp(*p).transform(&t1))).collect();
                    let i2: Vec<P> = pts.iter().map(|p| ip(&rp(*p).transform(&t2))).collect();
                    (i1, i2)
                });
                match res {
                    Err(p) => cx.fail(&key, "single-panic", None, || p.short(), || Value::Null),
                    Ok((i1, i2)) => {
                        cx.stats.evaluations += 2 * pts.len() as u64;
                        let mut bad = None;
                        for (k, p) in pts.iter().enumerate() {
                            let w = exact.apply(*p);
                            if i2[k] != w {
                                bad = Some(("elementary-composition", *p, i2[k], w));
                                break;
                            }
                            if i1[k] != w {
                                bad = Some(("from-instance", *p, i1[k], w));
                                break;
                            }
                        }
                        if let Some((what, p, got, want)) = bad {
                            let f = if what == "from-instance" { finding_reflect_quarter(r, q) } else { None };
                            cx.fail(
                                &key,
                                &format!("single-{what}"),
                                f,
                                || format!("{what}: reflect={r} angle={name} loc=({ox},{oy}) maps {p:?} to {got:?}; reflect, then rotate ccw, then translate gives {want:?}"),
                                || json!({"reflect": r, "angle": name, "loc": [ox, oy], "point": p, "got": got, "want": want}),
                            );
                            cx.outcome("single-mismatch");
                        } else {
                            cx.outcome("single-exact");
                        }
                    }
                }
            }
        }
        cx.bulk_states((OFFS.len() * OFFS.len()) as u64, (OFFS.len() * OFFS.len()) as u64 - 1);
        cx.tag(if r { "reflected" } else { "plain" });
        cx.tag(name);
    }

    // ---------------- part 2: chains ----------------
    fn chain_offsets(level: usize) -> [P; 3] {
        match level % 4 {
            0 => [(0, 0), (13, -5), (1000, 1 << 20)],
            1 => [(0, 0), (-3, 7), (-(1 << 20), 17)],
            2 => [(0, 0), (2, 11), (19, -1000)],
            _ => [(0, 0), (-1, -1), (123456, 654321)],
        }
    }
    /// word: per level (orientation index 0..8, offset index 0..3); level 0 is the outermost placement
    fn chain(&self, word: &[(usize, usize)], key: &str, cx: &mut Cx) {
        let o8 = orient8();
        cx.stats.executions += 1;
        cx.stats.transitions += word.len() as u64;
        let mut exact = IMap::ident();
        let mut nrefl = 0;
        let mut has_bad_combo = false;
        for (lvl, (oi, fi)) in word.iter().enumerate() {
            let (r, _a, q) = o8[*oi];
            let off = Self::chain_offsets(lvl)[*fi];
            exact = exact.after(&IMap::placement(r, q, off));
            if r {
                nrefl += 1;
            }
            if r && q % 2 == 1 {
                has_bad_combo = true;
            }
        }
        let finding = if has_bad_combo { Some("raw_from_instance_reflect_odd_quarter") } else { None };
        // (a) cascaded Transform objects
        let pts: Vec<P> = vec![(0, 0), (1, 0), (0, 1), (3, -2), (-4, 4), (100, 7)];
        let res = guard(|| {
            let mut t = Transform::identity();
            for (lvl, (oi, fi)) in word.iter().enumerate() {
                let (r, a, _q) = o8[*oi];
                let off = Self::chain_offsets(lvl)[*fi];
                let ti = Transform::from_instance(&rp(off), r, a);
                t = Transform::cascade(&t, &ti);
            }
            pts.iter().map(|p| ip(&rp(*p).transform(&t))).collect::<Vec<P>>()
        });
        match res {
            Err(p) => {
                cx.fail(key, "chain-panic", None, || p.short(), || Value::Null);
                return;
            }
            Ok(img) => {
                cx.stats.evaluations += pts.len() as u64;
                for (k, p) in pts.iter().enumerate() {
                    let w = exact.apply(*p);
                    if img[k] != w {
                        cx.fail(
                            key,
                            "chain-cascade",
                            finding,
                            || format!("cascade of placements {word:?} maps {p:?} to {:?}, exact composition gives {w:?}", img[k]),
                            || json!({"word": format!("{word:?}"), "point": p, "got": img[k], "want": w}),
                        );
                        cx.outcome("chain-mismatch");
                        return;
                    }
                }
            }
        }
        // (b) the real Layout::flatten on a nested layout
        let mut layers = Layers::default();
        let lk = layers.add(Layer::from_num(1));
        let rect = (( -2i64, -1i64), (5i64, 3i64));
        let poly: Vec<P> = vec![(0, 0), (6, 0), (6, 2), (2, 2), (2, 5), (0, 5)]; // asymmetric L, ccw
        let path: Vec<P> = vec![(0, 0), (7, 0), (7, -4)];
        // a triangle that states its first vertex again at the end (the way GDSII boundaries are written)
        let closed: Vec<P> = vec![(1, 1), (4, 1), (1, 3), (1, 1)];
        let leaf = Layout {
            name: "leaf".into(),
            insts: vec![],
            elems: vec![
                Element { net: None, layer: lk, purpose: LayerPurpose::Drawing, inner: Shape::Rect(Rect { p0: rp(rect.0), p1: rp(rect.1) }) },
                Element { net: None, layer: lk, purpose: LayerPurpose::Drawing, inner: Shape::Polygon(Polygon { points: poly.iter().map(|p| rp(*p)).collect() }) },
                Element { net: None, layer: lk, purpose: LayerPurpose::Drawing, inner: Shape::Path(Path { points: path.iter().map(|p| rp(*p)).collect(), width: 2 }) },
                Element { net: None, layer: lk, purpose: LayerPurpose::Drawing, inner: Shape::Polygon(Polygon { points: closed.iter().map(|p| rp(*p)).collect() }) },
            ],
            annotations: vec![],
        };
        let mut cell: Ptr<Cell> = Ptr::new(Cell::from(leaf));
        for (lvl, (oi, fi)) in word.iter().enumerate().rev() {
            let (r, a, _q) = o8[*oi];
            let off = Self::chain_offsets(lvl)[*fi];
            let lay = Layout {
                name: format!("l{lvl}"),
                insts: vec![Instance { inst_name: format!("i{lvl}"), cell: cell.clone(), loc: rp(off), reflect_vert: r, angle: a }],
                elems: vec![],
                annotations: vec![],
            };
            cell = Ptr::new(Cell::from(lay));
        }
        let top = cell.read().unwrap().layout.clone().unwrap();
        let res = guard(|| top.flatten().map_err(|e| format!("{e:?}")));
        match res {
            Err(p) => cx.fail(key, "flatten-panic", None, || p.short(), || Value::Null),
            Ok(Err(e)) => cx.fail(key, "flatten-error", None, || format!("flatten failed: {}", truncate(&e, 200)), || Value::Null),
            Ok(Ok(elems)) => {
                cx.stats.evaluations += 1;
                let mut ok = elems.len() == 4;
                let mut why = String::new();
                if ok {
                    // rect: compare as corner pair up to choice of opposite corners (image of p0,p1 exactly)
                    match &elems[0].inner {
                        Shape::Rect(r) => {
                            let (w0, w1) = (exact.apply(rect.0), exact.apply(rect.1));
                            if (ip(&r.p0), ip(&r.p1)) != (w0, w1) {
                                ok = false;
                                why = format!("rect corners {:?},{:?} want {w0:?},{w1:?}", ip(&r.p0), ip(&r.p1));
                            }
                        }
                        _ => {
                            ok = false;
                            why = "rect changed kind".into()
                        }
                    }
                }
                if ok {
                    match &elems[1].inner {
                        Shape::Polygon(pg) => {
                            let got: Vec<P> = pg.points.iter().map(ip).collect();
                            let want: Vec<P> = poly.iter().map(|p| exact.apply(*p)).collect();
                            if got != want {
                                ok = false;
                                why = format!("polygon {got:?} want {want:?}");
                            } else {
                                let a0 = crate::refmodel::geom::area2(&poly);
                                let a1 = crate::refmodel::geom::area2(&got);
                                let flipped = (a0 > 0) != (a1 > 0);
                                if flipped != (nrefl % 2 == 1) || exact.det() != if nrefl % 2 == 1 { -1 } else { 1 } {
                                    ok = false;
                                    why = format!("orientation: {nrefl} reflections but mirror={flipped}");
                                }
                            }
                        }
                        _ => {
                            ok = false;
                            why = "polygon changed kind".into()
                        }
                    }
                }
                if ok {
                    match &elems[2].inner {
                        Shape::Path(pa) => {
                            let got: Vec<P> = pa.points.iter().map(ip).collect();
                            let want: Vec<P> = path.iter().map(|p| exact.apply(*p)).collect();
                            if got != want || pa.width != 2 {
                                ok = false;
                                why = format!("path {got:?} want {want:?}");
                            }
                        }
                        _ => {
                            ok = false;
                            why = "path changed kind".into()
                        }
                    }
                }
                if ok {
                    match &elems[3].inner {
                        Shape::Polygon(pg) => {
                            let got: Vec<P> = pg.points.iter().map(ip).collect();
                            let want: Vec<P> = closed.iter().map(|p| exact.apply(*p)).collect();
                            if got != want {
                                ok = false;
                                why = format!("explicitly closed polygon {got:?} want {want:?}");
                            }
                        }
                        _ => {
                            ok = false;
                            why = "closed polygon changed kind".into()
                        }
                    }
                }
                if !ok {
                    cx.fail(key, "flatten-image", finding, || format!("flatten of nested placements {word:?}: {why}"), || json!({"word": format!("{word:?}"), "why": why}));
                    cx.outcome("chain-mismatch");
                } else {
                    cx.outcome("chain-exact");
                }
            }
        }
    }

    // ---------------- part 3: integer degrees ----------------
    /// (cos, sin) of an integer degree with exact octant reduction
    fn cs(deg: u32) -> (f64, f64) {
        let d = deg % 360;
        let (q, r) = (d / 90, d % 90);
        let (c, s) = if r == 0 {
            (1.0, 0.0)
        } else if r == 45 {
            (std::f64::consts::FRAC_1_SQRT_2, std::f64::consts::FRAC_1_SQRT_2)
        } else if r < 45 {
            let x = (r as f64) * std::f64::consts::PI / 180.0;
            (x.cos(), x.sin())
        } else {
            let x = ((90 - r) as f64) * std::f64::consts::PI / 180.0;
            (x.sin(), x.cos())
        };
        match q {
            0 => (c, s),
            1 => (-s, c),
            2 => (-c, -s),
            _ => (s, -c),
        }
    }
    fn degrees(&self, deg: u32, cx: &mut Cx) {
        let mut pts = grid_points();
        pts.truncate(81);
        pts.extend_from_slice(&[(1000, -7), (-123456, 654321), (999999, 1000000)]);
        let (c, s) = Self::cs(deg);
        for r in [false, true] {
            for off in [(0i64, 0i64), (17, -1000)] {
                let key = format!("deg:{deg}:{}:{}", r as u8, off.0);
                cx.stats.executions += 1;
                cx.stats.transitions += 2;
                let loc = rp(off);
                // the same rotation is also spelled as the negative angle deg-360 (second offset) 
                let angle = if off.0 == 0 { deg as f64 } else { deg as f64 - 360.0 };
                let res = guard(|| {
                    let t = Transform::from_instance(&loc, r, Some(angle));
                    // and the same placement composed from the elementary operations it names
                    let refl = if r { Transform::reflect_vert() } else { Transform::identity() };
                    let t2 = Transform::cascade(&Transform::translate(off.0 as f64, off.1 as f64), &Transform::cascade(&Transform::rotate(angle), &refl));
                    (pts.iter().map(|p| ip(&rp(*p).transform(&t))).collect::<Vec<P>>(), pts.iter().map(|p| ip(&rp(*p).transform(&t2))).collect::<Vec<P>>())
                });
                match res {
                    Err(p) => cx.fail(&key, "degrees-panic", None, || p.short(), || Value::Null),
                    Ok((img, img2)) => {
                        // the composition of translate, rotate and reflect_vert: within half a unit of the reference too
                        let mut bad2 = None;
                        for (k, p) in pts.iter().enumerate() {
                            let (x, y0) = (p.0 as f64, p.1 as f64);
                            let y = if r { -y0 } else { y0 };
                            let wx = c * x - s * y + off.0 as f64;
                            let wy = s * x + c * y + off.1 as f64;
                            if (img2[k].0 as f64 - wx).abs() > 0.5 + 1e-5 || (img2[k].1 as f64 - wy).abs() > 0.5 + 1e-5 {
                                bad2 = Some((*p, img2[k], (wx, wy)));
                                break;
                            }
                        }
                        if let Some((p, got, want)) = bad2 {
                            cx.fail(
                                &key,
                                "degrees-elementary-composition",
                                None,
                                || format!("cascade(translate{off:?}, cascade(rotate({angle}), {})) maps {p:?} to {got:?}; reference ({:.4},{:.4}) tolerance 0.5", if r { "reflect_vert" } else { "identity" }, want.0, want.1),
                                || json!({"reflect": r, "angle": angle, "loc": off, "point": p, "got": got, "want": [want.0, want.1]}),
                            );
                        }
                        cx.stats.evaluations += pts.len() as u64;
                        let mut bad = None;
                        for (k, p) in pts.iter().enumerate() {
                            let (x, y0) = (p.0 as f64, p.1 as f64);
                            let y = if r { -y0 } else { y0 };
                            let wx = c * x - s * y + off.0 as f64;
                            let wy = s * x + c * y + off.1 as f64;
                            let (gx, gy) = (img[k].0 as f64, img[k].1 as f64);
                            if (gx - wx).abs() > 0.5 + 1e-5 || (gy - wy).abs() > 0.5 + 1e-5 {
                                bad = Some((*p, img[k], (wx, wy)));
                                break;
                            }
                        }
                        if let Some((p, got, want)) = bad {
                            // the recorded defect also shows at general angles when reflected (sin term sign)
                            let f = if r && deg % 180 != 0 { Some("raw_from_instance_reflect_odd_quarter") } else { None };
                            cx.fail(
                                &key,
                                "degrees",
                                f,
                                || format!("reflect={r} angle={deg} loc={off:?} maps {p:?} to {got:?}; reference ({:.4},{:.4}) tolerance 0.5", want.0, want.1),
                                || json!({"reflect": r, "angle": deg, "loc": off, "point": p, "got": got, "want": [want.0, want.1]}),
                            );
                            cx.outcome("degrees-mismatch");
                        } else {
                            cx.outcome("degrees-within-half-unit");
                        }
                    }
                }
            }
        }
        cx.bulk_states(4, if deg % 90 == 0 { 0 } else { 4 });
    }

    /// nested placements with a general-angle ancestor: parent at `deg` (x reflect), child in each of the 8
    /// right-angle orientations and at a general angle, non-zero child offsets; through cascaded Transforms
    /// and through the real Layout::flatten. The image must be within half a unit of the exact real
    /// composition (rounded once), for every point.
    fn degrees2(&self, deg: u32, cx: &mut Cx) {
        let o8 = orient8();
        let pts: Vec<P> = vec![(0, 0), (1, 0), (0, 1), (3, -2), (-4, 4), (100, 7), (-1000, 999)];
        let child_offs: [P; 3] = [(1, 0), (7, -3), (-250, 1001)];
        let parent_off: P = (17, -1000);
        let (pc, ps) = Self::cs(deg);
        let mut layers = Layers::default();
        let lk = layers.add(Layer::from_num(1));
        for pr in [false, true] {
            for ci in 0..9usize {
                for co in child_offs {
                    let key = format!("deg2:{deg}:{}:{ci}:{}", pr as u8, co.0);
                    cx.stats.executions += 1;
                    cx.stats.transitions += 4;
                    // child orientation: 8 right-angle ones, or a general angle (deg+37)
                    let (cr, ca, cdeg): (bool, Option<f64>, u32) = if ci < 8 { (o8[ci].0, o8[ci].1, o8[ci].2 * 90) } else { (true, Some(((deg + 37) % 360) as f64), (deg + 37) % 360) };
                    let (cc, csn) = Self::cs(cdeg);
                    // reference: real-valued composition parent(child(p))
                    let want = |p: P| -> (f64, f64) {
                        let (x, y0) = (p.0 as f64, p.1 as f64);
                        let y = if cr { -y0 } else { y0 };
                        let cx_ = cc * x - csn * y + co.0 as f64;
                        let cy_ = csn * x + cc * y + co.1 as f64;
                        let cy2 = if pr { -cy_ } else { cy_ };
                        (pc * cx_ - ps * cy2 + parent_off.0 as f64, ps * cx_ + pc * cy2 + parent_off.1 as f64)
                    };
                    let leaf = Layout {
                        name: "leaf".into(),
                        insts: vec![],
                        elems: vec![Element { net: None, layer: lk, purpose: LayerPurpose::Drawing, inner: Shape::Polygon(Polygon { points: pts.iter().map(|p| rp(*p)).collect() }) }],
                        annotations: vec![],
                    };
                    let leafc: Ptr<Cell> = Ptr::new(Cell::from(leaf));
                    let mid = Layout { name: "mid".into(), insts: vec![Instance { inst_name: "c".into(), cell: leafc, loc: rp(co), reflect_vert: cr, angle: ca }], elems: vec![], annotations: vec![] };
                    let midc: Ptr<Cell> = Ptr::new(Cell::from(mid));
                    let top = Layout { name: "top".into(), insts: vec![Instance { inst_name: "p".into(), cell: midc, loc: rp(parent_off), reflect_vert: pr, angle: Some(deg as f64) }], elems: vec![], annotations: vec![] };
                    let res = guard(|| {
                        let t = Transform::cascade(&Transform::from_instance(&rp(parent_off), pr, Some(deg as f64)), &Transform::from_instance(&rp(co), cr, ca));
                        let a: Vec<P> = pts.iter().map(|p| ip(&rp(*p).transform(&t))).collect();
                        let f = top.flatten().map_err(|e| format!("{e:?}"))?;
                        let b: Vec<P> = match f.get(0).map(|e| &e.inner) {
                            Some(Shape::Polygon(pg)) => pg.points.iter().map(ip).collect(),
                            _ => return Err("flatten did not return the polygon".to_string()),
                        };
                        Ok((a, b))
                    });
                    match res {
                        Err(p) => cx.fail(&key, "degrees2-panic", None, || p.short(), || Value::Null),
                        Ok(Err(e)) => cx.fail(&key, "degrees2-error", None, || e.clone(), || Value::Null),
                        Ok(Ok((a, b))) => {
                            cx.stats.evaluations += 2 * pts.len() as u64;
                            let mut bad = None;
                            for (k, p) in pts.iter().enumerate() {
                                let w = want(*p);
                                for (which, img) in [("cascade", &a), ("flatten", &b)] {
                                    let (gx, gy) = (img[k].0 as f64, img[k].1 as f64);
                                    if (gx - w.0).abs() > 0.5 + 1e-5 || (gy - w.1).abs() > 0.5 + 1e-5 {
                                        bad = Some((which, *p, img[k], w));
                                    }
                                }
                            }
                            if let Some((which, p, got, w)) = bad {
                                cx.outcome("degrees2-mismatch");
                                cx.fail(
                                    &key,
                                    &format!("degrees2-{which}"),
                                    None,
                                    || format!("{which}: parent(reflect={pr}, angle={deg}, loc={parent_off:?}) o child(reflect={cr}, angle={cdeg}, loc={co:?}) maps {p:?} to {got:?}; exact composition ({:.4},{:.4}), tolerance 0.5", w.0, w.1),
                                    || json!({"parent": {"reflect": pr, "angle": deg, "loc": parent_off}, "child": {"reflect": cr, "angle": cdeg, "loc": co}, "point": p, "got": got, "want": [w.0, w.1]}),
                                );
                            } else {
                                cx.outcome("degrees2-within-half-unit");
                            }
                        }
                    }
                }
            }
        }
        cx.bulk_states(54, 54);
        cx.tag("degrees2");
    }


    /// three nested placements at general angles where the first two together make a right-angle orientation:
    /// top places `mid` at `deg` (x reflect), `mid` places `low` at the angle that brings the product of the two
    /// back to a multiple of 90 degrees (90q - deg, or deg + 90q under a reflecting parent; x reflect) at a
    /// non-zero offset, `low` places the leaf at a general angle and offset. Cascaded Transforms and the real
    /// Layout::flatten against the exact real composition (rounded once), for every point.
    fn degrees3(&self, deg: u32, cx: &mut Cx) {
        let pts: Vec<P> = vec![(0, 0), (1, 0), (0, 1), (3, -2), (-6, -5), (100, 7), (-1000, 999)];
        let mid_offs: [P; 2] = [(7, 3), (-250, 1001)];
        let top_off: P = (17, -1000);
        let leaf_off: P = (3, 7);
        let mut layers = Layers::default();
        let lk = layers.add(Layer::from_num(1));
        let apply = |r: bool, d: u32, off: P, p: (f64, f64)| -> (f64, f64) {
            let (c, s) = Self::cs(d);
            let y = if r { -p.1 } else { p.1 };
            (c * p.0 - s * y + off.0 as f64, s * p.0 + c * y + off.1 as f64)
        };
        for pr in [false, true] {
            for q in 0..4u32 {
                for mr in [false, true] {
                    for mo in mid_offs {
                        let mdeg = if pr { (deg + 90 * q) % 360 } else { (360 + 90 * q - deg % 360) % 360 };
                        let ldeg = (deg + 45 + 8 * q) % 360;
                        let key = format!("deg3:{deg}:{}:{q}:{}:{}", pr as u8, mr as u8, mo.0);
                        cx.stats.executions += 1;
                        cx.stats.transitions += 4;
                        let want = |p: P| -> (f64, f64) { apply(pr, deg, top_off, apply(mr, mdeg, mo, apply(false, ldeg, leaf_off, (p.0 as f64, p.1 as f64)))) };
                        let leaf = Layout {
                            name: "leaf".into(),
                            insts: vec![],
                            elems: vec![Element { net: None, layer: lk, purpose: LayerPurpose::Drawing, inner: Shape::Polygon(Polygon { points: pts.iter().map(|p| rp(*p)).collect() }) }],
                            annotations: vec![],
                        };
                        let leafc: Ptr<Cell> = Ptr::new(Cell::from(leaf));
                        let low = Layout { name: "low".into(), insts: vec![Instance { inst_name: "l".into(), cell: leafc, loc: rp(leaf_off), reflect_vert: false, angle: Some(ldeg as f64) }], elems: vec![], annotations: vec![] };
                        let lowc: Ptr<Cell> = Ptr::new(Cell::from(low));
                        let mid = Layout { name: "mid".into(), insts: vec![Instance { inst_name: "m".into(), cell: lowc, loc: rp(mo), reflect_vert: mr, angle: Some(mdeg as f64) }], elems: vec![], annotations: vec![] };
                        let midc: Ptr<Cell> = Ptr::new(Cell::from(mid));
                        let top = Layout { name: "top".into(), insts: vec![Instance { inst_name: "p".into(), cell: midc, loc: rp(top_off), reflect_vert: pr, angle: Some(deg as f64) }], elems: vec![], annotations: vec![] };
                        let res = guard(|| {
                            let t01 = Transform::cascade(&Transform::from_instance(&rp(top_off), pr, Some(deg as f64)), &Transform::from_instance(&rp(mo), mr, Some(mdeg as f64)));
                            let t = Transform::cascade(&t01, &Transform::from_instance(&rp(leaf_off), false, Some(ldeg as f64)));
                            let a: Vec<P> = pts.iter().map(|p| ip(&rp(*p).transform(&t))).collect();
                            let f = top.flatten().map_err(|e| format!("{e:?}"))?;
                            let b: Vec<P> = match f.get(0).map(|e| &e.inner) {
                                Some(Shape::Polygon(pg)) => pg.points.iter().map(ip).collect(),
                                _ => return Err("flatten did not return the polygon".to_string()),
                            };
                            Ok((a, b))
                        });
                        match res {
                            Err(p) => cx.fail(&key, "degrees3-panic", None, || p.short(), || Value::Null),
                            Ok(Err(e)) => cx.fail(&key, "degrees3-error", None, || e.clone(), || Value::Null),
                            Ok(Ok((a, b))) => {
                                cx.stats.evaluations += 2 * pts.len() as u64;
                                let mut bad = None;
                                for (k, p) in pts.iter().enumerate() {
                                    let w = want(*p);
                                    for (which, img) in [("cascade", &a), ("flatten", &b)] {
                                        let (gx, gy) = (img[k].0 as f64, img[k].1 as f64);
                                        if (gx - w.0).abs() > 0.5 + 1e-5 || (gy - w.1).abs() > 0.5 + 1e-5 {
                                            bad = Some((which, *p, img[k], w));
                                        }
                                    }
                                }
                                if let Some((which, p, got, w)) = bad {
                                    cx.outcome("degrees3-mismatch");
                                    cx.fail(
                                        &key,
                                        &format!("degrees3-{which}"),
                                        None,
                                        || format!("{which}: top(reflect={pr}, angle={deg}, loc={top_off:?}) o mid(reflect={mr}, angle={mdeg}, loc={mo:?}) o low(angle={ldeg}, loc={leaf_off:?}) maps {p:?} to {got:?}; exact composition ({:.4},{:.4}), tolerance 0.5", w.0, w.1),
                                        || json!({"top": {"reflect": pr, "angle": deg, "loc": top_off}, "mid": {"reflect": mr, "angle": mdeg, "loc": mo}, "low": {"angle": ldeg, "loc": leaf_off}, "point": p, "got": got, "want": [w.0, w.1]}),
                                    );
                                } else {
                                    cx.outcome("degrees3-within-half-unit");
                                }
                            }
                        }
                    }
                }
            }
        }
        cx.bulk_states(32, 32);
        cx.tag("degrees3");
    }

    // ---------------- part 5: sibling instances ----------------
    /// A cell holding several instances: (optional parent placement) o [sibling 1, sibling 2, a plain sibling]
    /// of one leaf, plus own shapes between the instances. Every flattened shape must be the image under the
    /// placements on its own path only; compared as a multiset of exact images.
    fn siblings(&self, pi: usize, s1: usize, cx: &mut Cx) {
        let o8 = orient8();
        let offs: [P; 2] = [(10, 20), (-300, 7)];
        let third: P = (50, 60);
        let parent_off: P = (1000, -17);
        let rect = ((-2i64, -1i64), (5i64, 3i64));
        let poly: Vec<P> = vec![(0, 0), (6, 0), (6, 2), (2, 2), (2, 5), (0, 5)];
        let own = ((100i64, 200i64), (103i64, 201i64));
        let parent: Option<IMap> = if pi == 0 { None } else { Some(IMap::placement(o8[pi - 1].0, o8[pi - 1].2, parent_off)) };
        for s2 in 0..16usize {
            // instance names: all different / all empty (what GDSII import produces) / all the same
            for order_naming in 0..9usize {
                let (order, naming) = (order_naming % 3, order_naming / 3);
                let key = format!("sib:{pi}:{s1}:{s2}:{order}:{naming}");
                if !cx.enter(&key) {
                    continue;
                }
                cx.stats.executions += 1;
                cx.stats.transitions += 3;
                let sib = |k: usize| -> (bool, Option<f64>, u32, P) {
                    let (r, a, q) = o8[k % 8];
                    (r, a, q, offs[k / 8])
                };
                // listing order of the three siblings: plain last / plain first / plain in the middle
                let plain = (false, None, 0u32, third);
                let list: Vec<(bool, Option<f64>, u32, P)> = match order {
                    0 => vec![sib(s1), sib(s2), plain],
                    1 => vec![plain, sib(s1), sib(s2)],
                    _ => vec![sib(s1), plain, sib(s2)],
                };
                let mut want: Vec<String> = vec![];
                let outer = parent.unwrap_or_else(IMap::ident);
                for (r, _a, q, off) in &list {
                    let m = outer.after(&IMap::placement(*r, *q, *off));
                    want.push(format!("rect {:?} {:?}", m.apply(rect.0), m.apply(rect.1)));
                    want.push(format!("poly {:?}", poly.iter().map(|p| m.apply(*p)).collect::<Vec<P>>()));
                }
                want.push(format!("rect {:?} {:?}", outer.apply(own.0), outer.apply(own.1)));
                want.sort();
                let mut layers = Layers::default();
                let lk = layers.add(Layer::from_num(1));
                let leaf = Layout {
                    name: "leaf".into(),
                    insts: vec![],
                    elems: vec![
                        Element { net: None, layer: lk, purpose: LayerPurpose::Drawing, inner: Shape::Rect(Rect { p0: rp(rect.0), p1: rp(rect.1) }) },
                        Element { net: None, layer: lk, purpose: LayerPurpose::Drawing, inner: Shape::Polygon(Polygon { points: poly.iter().map(|p| rp(*p)).collect() }) },
                    ],
                    annotations: vec![],
                };
                let leafc: Ptr<Cell> = Ptr::new(Cell::from(leaf));
                let mid = Layout {
                    name: "mid".into(),
                    insts: list.iter().enumerate().map(|(i, (r, a, _q, off))| Instance { inst_name: [format!("s{i}"), String::new(), "s".to_string()][naming].clone(), cell: leafc.clone(), loc: rp(*off), reflect_vert: *r, angle: *a }).collect(),
                    elems: vec![Element { net: None, layer: lk, purpose: LayerPurpose::Drawing, inner: Shape::Rect(Rect { p0: rp(own.0), p1: rp(own.1) }) }],
                    annotations: vec![],
                };
                let top = match pi {
                    0 => mid,
                    _ => {
                        let midc: Ptr<Cell> = Ptr::new(Cell::from(mid));
                        Layout { name: "top".into(), insts: vec![Instance { inst_name: "p".into(), cell: midc, loc: rp(parent_off), reflect_vert: o8[pi - 1].0, angle: o8[pi - 1].1 }], elems: vec![], annotations: vec![] }
                    }
                };
                match guard(|| top.flatten().map_err(|e| format!("{e:?}"))) {
                    Err(p) => cx.fail(&key, "siblings-panic", None, || p.short(), || Value::Null),
                    Ok(Err(e)) => cx.fail(&key, "siblings-error", None, || format!("flatten failed: {}", truncate(&e, 200)), || Value::Null),
                    Ok(Ok(elems)) => {
                        cx.stats.evaluations += 1;
                        let mut got: Vec<String> = elems
                            .iter()
                            .map(|e| match &e.inner {
                                Shape::Rect(r) => format!("rect {:?} {:?}", ip(&r.p0), ip(&r.p1)),
                                Shape::Polygon(pg) => format!("poly {:?}", pg.points.iter().map(ip).collect::<Vec<P>>()),
                                Shape::Path(pa) => format!("path {:?}", pa.points.iter().map(ip).collect::<Vec<P>>()),
                            })
                            .collect();
                        got.sort();
                        if got != want {
                            cx.outcome("siblings-mismatch");
                            cx.fail(
                                &key,
                                "siblings-flatten",
                                None,
                                || format!("flatten of parent {:?} over siblings {list:?} (reflect, angle, quarter turns, loc): got {got:?}, exact images {want:?}", if pi == 0 { None } else { Some(o8[pi - 1]) }),
                                || json!({"parent": pi, "siblings": format!("{list:?}"), "got": got, "want": want}),
                            );
                        } else {
                            cx.outcome("siblings-exact");
                        }
                    }
                }
            }
        }
        cx.bulk_states(48, 48);
        cx.tag("siblings");
    }

    // ---------------- part 6: angles next to a right angle, large coordinates ----------------
    /// milli-degree departures from a multiple of 90 degrees
    const NEAR: [i64; 28] = [1, -1, 4, -4, 10, -10, 50, -50, 100, -100, 250, -250, 500, -500, 750, -750, 810, -810, 1500, -1500, 22500, -22500, 33300, -33300, 44999, 45001, 67500, -67250];
    /// (cos, sin) of 90*q degrees + md milli-degrees: the small angle evaluated directly, the quarter turns exactly
    fn cs_near(q: u32, md: i64) -> (f64, f64) {
        let x = (md as f64) / 1000.0 * std::f64::consts::PI / 180.0;
        let (c, s) = (x.cos(), x.sin());
        match q % 4 {
            0 => (c, s),
            1 => (-s, c),
            2 => (-c, -s),
            _ => (s, -c),
        }
    }
    fn near(&self, q: u32, cx: &mut Cx) {
        let pts: Vec<P> = vec![(0, 0), (1, 0), (0, 1), (3, -2), (20000, 0), (0, 20000), (5000, 5000), (-123456, 654321), (999999, 1000000), (100000, 0), (0, -1000000)];
        let child_off: P = (100000, 0);
        let mut layers = Layers::default();
        let lk = layers.add(Layer::from_num(1));
        for md in Self::NEAR {
            let (c, s) = Self::cs_near(q, md);
            let angle = 90.0 * q as f64 + md as f64 / 1000.0;
            for r in [false, true] {
                let key = format!("near:{q}:{md}:{}", r as u8);
                if !cx.enter(&key) {
                    continue;
                }
                cx.stats.executions += 1;
                cx.stats.transitions += 2;
                let off: P = (17, -1000);
                // reference: reflect, rotate, translate; nested: the same placement over a plain child at child_off
                let want1 = |p: P| -> (f64, f64) {
                    let (x, y0) = (p.0 as f64, p.1 as f64);
                    let y = if r { -y0 } else { y0 };
                    (c * x - s * y + off.0 as f64, s * x + c * y + off.1 as f64)
                };
                let want2 = |p: P| -> (f64, f64) { want1((p.0 + child_off.0, p.1 + child_off.1)) };
                let leaf = Layout {
                    name: "leaf".into(),
                    insts: vec![],
                    elems: vec![Element { net: None, layer: lk, purpose: LayerPurpose::Drawing, inner: Shape::Polygon(Polygon { points: pts.iter().map(|p| rp(*p)).collect() }) }],
                    annotations: vec![],
                };
                let leafc: Ptr<Cell> = Ptr::new(Cell::from(leaf));
                let mid = Layout { name: "mid".into(), insts: vec![Instance { inst_name: "c".into(), cell: leafc, loc: rp(child_off), reflect_vert: false, angle: None }], elems: vec![], annotations: vec![] };
                let midc: Ptr<Cell> = Ptr::new(Cell::from(mid));
                let top = Layout { name: "top".into(), insts: vec![Instance { inst_name: "p".into(), cell: midc, loc: rp(off), reflect_vert: r, angle: Some(angle) }], elems: vec![], annotations: vec![] };
                let res = guard(|| {
                    let t = Transform::from_instance(&rp(off), r, Some(angle));
                    let a: Vec<P> = pts.iter().map(|p| ip(&rp(*p).transform(&t))).collect();
                    let t2 = Transform::cascade(&t, &Transform::from_instance(&rp(child_off), false, None));
                    let b: Vec<P> = pts.iter().map(|p| ip(&rp(*p).transform(&t2))).collect();
                    let f = top.flatten().map_err(|e| format!("{e:?}"))?;
                    let cpts: Vec<P> = match f.get(0).map(|e| &e.inner) {
                        Some(Shape::Polygon(pg)) => pg.points.iter().map(ip).collect(),
                        _ => return Err("flatten did not return the polygon".to_string()),
                    };
                    Ok((a, b, cpts))
                });
                match res {
                    Err(p) => cx.fail(&key, "near-right-panic", None, || p.short(), || Value::Null),
                    Ok(Err(e)) => cx.fail(&key, "near-right-error", None, || e.clone(), || Value::Null),
                    Ok(Ok((a, b, cpts))) => {
                        cx.stats.evaluations += 3 * pts.len() as u64;
                        let mut bad = None;
                        for (k, p) in pts.iter().enumerate() {
                            for (which, img, w) in [("from_instance", &a, want1(*p)), ("cascade", &b, want2(*p)), ("flatten", &cpts, want2(*p))] {
                                let (gx, gy) = (img[k].0 as f64, img[k].1 as f64);
                                if (gx - w.0).abs() > 0.5 + 1e-5 || (gy - w.1).abs() > 0.5 + 1e-5 {
                                    bad = Some((which, *p, img[k], w));
                                }
                            }
                        }
                        if let Some((which, p, got, w)) = bad {
                            cx.outcome("near-right-mismatch");
                            cx.fail(
                                &key,
                                &format!("near-right-{which}"),
                                None,
                                || format!("{which}: reflect={r} angle={angle} loc={off:?}{} maps {p:?} to {got:?}; exact ({:.4},{:.4}), tolerance 0.5", if which == "from_instance" { String::new() } else { format!(" over a plain child at {child_off:?}") }, w.0, w.1),
                                || json!({"reflect": r, "angle": angle, "loc": off, "point": p, "got": got, "want": [w.0, w.1]}),
                            );
                        } else {
                            cx.outcome("near-right-within-half-unit");
                        }
                    }
                }
            }
        }
        cx.bulk_states(56, 56);
        cx.tag("near-right");
    }

    fn words(depth: usize, first: (usize, usize)) -> Vec<Vec<(usize, usize)>> {
        let mut out: Vec<Vec<(usize, usize)>> = vec![vec![first]];
        for _ in 1..depth {
            let mut next = vec![];
            for w in &out {
                for o in 0..8 {
                    for f in 0..3 {
                        let mut x = w.clone();
                        x.push((o, f));
                        next.push(x);
                    }
                }
            }
            out = next;
        }
        out
    }
    fn word_key(w: &[(usize, usize)]) -> String {
        let v: Vec<String> = w.iter().map(|(o, f)| format!("{o}{f}")).collect();
        format!("chain:{}", v.join("-"))
    }
    fn parse_word(s: &str) -> Vec<(usize, usize)> {
        s.split('-')
            .map(|t| {
                let b = t.as_bytes();
                ((b[0] - b'0') as usize, (b[1] - b'0') as usize)
            })
            .collect()
    }
    fn self_check() -> Result<(), String> {
        // reflect then rotate 90 ccw then translate (10,20): (1,2) -> (1,-2) -> (2,1) -> (12,21)
        let m = IMap::placement(true, 1, (10, 20));
        if m.apply((1, 2)) != (12, 21) {
            return Err("IMap placement fact".into());
        }
        let a = IMap::placement(false, 1, (1, 0));
        let b = IMap::placement(true, 0, (0, 5));
        // a after b : p -> a(b(p)); b(1,1) = (1,-1+5)=(1,4); a(1,4) = (-4+1, 1) = (-3,1)
        if a.after(&b).apply((1, 1)) != (-3, 1) {
            return Err("IMap composition fact".into());
        }
        let (c, s) = Self::cs(30);
        if (c - 0.8660254037844386).abs() > 1e-15 || (s - 0.5).abs() > 1e-15 {
            return Err("cs(30)".into());
        }
        let (c, s) = Self::cs(210);
        if (c + 0.8660254037844386).abs() > 1e-15 || (s + 0.5).abs() > 1e-15 {
            return Err("cs(210)".into());
        }
        Ok(())
    }
}

impl Driver for C12 {
    fn id(&self) -> &'static str {
        "C12"
    }
    fn describe(&self, tier: Tier) -> Describe {
        let d = tier.pick(3, 6);
        Describe {
            rule: format!(
                "single placements: reflect in {{f,t}} x angle in {{None,0,90,180,270,-90,-180,-270,-360,360,450,-630,-0}} x offsets {{0,1,-7,1000,-2^31,2^31-1}}^2 x every point of the 9x9 grid (-4..4)^2 plus the four i32 corners, judged three ways (from_instance == cascade(translate, cascade(rotate, reflect_vert)) == exact integer map); chains: every word of depth 1..={d} over the 8 orientations x 3 offsets per level, as cascaded Transforms on 6 probe points and through the real Layout::flatten on a nested layout holding a rectangle, an asymmetric L polygon, a path and a triangle stating its first vertex again at the end (shape-by-shape exact images; polygon orientation flips iff odd number of reflections); general angles: every integer degree 0..359 x reflect x 2 offsets x the grid and three large points, as from_instance and as the composition of translate, rotate and reflect_vert, each within 0.5+1e-5 of a double-precision reference with exact octant reduction; nested general angles: parent at every integer degree x reflect over a child in each of the 8 right-angle orientations and one general angle x 3 non-zero child offsets, as cascaded Transforms and through Layout::flatten, every point within half a unit of the exact real composition (rounded once); three nested general angles: top at every integer degree x reflect, the middle placement at the angle that brings the product of the two back to each of the 4 right angles (x reflect, 2 non-zero offsets), the lowest at a further general angle and offset, same two ways and same tolerance; sibling instances: (no parent / a parent in each of the 8 orientations) over a cell holding three instances of one leaf - two in every pair of the 8 orientations x 2 offsets and a plain one, listed last / first / in the middle, the three named differently / all with an empty name / all with the same name - and an own rectangle, every flattened shape compared with the exact image under the placements on its own path only (multiset); angles next to a right angle: 90q + d for d in +-{{0.001, 0.004, 0.01, 0.05, 0.1, 0.25, 0.5, 0.75, 0.81, 1.5}} degrees and the fractional general angles 90q +- 22.5, +- 33.3, 44.999, 45.001, 67.5, -67.25 x reflect on points with coordinates up to 1e6, as from_instance, as a cascade over a plain child at (100000, 0) and through Layout::flatten, within half a unit. A state is one placement / chain word; non-trivial = not the identity orientation."
            ),
            assumptions: vec!["general angles: the half unit is the statement's tolerance; 1e-5 covers double-precision evaluation".into()],
            excluded: vec!["non-integer angles and magnification".into()],
            technique: "exhaustive enumeration of orientation words / offsets / grid points on the real Transform + Layout::flatten vs exact integer affine maps".into(),
        }
    }
    fn units(&self, tier: Tier) -> Vec<String> {
        let mut v = vec![];
        for i in 0..orientations().len() {
            v.push(format!("ONE:{i}"));
        }
        let d = tier.pick(3, 6);
        for depth in 1..=d {
            for o in 0..8 {
                for f in 0..3 {
                    v.push(format!("CH:{depth}:{o}:{f}"));
                }
            }
        }
        for deg in 0..360 {
            v.push(format!("DEG:{deg}"));
            v.push(format!("DEG2:{deg}"));
            v.push(format!("DEG3:{deg}"));
        }
        for pi in 0..9 {
            for s1 in 0..16 {
                v.push(format!("SIB:{pi}:{s1}"));
            }
        }
        for q in 0..4 {
            v.push(format!("NEAR:{q}"));
        }
        v
    }
    fn run_unit(&self, unit: &str, cx: &mut Cx) {
        if let Err(e) = Self::self_check() {
            cx.machinery(format!("C12 oracle self-check failed: {e}"));
            return;
        }
        cx.enter(unit);
        let parts: Vec<&str> = unit.split(':').collect();
        match parts[0] {
            "ONE" => self.single(parts[1].parse().unwrap(), cx),
            "CH" => {
                let depth: usize = parts[1].parse().unwrap();
                let first = (parts[2].parse().unwrap(), parts[3].parse().unwrap());
                let ws = Self::words(depth, first);
                let n = ws.len() as u64;
                for w in ws {
                    let key = Self::word_key(&w);
                    if cx.enter(&key) {
                        self.chain(&w, &key, cx);
                    }
                }
                cx.bulk_states(n, n);
                cx.tag(&format!("depth{depth}"));
                if depth == 2 {
                    cx.sample(|| json!({"chain_word": "[(orientation 0..8, offset 0..3) per level]", "example": format!("{:?}", vec![first, (5, 1)])}));
                }
            }
            "DEG" => self.degrees(parts[1].parse().unwrap(), cx),
            "DEG2" => self.degrees2(parts[1].parse().unwrap(), cx),
            "DEG3" => self.degrees3(parts[1].parse().unwrap(), cx),
            "SIB" => self.siblings(parts[1].parse().unwrap(), parts[2].parse().unwrap(), cx),
            "NEAR" => self.near(parts[1].parse().unwrap(), cx),
            _ => panic!("MACHINERY: C12 bad unit {unit}"),
        }
    }
    fn run_case(&self, key: &str, cx: &mut Cx) {
        if let Err(e) = Self::self_check() {
            cx.machinery(format!("C12 oracle self-check failed: {e}"));
            return;
        }
        if let Some(w) = key.strip_prefix("chain:") {
            let w = Self::parse_word(w);
            return self.chain(&w, key, cx);
        }
        if let Some(r) = key.strip_prefix("one:") {
            let oi: usize = r.split(':').next().unwrap().parse().unwrap();
            return self.single(oi, cx);
        }
        if let Some(r) = key.strip_prefix("sib:") {
            let f: Vec<usize> = r.split(':').map(|x| x.parse().unwrap()).collect();
            return self.siblings(f[0], f[1], cx);
        }
        if let Some(r) = key.strip_prefix("near:") {
            let q: u32 = r.split(':').next().unwrap().parse().unwrap();
            return self.near(q, cx);
        }
        if let Some(r) = key.strip_prefix("deg3:") {
            let d: u32 = r.split(':').next().unwrap().parse().unwrap();
            return self.degrees3(d, cx);
        }
        if let Some(r) = key.strip_prefix("deg2:") {
            let d: u32 = r.split(':').next().unwrap().parse().unwrap();
            return self.degrees2(d, cx);
        }
        if let Some(r) = key.strip_prefix("deg:") {
            let d: u32 = r.split(':').next().unwrap().parse().unwrap();
            return self.degrees(d, cx);
        }
        self.run_unit(key, cx);
    }
    fn render_case(&self, _tier: Tier, key: &str) -> Value {
        if let Some(w) = key.strip_prefix("chain:") {
            let w = Self::parse_word(w);
            let o8 = orient8();
            let lv: Vec<Value> = w
                .iter()
                .enumerate()
                .map(|(l, (o, f))| json!({"level": l, "reflect": o8[*o].0, "angle": o8[*o].1, "loc": Self::chain_offsets(l)[*f]}))
                .collect();
            return json!({"placements_outermost_first": lv});
        }
        json!({"case": key})
    }
    fn guards(&self, tier: Tier, stats: &Stats, _d: u64) -> Result<(), String> {
        require_tags(stats, &["degrees2", "degrees3", "siblings", "near-right", "reflected", "plain", "none", "0", "90", "180", "270", "-90", "-270", "450", "-630", "depth1", "depth2", "depth3"])?;
        if tier.is_thorough() {
            require_tags(stats, &["depth4", "depth5", "depth6"])?;
        }
        Ok(())
    }
}

pub fn driver() -> Box<dyn Driver> {
    Box::new(C12)
}
