//! C17 — dependency orderings are complete, duplicate-free and dependencies-first; cycles are errors.
//!
//! Generic helper (`utils::DepOrder`): every labelled digraph on <= 4 nodes incl. self-loops x every ordered
//! non-empty sub-list of the nodes as item slice; every loop-free digraph on 5 nodes x listing orders.
//! Embedded orderers through their public entry points, every digraph on <= 3 (thorough 4) nodes with
//! self-loops x every listing order: raw `DepOrder::order` + `Library::to_proto`; `Library::from_gds`
//! (GDS struct orderer); tetris `Library::dep_order`, tetris `ProtoExporter::export`; `Placer::place` over
//! functional relation graphs.

use crate::core::*;
use layout21raw as raw;
use layout21raw::utils::{DepOrder, DepOrderer, Ptr};
use layout21tetris as tetris;
use serde_json::{json, Value};
use std::cell::RefCell;

pub struct C17;

// ---------------------------------------------------------------------------------------------
// Reference: reachability, cycle detection, order validation (adjacency as bit masks, n <= 8)
// ---------------------------------------------------------------------------------------------

#[derive(Clone, Debug, PartialEq)]
pub struct Graph {
    pub n: usize,
    /// adj[i] bit j set  <=>  i depends on j
    pub adj: [u8; 8],
}
impl Graph {
    pub fn from_bits(n: usize, bits: u64, self_loops: bool) -> Graph {
        // bit order: for i in 0..n, for j in 0..n (skipping i==j when !self_loops)
        let mut adj = [0u8; 8];
        let mut k = 0;
        for i in 0..n {
            for j in 0..n {
                if i == j && !self_loops {
                    continue;
                }
                if (bits >> k) & 1 == 1 {
                    adj[i] |= 1 << j;
                }
                k += 1;
            }
        }
        Graph { n, adj }
    }
    pub fn nbits(n: usize, self_loops: bool) -> usize {
        if self_loops {
            n * n
        } else {
            n * (n - 1)
        }
    }
    pub fn reachable(&self, roots: &[usize]) -> u8 {
        let mut seen = 0u8;
        let mut stack: Vec<usize> = roots.to_vec();
        while let Some(i) = stack.pop() {
            if seen & (1 << i) != 0 {
                continue;
            }
            seen |= 1 << i;
            for j in 0..self.n {
                if self.adj[i] & (1 << j) != 0 {
                    stack.push(j);
                }
            }
        }
        seen
    }
    /// does the sub-graph induced on `set` contain a cycle (incl. self-loops)? (Kahn's algorithm)
    pub fn cyclic_within(&self, set: u8) -> bool {
        let mut remaining = set;
        loop {
            let mut removed = false;
            for i in 0..self.n {
                if remaining & (1 << i) != 0 && self.adj[i] & remaining == 0 {
                    remaining &= !(1 << i);
                    removed = true;
                }
            }
            if !removed {
                break;
            }
        }
        remaining != 0
    }
    /// Validate an ordering: exactly `set`, no duplicates, every node after all its dependencies.
    pub fn validate(&self, order: &[usize], set: u8) -> Result<(), String> {
        let mut seen = 0u8;
        for &i in order {
            if i >= self.n {
                return Err(format!("unknown item {i}"));
            }
            if seen & (1 << i) != 0 {
                return Err(format!("item {i} listed twice"));
            }
            if self.adj[i] & !seen & !(1 << i) != 0 || (self.adj[i] & (1 << i) != 0) {
                return Err(format!("item {i} listed before a dependency"));
            }
            seen |= 1 << i;
        }
        if seen != set {
            return Err(format!("ordered set {seen:#b} differs from reachable set {set:#b}"));
        }
        Ok(())
    }
    pub fn edges(&self) -> Vec<(usize, usize)> {
        let mut v = vec![];
        for i in 0..self.n {
            for j in 0..self.n {
                if self.adj[i] & (1 << j) != 0 {
                    v.push((i, j));
                }
            }
        }
        v
    }
}

fn self_check() -> Result<(), String> {
    let g = Graph::from_bits(3, 0b000_001_010, true); // 0->1, 1->0 ? compute explicitly below
    let _ = g;
    let mut g = Graph { n: 3, adj: [0; 8] };
    g.adj[0] = 0b010; // 0 depends on 1
    g.adj[1] = 0b100; // 1 depends on 2
    if g.reachable(&[0]) != 0b111 || g.reachable(&[1]) != 0b110 || g.cyclic_within(0b111) {
        return Err("graph facts 1".into());
    }
    if g.validate(&[2, 1, 0], 0b111).is_err() || g.validate(&[1, 2, 0], 0b111).is_ok() || g.validate(&[2, 1], 0b111).is_ok() || g.validate(&[2, 2, 1, 0], 0b111).is_ok() {
        return Err("graph facts 2".into());
    }
    g.adj[2] = 0b001; // 2 depends on 0: cycle
    if !g.cyclic_within(0b111) {
        return Err("graph facts 3".into());
    }
    let mut h = Graph { n: 2, adj: [0; 8] };
    h.adj[1] = 0b10; // self loop on 1
    if !h.cyclic_within(0b10) || h.cyclic_within(0b01) || h.reachable(&[0]) != 0b01 {
        return Err("graph facts 4".into());
    }
    Ok(())
}

/// all permutations of 0..n
fn perms(n: usize) -> Vec<Vec<usize>> {
    fn rec(cur: &mut Vec<usize>, used: u32, n: usize, out: &mut Vec<Vec<usize>>) {
        if cur.len() == n {
            out.push(cur.clone());
            return;
        }
        for i in 0..n {
            if used & (1 << i) == 0 {
                cur.push(i);
                rec(cur, used | (1 << i), n, out);
                cur.pop();
            }
        }
    }
    let mut out = vec![];
    rec(&mut vec![], 0, n, &mut out);
    out
}
/// all ordered non-empty sub-lists (arrangements) of 0..n
fn arrangements(n: usize) -> Vec<Vec<usize>> {
    fn rec(cur: &mut Vec<usize>, used: u32, n: usize, out: &mut Vec<Vec<usize>>) {
        if !cur.is_empty() {
            out.push(cur.clone());
        }
        for i in 0..n {
            if used & (1 << i) == 0 {
                cur.push(i);
                rec(cur, used | (1 << i), n, out);
                cur.pop();
            }
        }
    }
    let mut out = vec![];
    rec(&mut vec![], 0, n, &mut out);
    out
}

/// every sequence over 0..n of length 2..=maxlen in which some node occurs more than once
fn listings_with_repeats(n: usize, maxlen: usize) -> Vec<Vec<usize>> {
    let mut out = vec![];
    for len in 2..=maxlen {
        let total = n.pow(len as u32);
        for code in 0..total {
            let mut c = code;
            let seq: Vec<usize> = (0..len)
                .map(|_| {
                    let d = c % n;
                    c /= n;
                    d
                })
                .collect();
            let mut seen = 0u32;
            let mut rep = false;
            for &x in &seq {
                if seen & (1 << x) != 0 {
                    rep = true;
                }
                seen |= 1 << x;
            }
            if rep {
                out.push(seq);
            }
        }
    }
    out
}

// ---------------------------------------------------------------------------------------------
// Generic helper under test
// ---------------------------------------------------------------------------------------------

thread_local! {
    static GRAPH: RefCell<[u8; 8]> = RefCell::new([0; 8]);
    static NNODES: RefCell<usize> = RefCell::new(0);
}
struct NodeOrder;
impl DepOrder for NodeOrder {
    type Item = u8;
    type Error = ();
    fn process(item: &u8, orderer: &mut DepOrderer<Self>) -> Result<(), ()> {
        let adj = GRAPH.with(|g| g.borrow()[*item as usize]);
        let n = NNODES.with(|n| *n.borrow());
        for j in 0..n {
            if adj & (1 << j) != 0 {
                orderer.push(&(j as u8))?;
            }
        }
        Ok(())
    }
    fn fail() -> Result<(), ()> {
        Err(())
    }
}

// ---------------------------------------------------------------------------------------------
// Large structured graphs (sizes around and beyond 64 / 128 / 256 nodes)
// ---------------------------------------------------------------------------------------------

/// adjacency lists: i depends on every j in adj[i]
#[derive(Clone, Debug)]
pub struct BigGraph {
    pub adj: Vec<Vec<usize>>,
}
pub const BIG_FAMILIES: [&str; 8] = ["chain", "all-on-one", "one-on-all", "binary-tree", "ladder", "chain-closed-into-a-ring-half-way", "all-on-one-and-a-two-cycle", "layered-complete"];
pub const BIG_SIZES: [usize; 4] = [65, 66, 130, 300];
pub const BIG_LISTINGS: [&str; 6] = ["ascending", "descending", "rotated", "evens-then-odds", "first-only", "last-only"];
impl BigGraph {
    pub fn family(f: usize, n: usize) -> BigGraph {
        let mut adj: Vec<Vec<usize>> = vec![vec![]; n];
        match f {
            0 => (0..n - 1).for_each(|i| adj[i].push(i + 1)),
            1 => (1..n).for_each(|i| adj[i].push(0)),
            2 => (1..n).for_each(|i| adj[0].push(i)),
            3 => (0..n).for_each(|i| {
                for c in [2 * i + 1, 2 * i + 2] {
                    if c < n {
                        adj[i].push(c)
                    }
                }
            }),
            4 => (0..n).for_each(|i| {
                for c in [i + 1, i + 2] {
                    if c < n {
                        adj[i].push(c)
                    }
                }
            }),
            5 => {
                (0..n - 1).for_each(|i| adj[i].push(i + 1));
                adj[n - 1].push(n / 2);
            }
            6 => {
                (1..n).for_each(|i| adj[i].push(0));
                adj[n - 2].push(n - 1);
                adj[n - 1].push(n - 2);
            }
            _ => {
                // layers of 10: every node depends on every node of the next layer
                (0..n).for_each(|i| {
                    let next = (i / 10 + 1) * 10;
                    for c in next..(next + 10).min(n) {
                        adj[i].push(c);
                    }
                })
            }
        }
        BigGraph { adj }
    }
    pub fn listing(l: usize, n: usize) -> Vec<usize> {
        match l {
            0 => (0..n).collect(),
            1 => (0..n).rev().collect(),
            2 => (0..n).map(|i| (i + n / 3) % n).collect(),
            3 => (0..n).step_by(2).chain((1..n).step_by(2)).collect(),
            4 => vec![0],
            _ => vec![n - 1],
        }
    }
    pub fn reachable(&self, roots: &[usize]) -> Vec<bool> {
        let mut seen = vec![false; self.adj.len()];
        let mut stack: Vec<usize> = roots.to_vec();
        while let Some(i) = stack.pop() {
            if !seen[i] {
                seen[i] = true;
                stack.extend(self.adj[i].iter().copied());
            }
        }
        seen
    }
    /// Kahn elimination restricted to `set`: true if something remains
    pub fn cyclic_within(&self, set: &[bool]) -> bool {
        let n = self.adj.len();
        let mut outdeg: Vec<usize> = (0..n).map(|i| if set[i] { self.adj[i].iter().filter(|j| set[**j]).count() } else { 0 }).collect();
        let mut users: Vec<Vec<usize>> = vec![vec![]; n];
        for i in 0..n {
            if set[i] {
                for &j in &self.adj[i] {
                    if set[j] {
                        users[j].push(i);
                    }
                }
            }
        }
        let mut ready: Vec<usize> = (0..n).filter(|i| set[*i] && outdeg[*i] == 0).collect();
        let mut done = 0usize;
        while let Some(j) = ready.pop() {
            done += 1;
            for &i in &users[j] {
                outdeg[i] -= 1;
                if outdeg[i] == 0 {
                    ready.push(i);
                }
            }
        }
        done != set.iter().filter(|b| **b).count()
    }
    pub fn validate(&self, order: &[usize], set: &[bool]) -> Result<(), String> {
        let n = self.adj.len();
        let mut pos = vec![usize::MAX; n];
        for (k, &i) in order.iter().enumerate() {
            if i >= n || !set[i] {
                return Err(format!("item {i} is not reachable from the listing"));
            }
            if pos[i] != usize::MAX {
                return Err(format!("item {i} listed twice"));
            }
            pos[i] = k;
        }
        for i in 0..n {
            if set[i] && pos[i] == usize::MAX {
                return Err(format!("reachable item {i} is missing"));
            }
            if set[i] {
                for &j in &self.adj[i] {
                    if pos[j] > pos[i] {
                        return Err(format!("item {i} listed before its dependency {j}"));
                    }
                }
            }
        }
        Ok(())
    }
}
thread_local! {
    static BIG: RefCell<Vec<Vec<usize>>> = RefCell::new(vec![]);
}
struct BigOrder;
impl DepOrder for BigOrder {
    type Item = u16;
    type Error = ();
    fn process(item: &u16, orderer: &mut DepOrderer<Self>) -> Result<(), ()> {
        let deps: Vec<usize> = BIG.with(|g| g.borrow()[*item as usize].clone());
        for j in deps {
            orderer.push(&(j as u16))?;
        }
        Ok(())
    }
    fn fail() -> Result<(), ()> {
        Err(())
    }
}

fn gkey(part: &str, n: usize, loops: bool, bits: u64, order: &[usize]) -> String {
    let o: Vec<String> = order.iter().map(|x| x.to_string()).collect();
    format!("{part}:{n}:{}:{bits}:{}", loops as u8, o.join(""))
}
fn parse_gkey(key: &str) -> Option<(String, usize, bool, u64, Vec<usize>)> {
    let p: Vec<&str> = key.split(':').collect();
    if p.len() != 5 {
        return None;
    }
    Some((
        p[0].to_string(),
        p[1].parse().ok()?,
        p[2] == "1",
        p[3].parse().ok()?,
        p[4].bytes().map(|b| (b - b'0') as usize).collect(),
    ))
}

impl C17 {
    fn judge(&self, key: &str, who: &str, g: &Graph, roots: &[usize], res: Result<Result<Vec<usize>, String>, PanicInfo>, cx: &mut Cx) {
        cx.stats.evaluations += 1;
        let set = g.reachable(roots);
        let cyclic = g.cyclic_within(set);
        match res {
            Err(p) => {
                cx.outcome("panic");
                cx.fail(key, &format!("{who}-panic"), None, || format!("{who}: {} on graph {:?} roots {roots:?}", p.short(), g.edges()), || json!({"edges": g.edges(), "roots": roots}))
            }
            Ok(Err(e)) => {
                if cyclic {
                    cx.outcome("cycle-error");
                } else {
                    cx.outcome("spurious-error");
                    cx.fail(
                        key,
                        &format!("{who}-spurious-error"),
                        None,
                        || format!("{who}: acyclic graph {:?} roots {roots:?} rejected: {}", g.edges(), truncate(&e, 160)),
                        || json!({"edges": g.edges(), "roots": roots}),
                    );
                }
            }
            Ok(Ok(order)) => {
                if cyclic {
                    cx.outcome("cycle-accepted");
                    cx.fail(
                        key,
                        &format!("{who}-cycle-accepted"),
                        None,
                        || format!("{who}: graph {:?} roots {roots:?} has a reachable cycle but an ordering {order:?} was produced", g.edges()),
                        || json!({"edges": g.edges(), "roots": roots, "order": order}),
                    );
                } else if let Err(why) = g.validate(&order, set) {
                    cx.outcome("bad-order");
                    cx.fail(
                        key,
                        &format!("{who}-bad-order"),
                        None,
                        || format!("{who}: graph {:?} roots {roots:?}: ordering {order:?}: {why}", g.edges()),
                        || json!({"edges": g.edges(), "roots": roots, "order": order, "why": why}),
                    );
                } else {
                    cx.outcome("ordered");
                }
            }
        }
    }

    fn run_generic(&self, g: &Graph, roots: &[usize], key: &str, cx: &mut Cx) {
        cx.stats.executions += 1;
        cx.stats.transitions += roots.len() as u64;
        GRAPH.with(|x| *x.borrow_mut() = g.adj);
        NNODES.with(|x| *x.borrow_mut() = g.n);
        let items: Vec<u8> = roots.iter().map(|r| *r as u8).collect();
        let res = guard(|| NodeOrder::order(&items).map(|v| v.into_iter().map(|x| x as usize).collect::<Vec<usize>>()).map_err(|_| "error".to_string()));
        self.judge(key, "generic", g, roots, res, cx);
    }

    // ---------------- raw ----------------
    /// `variant` 1: cells without outgoing edges are abstract-only (no layout view); 2: every cell has both an
    /// abstract and a layout view
    fn build_raw(g: &Graph, listing: &[usize], variant: u8) -> (raw::Library, Vec<String>) {
        let abs_sinks = variant == 1;
        let names: Vec<String> = (0..g.n).map(|i| format!("c{i}")).collect();
        let ptrs: Vec<Ptr<raw::Cell>> = (0..g.n)
            .map(|i| {
                if abs_sinks && g.adj[i] == 0 {
                    let outline = raw::Polygon { points: vec![raw::Point::new(0, 0), raw::Point::new(5, 0), raw::Point::new(5, 5), raw::Point::new(0, 5)] };
                    Ptr::new(raw::Cell::from(raw::Abstract::new(names[i].clone(), outline)))
                } else if variant == 4 && g.adj[i] == 0 {
                    // a sink without any view (a placeholder cell): still a cell of the ordering
                    Ptr::new(raw::Cell { name: names[i].clone(), ..Default::default() })
                } else {
                    Ptr::new(raw::Cell::from(raw::Layout { name: names[i].clone(), insts: vec![], elems: vec![], annotations: vec![] }))
                }
            })
            .collect();
        for i in 0..g.n {
            for j in 0..g.n {
                if g.adj[i] & (1 << j) != 0 {
                    let inst = raw::Instance { inst_name: format!("i{i}_{j}"), cell: ptrs[j].clone(), loc: raw::Point::new(i as isize, j as isize), reflect_vert: false, angle: None };
                    ptrs[i].write().unwrap().layout.as_mut().unwrap().insts.push(inst);
                }
            }
        }
        if variant == 2 {
            for i in 0..g.n {
                let outline = raw::Polygon { points: vec![raw::Point::new(0, 0), raw::Point::new(5, 0), raw::Point::new(5, 5), raw::Point::new(0, 5)] };
                ptrs[i].write().unwrap().abs = Some(raw::Abstract::new(names[i].clone(), outline));
            }
        }
        if variant == 3 {
            // all cells go by one and the same cell name (the layouts keep c0, c1, ...): distinct cells all the same
            for p in &ptrs {
                p.write().unwrap().name = "cell".into();
            }
        }
        let mut lib = raw::Library::new("lib", raw::Units::Nano);
        for &i in listing {
            lib.cells.push(ptrs[i].clone());
        }
        (lib, names)
    }
    fn idx_of(names: &[String], n: &str) -> usize {
        names.iter().position(|x| x == n).unwrap_or(usize::MAX)
    }
    fn run_raw(&self, g: &Graph, listing: &[usize], key: &str, cx: &mut Cx) {
        self.run_raw_variant(g, listing, key, 0, cx);
        if (0..g.n).any(|i| g.adj[i] == 0) {
            self.run_raw_variant(g, listing, key, 1, cx);
            cx.tag("raw-abstract-only-sinks");
        }
        self.run_raw_variant(g, listing, key, 2, cx);
        cx.tag("raw-both-views");
        if g.n >= 2 {
            self.run_raw_variant(g, listing, key, 3, cx);
            cx.tag("raw-cells-sharing-a-name");
        }
        if (0..g.n).any(|i| g.adj[i] == 0) {
            self.run_raw_variant(g, listing, key, 4, cx);
            cx.tag("raw-viewless-sinks");
        }
    }
    fn run_raw_variant(&self, g: &Graph, listing: &[usize], key: &str, variant: u8, cx: &mut Cx) {
        cx.stats.executions += 2;
        cx.stats.transitions += listing.len() as u64;
        let (lib, names) = Self::build_raw(g, listing, variant);
        let res = guard(|| {
            raw::DepOrder::order(&lib)
                .map(|v| v.iter().map(|p| Self::idx_of(&names, &p.read().unwrap().layout.as_ref().map(|l| l.name.clone()).unwrap_or_else(|| p.read().unwrap().name.clone()))).collect::<Vec<usize>>())
                .map_err(|e| format!("{e:?}"))
        });
        self.judge(key, ["raw-DepOrder", "raw-DepOrder+abstract-only-sinks", "raw-DepOrder+both-views", "raw-DepOrder+cells-sharing-a-name", "raw-DepOrder+viewless-sinks"][variant as usize], g, listing, res, cx);
        if variant == 3 {
            // (the protobuf schema refers to cells by name: not exported)
            for p in lib.cells.iter() {
                if let Ok(mut c) = p.write() {
                    c.layout = None;
                }
            }
            return;
        }
        let res = guard(|| lib.to_proto().map(|p| p.cells.iter().map(|c| Self::idx_of(&names, &c.name)).collect::<Vec<usize>>()).map_err(|e| format!("{e:?}")));
        self.judge(key, ["raw-to_proto", "raw-to_proto+abstract-only-sinks", "raw-to_proto+both-views", "raw-to_proto+cells-sharing-a-name", "raw-to_proto+viewless-sinks"][variant as usize], g, listing, res, cx);
        // break the reference cycles so that the memory is freed
        for p in lib.cells.iter() {
            if let Ok(mut c) = p.write() {
                c.layout = None;
            }
        }
    }

    // ---------------- gds ----------------
    fn run_gds(&self, g: &Graph, listing: &[usize], key: &str, cx: &mut Cx) {
        self.run_gds_named(g, listing, key, false, cx);
        if g.n >= 2 {
            // struct names that differ only in letter case (GDSII names are case-sensitive)
            self.run_gds_named(g, listing, key, true, cx);
            cx.tag("gds-names-differ-only-in-case");
        }
    }
    fn run_gds_named(&self, g: &Graph, listing: &[usize], key: &str, case_names: bool, cx: &mut Cx) {
        use gds21::*;
        cx.stats.executions += 1;
        cx.stats.transitions += listing.len() as u64;
        const CASE_NAMES: [&str; 8] = ["inv", "INV", "Inv", "iNV", "inV", "InV", "iNv", "INv"];
        let names: Vec<String> = (0..g.n).map(|i| if case_names { CASE_NAMES[i].to_string() } else { format!("s{i}") }).collect();
        let mut lib = GdsLibrary::new("lib");
        lib.units = GdsUnits::new(1e-3, 1e-9);
        for &i in listing {
            let mut s = GdsStruct::new(names[i].clone());
            for j in 0..g.n {
                if g.adj[i] & (1 << j) != 0 {
                    if (i + j) % 2 == 0 {
                        s.elems.push(GdsElement::GdsStructRef(GdsStructRef { name: names[j].clone(), xy: GdsPoint::new(i as i32, j as i32), ..Default::default() }));
                    } else {
                        s.elems.push(GdsElement::GdsArrayRef(GdsArrayRef {
                            name: names[j].clone(),
                            xy: [GdsPoint::new(0, 0), GdsPoint::new(20, 0), GdsPoint::new(0, 30)],
                            cols: 2,
                            rows: 3,
                            ..Default::default()
                        }));
                    }
                }
            }
            lib.structs.push(s);
        }
        let res = guard(|| {
            raw::Library::from_gds(&lib, None)
                .map(|l| l.cells.iter().map(|p| Self::idx_of(&names, &p.read().unwrap().name)).collect::<Vec<usize>>())
                .map_err(|e| format!("{e:?}"))
        });
        self.judge(key, if case_names { "gds-import+names-differ-only-in-case" } else { "gds-import" }, g, listing, res, cx);
    }

    // ---------------- tetris ----------------
    fn empty_stack() -> tetris::validate::ValidStack {
        let mut rawlayers = raw::Layers::default();
        let boundary_layer = Some(rawlayers.add(raw::Layer::from_pairs(0, &[(0, raw::LayerPurpose::Outline)]).unwrap()));
        let stack = tetris::stack::Stack {
            units: raw::Units::default(),
            boundary_layer,
            prim: tetris::stack::PrimitiveLayer::new((100, 100).into()),
            metals: Vec::new(),
            vias: Vec::new(),
            rawlayers: Some(Ptr::new(rawlayers)),
        };
        stack.validate().expect("MACHINERY: empty stack must validate")
    }
    fn build_tetris(g: &Graph, listing: &[usize], variant: u8) -> (tetris::library::Library, Vec<String>, Vec<Ptr<tetris::cell::Cell>>) {
        let abs_sinks = variant == 1;
        use tetris::{cell::Cell, instance::Instance, layout::Layout, outline::Outline};
        let names: Vec<String> = (0..g.n).map(|i| format!("t{i}")).collect();
        let ptrs: Vec<Ptr<Cell>> = (0..g.n)
            .map(|i| {
                let outline = Outline::rect(10 + i as isize, 10).unwrap();
                if abs_sinks && g.adj[i] == 0 {
                    Ptr::new(Cell::from(tetris::abs::Abstract::new(names[i].clone(), 0, outline)))
                } else if variant == 3 && g.adj[i] == 0 {
                    // a sink that wraps a raw layout
                    let rawlay = raw::Layout { name: names[i].clone(), insts: vec![], elems: vec![], annotations: vec![] };
                    Ptr::new(Cell::from(tetris::cell::RawLayoutPtr { outline, metals: 0, lib: Ptr::new(raw::Library::new("wrapped", raw::Units::Nano)), cell: Ptr::new(raw::Cell::from(rawlay)) }))
                } else {
                    Ptr::new(Cell::from(Layout::new(names[i].clone(), 0, outline)))
                }
            })
            .collect();
        for i in 0..g.n {
            for j in 0..g.n {
                if g.adj[i] & (1 << j) != 0 {
                    let inst = Instance { inst_name: format!("i{i}_{j}"), cell: ptrs[j].clone(), loc: (i as isize, j as isize).into(), reflect_horiz: false, reflect_vert: false };
                    ptrs[i].write().unwrap().layout.as_mut().unwrap().instances.add(inst);
                }
            }
        }
        if variant == 2 {
            for i in 0..g.n {
                let outline = Outline::rect(10 + i as isize, 10).unwrap();
                ptrs[i].write().unwrap().abs = Some(tetris::abs::Abstract::new(names[i].clone(), 0, outline));
            }
        }
        let mut lib = tetris::library::Library::new("tlib");
        for &i in listing {
            lib.cells.push(ptrs[i].clone());
        }
        (lib, names, ptrs)
    }
    fn run_tetris(&self, g: &Graph, listing: &[usize], key: &str, cx: &mut Cx) {
        self.run_tetris_variant(g, listing, key, 0, cx);
        if (0..g.n).any(|i| g.adj[i] == 0) {
            self.run_tetris_variant(g, listing, key, 1, cx);
            cx.tag("tetris-abstract-only-sinks");
        }
        self.run_tetris_variant(g, listing, key, 2, cx);
        cx.tag("tetris-both-views");
        if (0..g.n).any(|i| g.adj[i] == 0) {
            self.run_tetris_variant(g, listing, key, 3, cx);
            cx.tag("tetris-raw-wrapping-sinks");
        }
        // acyclic graphs whose edges are arrays handed over in `Layout::places` (they become instances only when the
        // cell is placed): gridded -> raw lists every cell after the cells it places
        if g.adj.iter().take(g.n).any(|a| *a != 0) && !g.cyclic_within(g.reachable(listing)) {
            use tetris::array::{Array, ArrayInstance, Arrayable};
            use tetris::placement::{Placeable, SepBy, Separation};
            use tetris::{cell::Cell, layout::Layout, outline::Outline};
            cx.stats.executions += 1;
            cx.stats.transitions += listing.len() as u64;
            let names: Vec<String> = (0..g.n).map(|i| format!("t{i}")).collect();
            let ptrs: Vec<Ptr<Cell>> = (0..g.n).map(|i| Ptr::new(Cell::from(Layout::new(names[i].clone(), 0, Outline::rect(40 + i as isize, 40).unwrap())))).collect();
            for i in 0..g.n {
                for j in 0..g.n {
                    if g.adj[i] & (1 << j) != 0 {
                        let ai = ArrayInstance {
                            name: format!("a{i}_{j}"),
                            loc: (0, j as isize).into(),
                            reflect_vert: false,
                            reflect_horiz: false,
                            array: Ptr::new(Array { name: format!("row{i}_{j}"), unit: Arrayable::Instance(ptrs[j].clone()), count: 2, sep: Separation::x(SepBy::UnitSpeced(tetris::coords::PrimPitches::x(50).into())) }),
                        };
                        ptrs[i].write().unwrap().layout.as_mut().unwrap().places.push(Placeable::Array(Ptr::new(ai)));
                    }
                }
            }
            let mut lib = tetris::library::Library::new("tlib");
            for &i in listing {
                lib.cells.push(ptrs[i].clone());
            }
            let res = guard(|| {
                tetris::conv::raw::RawExporter::convert(lib, Self::empty_stack())
                    .map(|p| p.read().unwrap().cells.iter().map(|c| Self::idx_of(&names, &c.read().unwrap().name)).collect::<Vec<usize>>())
                    .map_err(|e| format!("{e:?}"))
            });
            self.judge(key, "tetris-to-raw+arrays-in-places", g, listing, res, cx);
            cx.tag("tetris-arrays-in-places");
            for p in &ptrs {
                if let Ok(mut c) = p.write() {
                    c.layout = None;
                }
            }
        }
        // not yet placed: every instance after the first of its cell is placed relative to its predecessor
        if (0..g.n).any(|i| g.adj[i].count_ones() >= 2) {
            cx.stats.executions += 1;
            let (lib, names, ptrs) = Self::build_tetris(g, listing, 0);
            for p in &ptrs {
                let c = p.read().unwrap();
                if let Some(lay) = &c.layout {
                    let insts: Vec<Ptr<tetris::instance::Instance>> = lay.instances.iter().cloned().collect();
                    for k in 1..insts.len() {
                        use tetris::placement::*;
                        insts[k].write().unwrap().loc = Place::Rel(RelativePlace { to: Placeable::Instance(insts[k - 1].clone()), side: Side::Right, align: Align::Side(Side::Bottom), sep: Separation::default() });
                    }
                }
            }
            let res = guard(|| {
                lib.dep_order().map(|v| v.iter().map(|p| Self::idx_of(&names, &p.read().unwrap().name)).collect::<Vec<usize>>()).map_err(|e| format!("{e:?}"))
            });
            self.judge(key, "tetris-dep_order+relative-instances", g, listing, res, cx);
            cx.tag("tetris-relative-instances");
            for p in &ptrs {
                if let Ok(mut c) = p.write() {
                    c.layout = None;
                    c.abs = None;
                }
            }
        }
    }
    fn run_tetris_variant(&self, g: &Graph, listing: &[usize], key: &str, variant: u8, cx: &mut Cx) {
        cx.stats.executions += 3;
        cx.stats.transitions += listing.len() as u64;
        let (lib, names, ptrs) = Self::build_tetris(g, listing, variant);
        let res = guard(|| {
            lib.dep_order().map(|v| v.iter().map(|p| Self::idx_of(&names, &p.read().unwrap().name)).collect::<Vec<usize>>()).map_err(|e| format!("{e:?}"))
        });
        self.judge(key, ["tetris-dep_order", "tetris-dep_order+abstract-only-sinks", "tetris-dep_order+both-views", "tetris-dep_order+raw-wrapping-sinks"][variant as usize], g, listing, res, cx);
        // the same library object ordered again after an edit that keeps the number of cells: one more instance
        // (the first edge i -> j, i != j, the graph does not have, from a cell that has a layout)
        {
            let mut edit: Option<(usize, usize)> = None;
            'outer: for i in 0..g.n {
                for j in 0..g.n {
                    if i != j && g.adj[i] & (1 << j) == 0 && ptrs[i].read().unwrap().layout.is_some() {
                        edit = Some((i, j));
                        break 'outer;
                    }
                }
            }
            if let Some((i, j)) = edit {
                let inst = tetris::instance::Instance { inst_name: format!("late{i}_{j}"), cell: ptrs[j].clone(), loc: (i as isize, j as isize).into(), reflect_horiz: false, reflect_vert: false };
                ptrs[i].write().unwrap().layout.as_mut().unwrap().instances.add(inst);
                let mut g2 = Graph { n: g.n, adj: g.adj };
                g2.adj[i] |= 1 << j;
                cx.stats.executions += 1;
                let res = guard(|| {
                    lib.dep_order().map(|v| v.iter().map(|p| Self::idx_of(&names, &p.read().unwrap().name)).collect::<Vec<usize>>()).map_err(|e| format!("{e:?}"))
                });
                self.judge(key, "tetris-dep_order-after-an-edit", &g2, listing, res, cx);
                cx.tag("tetris-order-after-edit");
                // undo the edit for the remaining orderers of this case
                let mut c = ptrs[i].write().unwrap();
                let lay = c.layout.as_mut().unwrap();
                let keep: Vec<_> = lay.instances.iter().filter(|p| !p.read().unwrap().inst_name.starts_with("late")).cloned().collect();
                lay.instances = keep.into();
            }
        }
        let res = guard(|| {
            tetris::conv::proto::ProtoExporter::export(&lib).map(|p| p.cells.iter().map(|c| Self::idx_of(&names, &c.name)).collect::<Vec<usize>>()).map_err(|e| format!("{e:?}"))
        });
        self.judge(key, ["tetris-proto-export", "tetris-proto-export+abstract-only-sinks", "tetris-proto-export+both-views", "tetris-proto-export+raw-wrapping-sinks"][variant as usize], g, listing, res, cx);
        // Placer::place walks the cells in dependency order as well
        let res = guard(|| {
            tetris::placer::Placer::place(lib, Self::empty_stack())
                .map(|(l, _)| l.cells.iter().map(|p| Self::idx_of(&names, &p.read().unwrap().name)).collect::<Vec<usize>>())
                .map_err(|e| format!("{e:?}"))
        });
        // place() returns the library (cells in listing order), not the order; judge only error/ok and cell set
        cx.stats.evaluations += 1;
        let set = g.reachable(listing);
        let cyclic = g.cyclic_within(set);
        match res {
            Err(p) => cx.fail(key, "tetris-place-panic", None, || format!("Placer::place {} on cell graph {:?}", p.short(), g.edges()), || Value::Null),
            Ok(Err(_)) if cyclic => cx.outcome("cycle-error"),
            Ok(Err(e)) => cx.fail(key, "tetris-place-spurious-error", None, || format!("Placer::place rejected acyclic cell graph {:?}: {}", g.edges(), truncate(&e, 160)), || Value::Null),
            Ok(Ok(_)) if cyclic => cx.fail(key, "tetris-place-cycle-accepted", None, || format!("Placer::place accepted cyclic cell graph {:?}", g.edges()), || Value::Null),
            Ok(Ok(_)) => cx.outcome("ordered"),
        }
        for p in ptrs.iter() {
            if let Ok(mut c) = p.write() {
                c.layout = None;
            }
        }
    }

    /// functional relation graph: f[i] = n means absolute, otherwise relative to instance f[i]
    fn run_place(&self, f: &[usize], listing: &[usize], key: &str, cx: &mut Cx) {
        self.run_place_listed(f, listing, listing.len(), false, key, cx);
        if f.iter().any(|&t| t < f.len()) {
            // the relatively placed instances handed over in `Layout::places` (as `Placeable::Instance`) instead
            self.run_place_listed(f, listing, listing.len(), true, key, cx);
            cx.tag("place-order-via-places");
        }
        // the first listed instance named a second time, as a `Placeable::Instance` in `Layout::places`: still placed once
        self.run_place_listed(f, listing, listing.len() + 1000, false, key, cx);
        cx.tag("place-order-instance-named-twice");
        if listing.len() >= 2 {
            // the last instance of the listing exists but is not listed in the layout: it takes part only if some
            // listed instance is placed relative to it (directly or through a chain)
            self.run_place_listed(f, listing, listing.len() - 1, false, key, cx);
            cx.tag("place-order-unlisted-target");
        }
    }
    fn run_place_listed(&self, f: &[usize], listing: &[usize], nlisted: usize, via_places: bool, key: &str, cx: &mut Cx) {
        use tetris::{instance::Instance, layout::Layout, outline::Outline, placement::*};
        cx.stats.executions += 1;
        cx.stats.transitions += listing.len() as u64;
        let n = f.len();
        let mut g = Graph { n, adj: [0; 8] };
        for i in 0..n {
            if f[i] < n {
                g.adj[i] |= 1 << f[i];
            }
        }
        let twice = nlisted >= 1000;
        let nlisted = if twice { nlisted - 1000 } else { nlisted };
        let sfx = if twice { "-named-twice" } else if via_places { "-via-places" } else if nlisted == listing.len() { "" } else { "-unlisted-target" };
        let listed: Vec<usize> = listing[..nlisted].to_vec();
        let mut lib = tetris::library::Library::new("plib");
        let unit = lib.cells.add(Layout::new("unit", 0, Outline::rect(3, 7).unwrap()));
        let mut parent = Layout::new("parent", 0, Outline::rect(100, 100).unwrap());
        let mut iptrs: Vec<Option<Ptr<Instance>>> = vec![None; n];
        for (k, &i) in listing.iter().enumerate() {
            let inst = Instance { inst_name: format!("i{i}"), cell: unit.clone(), loc: (10 * i as isize, 5).into(), reflect_horiz: false, reflect_vert: false };
            iptrs[i] = Some(if k >= nlisted {
                Ptr::new(inst)
            } else if via_places && f[i] < n {
                let p = Ptr::new(inst);
                parent.places.push(Placeable::Instance(p.clone()));
                p
            } else {
                parent.instances.add(inst)
            });
        }
        for i in 0..n {
            if f[i] < n {
                let to = Placeable::Instance(iptrs[f[i]].clone().unwrap());
                iptrs[i].as_ref().unwrap().write().unwrap().loc = Place::Rel(RelativePlace { to, side: Side::Right, align: Align::Side(Side::Bottom), sep: Separation::default() });
            }
        }
        if twice {
            if let Some(p) = &iptrs[listing[0]] {
                parent.places.push(Placeable::Instance(p.clone()));
            }
        }
        lib.cells.add(parent);
        // the placed layout lists its instances in placement order
        let res = guard(|| {
            tetris::placer::Placer::place(lib, Self::empty_stack())
                .map(|(l, _)| {
                    let mut names: Vec<String> = vec![];
                    for c in l.cells.iter() {
                        let c = c.read().unwrap();
                        if c.name == "parent" {
                            if let Some(lay) = &c.layout {
                                names = lay.instances.iter().map(|i| i.read().unwrap().inst_name.clone()).collect();
                            }
                        }
                    }
                    names
                })
                .map_err(|e| format!("{e:?}"))
        });
        cx.stats.evaluations += 1;
        let reach = g.reachable(&listed);
        let cyclic = g.cyclic_within(reach);
        let all_abs = || (0..n).filter(|i| reach & (1 << i) != 0).all(|i| matches!(iptrs[i].as_ref().unwrap().read().unwrap().loc, Place::Abs(_)));
        match res {
            Err(p) => cx.fail(key, &format!("place-order-panic{sfx}"), None, || format!("Placer::place {} on relation graph {f:?} listing {listed:?}", p.short()), || Value::Null),
            Ok(Err(_)) if cyclic => cx.outcome("cycle-error"),
            Ok(Err(e)) => cx.fail(key, &format!("place-order-spurious-error{sfx}"), None, || format!("Placer::place rejected acyclic relation graph {f:?} listing {listed:?}: {}", truncate(&e, 160)), || Value::Null),
            Ok(Ok(_)) if cyclic => cx.fail(key, &format!("place-order-cycle-accepted{sfx}"), None, || format!("Placer::place accepted cyclic relation graph {f:?} listing {listed:?}"), || Value::Null),
            Ok(Ok(names)) => {
                if !all_abs() {
                    cx.fail(key, &format!("place-order-incomplete{sfx}"), None, || format!("after Placer::place some instance of relation graph {f:?} listing {listed:?} is still relative"), || Value::Null)
                } else {
                    // the placement order: exactly the reachable instances, each once, every one after its reference
                    let order: Vec<usize> = names.iter().map(|s| s.trim_start_matches('i').parse::<usize>().unwrap_or(usize::MAX)).collect();
                    let mut bad: Option<String> = None;
                    let mut seen = 0u8;
                    for &i in &order {
                        if i >= n || reach & (1 << i) == 0 {
                            bad = Some(format!("lists {:?}, which is not reachable from the listing", names));
                            break;
                        }
                        if seen & (1 << i) != 0 {
                            bad = Some(format!("instance i{i} listed twice"));
                            break;
                        }
                        if f[i] < n && seen & (1 << f[i]) == 0 {
                            bad = Some(format!("instance i{i} comes before the instance i{} it is placed relative to", f[i]));
                            break;
                        }
                        seen |= 1 << i;
                    }
                    if bad.is_none() && seen != reach {
                        bad = Some("an instance reachable from the listing is missing".to_string());
                    }
                    match bad {
                        None => cx.outcome("ordered"),
                        Some(why) => cx.fail(key, &format!("place-order-bad-order{sfx}"), None, || format!("relation graph {f:?} listing {listed:?}: placement order {names:?}: {why}"), || Value::Null),
                    }
                }
            }
        }
        // break cycles
        for p in iptrs.iter().flatten() {
            if let Ok(mut i) = p.write() {
                i.loc = (0, 0).into();
            }
        }
    }

    fn judge_big(&self, key: &str, who: &str, g: &BigGraph, roots: &[usize], res: Result<Result<Vec<usize>, String>, PanicInfo>, cx: &mut Cx) {
        cx.stats.evaluations += 1;
        let set = g.reachable(roots);
        let cyclic = g.cyclic_within(&set);
        match res {
            Err(p) => cx.fail(key, &format!("{who}-panic"), None, || format!("{who}: {} on {key}", p.short()), || Value::Null),
            Ok(Err(e)) => {
                if cyclic {
                    cx.outcome("cycle-error");
                } else {
                    cx.fail(key, &format!("{who}-spurious-error"), None, || format!("{who}: the acyclic graph {key} is rejected: {}", truncate(&e, 160)), || Value::Null);
                }
            }
            Ok(Ok(order)) => {
                if cyclic {
                    cx.fail(key, &format!("{who}-cycle-accepted"), None, || format!("{who}: {key} has a reachable cycle but an ordering of {} items was produced", order.len()), || Value::Null);
                } else if let Err(why) = g.validate(&order, &set) {
                    cx.fail(key, &format!("{who}-bad-order"), None, || format!("{who}: {key}: ordering of {} items: {why}", order.len()), || Value::Null);
                } else {
                    cx.outcome("ordered");
                }
            }
        }
    }
    /// key: big:<family>:<n>:<listing>
    fn run_big(&self, f: usize, n: usize, l: usize, cx: &mut Cx) {
        let key = format!("big:{f}:{n}:{l}");
        if !cx.enter(&key) {
            return;
        }
        let g = BigGraph::family(f, n);
        let listing = BigGraph::listing(l, n);
        cx.stats.executions += 4;
        cx.stats.transitions += listing.len() as u64;
        // generic helper
        BIG.with(|x| *x.borrow_mut() = g.adj.clone());
        let items: Vec<u16> = listing.iter().map(|r| *r as u16).collect();
        let res = guard(|| BigOrder::order(&items).map(|v| v.into_iter().map(|x| x as usize).collect::<Vec<usize>>()).map_err(|_| "error".to_string()));
        self.judge_big(&key, "generic-large", &g, &listing, res, cx);
        // raw cells
        {
            let ptrs: Vec<Ptr<raw::Cell>> = (0..n).map(|i| Ptr::new(raw::Cell::from(raw::Layout { name: format!("c{i}"), insts: vec![], elems: vec![], annotations: vec![] }))).collect();
            for i in 0..n {
                for &j in &g.adj[i] {
                    let inst = raw::Instance { inst_name: format!("i{i}_{j}"), cell: ptrs[j].clone(), loc: raw::Point::new(0, 0), reflect_vert: false, angle: None };
                    ptrs[i].write().unwrap().layout.as_mut().unwrap().insts.push(inst);
                }
            }
            let mut lib = raw::Library::new("lib", raw::Units::Nano);
            for &i in &listing {
                lib.cells.push(ptrs[i].clone());
            }
            let idx = |name: &str| name[1..].parse::<usize>().unwrap_or(usize::MAX);
            let res = guard(|| raw::DepOrder::order(&lib).map(|v| v.iter().map(|p| idx(&p.read().unwrap().name)).collect::<Vec<usize>>()).map_err(|e| format!("{e:?}")));
            self.judge_big(&key, "raw-DepOrder-large", &g, &listing, res, cx);
            for p in &ptrs {
                p.write().unwrap().layout = None;
            }
        }
        // tetris cells
        {
            use tetris::{cell::Cell, instance::Instance, layout::Layout, outline::Outline};
            let tp: Vec<Ptr<Cell>> = (0..n).map(|i| Ptr::new(Cell::from(Layout::new(format!("t{i}"), 0, Outline::rect(10, 10).unwrap())))).collect();
            for i in 0..n {
                for &j in &g.adj[i] {
                    let inst = Instance { inst_name: format!("i{i}_{j}"), cell: tp[j].clone(), loc: (0, 0).into(), reflect_horiz: false, reflect_vert: false };
                    tp[i].write().unwrap().layout.as_mut().unwrap().instances.add(inst);
                }
            }
            let mut lib = tetris::library::Library::new("tlib");
            for &i in &listing {
                lib.cells.push(tp[i].clone());
            }
            let idx = |name: &str| name[1..].parse::<usize>().unwrap_or(usize::MAX);
            let res = guard(|| lib.dep_order().map(|v| v.iter().map(|p| idx(&p.read().unwrap().name)).collect::<Vec<usize>>()).map_err(|e| format!("{e:?}")));
            self.judge_big(&key, "tetris-dep_order-large", &g, &listing, res, cx);
            let res = guard(|| tetris::conv::proto::ProtoExporter::export(&lib).map(|p| p.cells.iter().map(|c| idx(&c.name)).collect::<Vec<usize>>()).map_err(|e| format!("{e:?}")));
            self.judge_big(&key, "tetris-proto-export-large", &g, &listing, res, cx);
            for p in &tp {
                p.write().unwrap().layout = None;
            }
        }
        // relative placements: functional graphs only (every instance relative to at most one other)
        if g.adj.iter().all(|a| a.len() <= 1) {
            use tetris::{instance::Instance, layout::Layout, outline::Outline, placement::*};
            cx.stats.executions += 1;
            let mut lib = tetris::library::Library::new("plib");
            let unit = lib.cells.add(Layout::new("unit", 0, Outline::rect(1, 1).unwrap()));
            let mut parent = Layout::new("parent", 0, Outline::rect(1000, 1000).unwrap());
            let listed: Vec<bool> = (0..n).map(|i| listing.contains(&i)).collect();
            let mut iptrs: Vec<Option<Ptr<Instance>>> = vec![None; n];
            for &i in listing.iter().chain((0..n).filter(|i| !listed[*i]).collect::<Vec<usize>>().iter()) {
                let inst = Instance { inst_name: format!("i{i}"), cell: unit.clone(), loc: (i as isize, 5).into(), reflect_horiz: false, reflect_vert: false };
                iptrs[i] = Some(if listed[i] { parent.instances.add(inst) } else { Ptr::new(inst) });
            }
            for i in 0..n {
                if let Some(&t) = g.adj[i].first() {
                    let to = Placeable::Instance(iptrs[t].clone().unwrap());
                    iptrs[i].as_ref().unwrap().write().unwrap().loc = Place::Rel(RelativePlace { to, side: Side::Right, align: Align::Side(Side::Bottom), sep: Separation::default() });
                }
            }
            lib.cells.add(parent);
            let res = guard(|| {
                tetris::placer::Placer::place(lib, Self::empty_stack())
                    .map(|(l, _)| {
                        let mut order: Vec<usize> = vec![];
                        for c in l.cells.iter() {
                            let c = c.read().unwrap();
                            if c.name == "parent" {
                                if let Some(lay) = &c.layout {
                                    order = lay.instances.iter().map(|i| i.read().unwrap().inst_name[1..].parse::<usize>().unwrap_or(usize::MAX)).collect();
                                }
                            }
                        }
                        order
                    })
                    .map_err(|e| format!("{e:?}"))
            });
            self.judge_big(&key, "place-order-large", &g, &listing, res, cx);
            for p in iptrs.iter().flatten() {
                if let Ok(mut i) = p.write() {
                    i.loc = (0, 0).into();
                }
            }
        }
        cx.bulk_states(1, 1);
        cx.tag("large-graphs");
    }

    fn listings5(tier: Tier) -> Vec<Vec<usize>> {
        if tier.is_thorough() {
            perms(5)
        } else {
            let mut v = vec![vec![0, 1, 2, 3, 4], vec![4, 3, 2, 1, 0]];
            for r in 1..5 {
                v.push((0..5).map(|i| (i + r) % 5).collect());
            }
            v.push(vec![2, 0, 4, 1, 3]);
            v
        }
    }

    fn run_one(&self, part: &str, n: usize, loops: bool, bits: u64, order: &[usize], cx: &mut Cx) {
        let key = gkey(part, n, loops, bits, order);
        match part {
            "g" => self.run_generic(&Graph::from_bits(n, bits, loops), order, &key, cx),
            "r" => self.run_raw(&Graph::from_bits(n, bits, loops), order, &key, cx),
            "d" => self.run_gds(&Graph::from_bits(n, bits, loops), order, &key, cx),
            "t" => self.run_tetris(&Graph::from_bits(n, bits, loops), order, &key, cx),
            "p" => {
                // bits encodes f in base (n+1)
                let mut f = vec![];
                let mut b = bits;
                for _ in 0..n {
                    f.push((b % (n as u64 + 1)) as usize);
                    b /= n as u64 + 1;
                }
                self.run_place(&f, order, &key, cx)
            }
            _ => panic!("MACHINERY: C17 bad part {part}"),
        }
    }
}

impl Driver for C17 {
    fn id(&self) -> &'static str {
        "C17"
    }
    fn describe(&self, tier: Tier) -> Describe {
        let m = tier.pick(3, 4);
        Describe {
            rule: format!(
                "generic utils::DepOrder: every labelled digraph on 1..=4 nodes including self-loops (2^(n*n)) x every ordered non-empty sub-list of the nodes as the item slice (so reachable != all) and every listing that names a node more than once (up to n + 1 entries for n <= 3, up to 3 entries for n = 4); every loop-free digraph on 5 nodes (2^20) x {} listing orders. Embedded orderers through public entry points, every digraph on 1..={m} nodes with self-loops{} x every listing permutation, edges realised as instances / SREF+AREF / relative placements, raw and tetris graphs additionally with every sink cell abstract-only (no layout view), tetris graphs with every sink cell wrapping a raw layout, with every cell holding both an abstract and a layout view, (raw) with every sink cell holding no view at all, and (raw DepOrder) with all cells going by one and the same name: raw DepOrder::order and Library::to_proto (cell list order), Library::from_gds (imported cell order; also with struct names that differ only in letter case), tetris Library::dep_order (and once more on the same library object after one more instance was added; and on the not yet placed library whose instances are placed relative to one another), tetris ProtoExporter::export, Placer::place (cell graph), RawExporter::convert on acyclic graphs whose edges are arrays handed over in Layout::places (raw cell order), and Placer::place over every functional relation graph on 1..={m} instances ((n+1)^n: chains, stars, trees, self-loops, cycles) x every listing permutation, each also with the last listed instance present but not listed in the layout (reachable only through a relation), with the relatively placed instances handed over in Layout::places instead of Layout::instances, and with the first listed instance named a second time in Layout::places. A state is (orderer, graph, listing); non-trivial = graph has at least one edge. Oracle: reachable set by DFS, cycle by Kahn elimination; Ok order must be exactly the reachable set, duplicate-free, every node after all its dependencies; reachable cycle => Err.",
                if tier.is_thorough() { "all 120" } else { "8 (identity, reverse, 4 rotations, one shuffle)" },
                if tier.is_thorough() { " and every digraph on 5 nodes without self-loops (2^20)" } else { "" }
            ),
            assumptions: vec!["Placer::place over a cell graph returns the placed library, not the cell order: only Ok/Err and the cell set are judged there; over a relation graph the placed layout lists its instances in placement order, which is judged like every other ordering".into()],
            excluded: vec!["graphs beyond 5 nodes (thorough supplement: none; depth-of-recursion behaviour on long chains is covered by a 2000-cell chain per orderer)".into()],
            technique: "exhaustive enumeration of all small digraphs x listing orders on the real orderers vs reachability/cycle/topological-order reference".into(),
        }
    }
    fn units(&self, tier: Tier) -> Vec<String> {
        let mut v = vec![];
        // generic, n <= 4 with loops: split the 2^16 graphs of n=4 into 256 blocks
        for n in 1..=3 {
            v.push(format!("G:{n}:1:0:{}", 1u64 << Graph::nbits(n, true)));
        }
        for b in 0..256u64 {
            v.push(format!("G:4:1:{}:{}", b * 256, (b + 1) * 256));
        }
        // generic n = 5 loop-free: 2^20 graphs in 512 blocks
        for b in 0..512u64 {
            v.push(format!("G:5:0:{}:{}", b * 2048, (b + 1) * 2048));
        }
        let m = tier.pick(3usize, 4usize);
        for part in ["R", "D", "T"] {
            for n in 1..=m {
                let total = 1u64 << Graph::nbits(n, true);
                let blocks = if n == 4 { 128 } else if n == 3 { 8 } else { 1 };
                let per = total / blocks;
                for b in 0..blocks {
                    v.push(format!("{part}:{n}:1:{}:{}", b * per, (b + 1) * per));
                }
            }
        }
        if tier.is_thorough() {
            // thorough: the embedded orderers also on every digraph on 5 nodes without self-loops (2^20) x all 120 listings
            for part in ["R", "D", "T"] {
                for b in 0..2048u64 {
                    v.push(format!("{part}:5:0:{}:{}", b * 512, (b + 1) * 512));
                }
            }
        }
        for n in 1..=m {
            let total = (n as u64 + 1).pow(n as u32);
            let blocks = if n >= 3 { 8.min(total) } else { 1 };
            let per = (total + blocks - 1) / blocks;
            for b in 0..blocks {
                v.push(format!("P:{n}:1:{}:{}", b * per, ((b + 1) * per).min(total)));
            }
        }
        v.push("CHAIN".into());
        for f in 0..BIG_FAMILIES.len() {
            for n in BIG_SIZES {
                v.push(format!("BIG:{f}:{n}"));
            }
        }
        v
    }
    fn run_unit(&self, unit: &str, cx: &mut Cx) {
        if let Err(e) = self_check() {
            cx.machinery(format!("C17 oracle self-check failed: {e}"));
            return;
        }
        cx.enter(unit);
        if let Some(rest) = unit.strip_prefix("BIG:") {
            let q: Vec<usize> = rest.split(':').map(|x| x.parse().expect("MACHINERY: C17 BIG unit")).collect();
            for l in 0..BIG_LISTINGS.len() {
                self.run_big(q[0], q[1], l, cx);
            }
            return;
        }
        if unit == "CHAIN" {
            // long chains: recursion depth proportional to the chain; must return (Ok) under the 8 MiB stack
            let n = 2000usize;
            // raw
            let ptrs: Vec<Ptr<raw::Cell>> = (0..n).map(|i| Ptr::new(raw::Cell::from(raw::Layout { name: format!("c{i}"), insts: vec![], elems: vec![], annotations: vec![] }))).collect();
            for i in 0..n - 1 {
                let inst = raw::Instance { inst_name: "i".into(), cell: ptrs[i + 1].clone(), loc: raw::Point::new(0, 0), reflect_vert: false, angle: None };
                ptrs[i].write().unwrap().layout.as_mut().unwrap().insts.push(inst);
            }
            let mut lib = raw::Library::new("lib", raw::Units::Nano);
            for p in &ptrs {
                lib.cells.push(p.clone());
            }
            cx.stats.executions += 1;
            cx.stats.evaluations += 1;
            match guard(|| raw::DepOrder::order(&lib).map(|v| v.iter().map(|p| p.read().unwrap().name.clone()).collect::<Vec<String>>()).map_err(|e| format!("{e:?}"))) {
                Ok(Ok(v)) => {
                    let ok = v.len() == n && (0..n).all(|k| v[k] == format!("c{}", n - 1 - k));
                    if !ok {
                        cx.fail("CHAIN", "raw-chain-order", None, || "2000-cell chain not ordered dependencies-first".into(), || Value::Null);
                    } else {
                        cx.outcome("ordered");
                    }
                }
                Ok(Err(e)) => cx.fail("CHAIN", "raw-chain-error", None, || format!("2000-cell chain rejected: {}", truncate(&e, 100)), || Value::Null),
                Err(p) => cx.fail("CHAIN", "raw-chain-panic", None, || p.short(), || Value::Null),
            }
            for p in &ptrs {
                p.write().unwrap().layout = None;
            }
            // GDS struct chain s0 -> s1 -> ... listed users-first (deepest recursion)
            {
                use gds21::*;
                let mut g = GdsLibrary::new("lib");
                g.units = GdsUnits::new(1e-3, 1e-9);
                for i in 0..n {
                    let mut s = GdsStruct::new(format!("s{i}"));
                    if i + 1 < n {
                        s.elems.push(GdsElement::GdsStructRef(GdsStructRef { name: format!("s{}", i + 1), xy: GdsPoint::new(0, 0), ..Default::default() }));
                    }
                    g.structs.push(s);
                }
                cx.stats.executions += 1;
                cx.stats.evaluations += 1;
                match guard(|| raw::Library::from_gds(&g, None).map(|l| l.cells.iter().map(|p| p.read().unwrap().name.clone()).collect::<Vec<String>>()).map_err(|e| format!("{e:?}"))) {
                    Ok(Ok(v)) => {
                        if v.len() == n && (0..n).all(|k| v[k] == format!("s{}", n - 1 - k)) {
                            cx.outcome("ordered");
                        } else {
                            cx.fail("CHAIN", "gds-chain-order", None, || "2000-struct chain not imported dependencies-first".into(), || Value::Null);
                        }
                    }
                    Ok(Err(e)) => cx.fail("CHAIN", "gds-chain-error", None, || format!("2000-struct chain rejected: {}", truncate(&e, 100)), || Value::Null),
                    Err(p) => cx.fail("CHAIN", "gds-chain-panic", None, || p.short(), || Value::Null),
                }
            }
            // tetris cell chain
            {
                use tetris::{cell::Cell, instance::Instance, layout::Layout, outline::Outline};
                let tp: Vec<Ptr<Cell>> = (0..n).map(|i| Ptr::new(Cell::from(Layout::new(format!("t{i}"), 0, Outline::rect(10, 10).unwrap())))).collect();
                for i in 0..n - 1 {
                    let inst = Instance { inst_name: "i".into(), cell: tp[i + 1].clone(), loc: (0, 0).into(), reflect_horiz: false, reflect_vert: false };
                    tp[i].write().unwrap().layout.as_mut().unwrap().instances.add(inst);
                }
                let mut lib = tetris::library::Library::new("tlib");
                for p in &tp {
                    lib.cells.push(p.clone());
                }
                cx.stats.executions += 1;
                cx.stats.evaluations += 1;
                match guard(|| lib.dep_order().map(|v| v.iter().map(|p| p.read().unwrap().name.clone()).collect::<Vec<String>>()).map_err(|e| format!("{e:?}"))) {
                    Ok(Ok(v)) => {
                        if v.len() == n && (0..n).all(|k| v[k] == format!("t{}", n - 1 - k)) {
                            cx.outcome("ordered");
                        } else {
                            cx.fail("CHAIN", "tetris-chain-order", None, || "2000-cell chain not ordered dependencies-first".into(), || Value::Null);
                        }
                    }
                    Ok(Err(e)) => cx.fail("CHAIN", "tetris-chain-error", None, || format!("2000-cell chain rejected: {}", truncate(&e, 100)), || Value::Null),
                    Err(p) => cx.fail("CHAIN", "tetris-chain-panic", None, || p.short(), || Value::Null),
                }
                for p in &tp {
                    p.write().unwrap().layout = None;
                }
            }
            cx.bulk_states(3, 3);
            cx.tag("chain");
            return;
        }
        let p: Vec<&str> = unit.split(':').collect();
        let part = p[0].to_lowercase();
        let n: usize = p[1].parse().unwrap();
        let loops = p[2] == "1";
        let (lo, hi): (u64, u64) = (p[3].parse().unwrap(), p[4].parse().unwrap());
        let orders: Vec<Vec<usize>> = match part.as_str() {
            "g" if n <= 4 => {
                // every ordered sub-list, and every listing that names a node more than once (n <= 3: up to n + 1
                // entries; n = 4: up to 3 entries)
                let mut v = arrangements(n);
                v.extend(listings_with_repeats(n, if n <= 3 { n + 1 } else { 3 }));
                v
            }
            "g" => Self::listings5(cx.tier),
            _ => perms(n),
        };
        let mut states = 0u64;
        let mut nontrivial = 0u64;
        for bits in lo..hi {
            if part == "g" && n == 5 {
                // n = 5 space is "loop-free": skip graphs with a 2-cycle? No: all digraphs without self-loops.
            }
            for o in &orders {
                states += 1;
                if bits != 0 {
                    nontrivial += 1;
                }
                if part != "g" {
                    let key = gkey(&part, n, loops, bits, o);
                    if !cx.enter(&key) {
                        continue;
                    }
                }
                self.run_one(&part, n, loops, bits, o, cx);
            }
            if cx.expired() {
                cx.cap("time");
                break;
            }
        }
        cx.bulk_states(states, nontrivial);
        cx.tag(&format!("part-{part}"));
        cx.tag(&format!("part-{part}-n{n}"));
        if part == "r" && n == 3 && lo == 0 {
            cx.sample(|| json!({"orderer": "raw DepOrder::order + Library::to_proto", "nodes": 3, "edge_bits": 0b000_001_010, "edges_i_depends_on_j": Graph::from_bits(3, 0b000_001_010, true).edges(), "listing": [2, 0, 1]}));
        }
        if part == "p" && n == 3 && lo == 0 {
            cx.sample(|| json!({"orderer": "Placer::place (PlaceOrder)", "relation_f": "f[i] = 3 means absolute, else relative to instance f[i]", "example_f": [1, 2, 3], "listing": [0, 1, 2]}));
        }
    }
    fn run_case(&self, key: &str, cx: &mut Cx) {
        if let Err(e) = self_check() {
            cx.machinery(format!("C17 oracle self-check failed: {e}"));
            return;
        }
        if let Some(rest) = key.strip_prefix("big:") {
            let q: Vec<usize> = rest.split(':').filter_map(|x| x.parse().ok()).collect();
            if q.len() == 3 {
                return self.run_big(q[0], q[1], q[2], cx);
            }
        }
        if let Some((part, n, loops, bits, order)) = parse_gkey(key) {
            if part.len() == 1 && part.chars().all(|c| c.is_ascii_lowercase()) {
                cx.enter(key);
                return self.run_one(&part, n, loops, bits, &order, cx);
            }
        }
        self.run_unit(key, cx);
    }
    fn render_case(&self, _tier: Tier, key: &str) -> Value {
        if let Some((part, n, loops, bits, order)) = parse_gkey(key) {
            if part == "p" {
                let mut f = vec![];
                let mut b = bits;
                for _ in 0..n {
                    f.push((b % (n as u64 + 1)) as usize);
                    b /= n as u64 + 1;
                }
                return json!({"orderer": "Placer::place", "relation_f (n = absolute)": f, "listing": order});
            }
            if part.len() == 1 {
                let g = Graph::from_bits(n, bits, loops);
                return json!({"orderer": part, "nodes": n, "edges_i_depends_on_j": g.edges(), "listing_or_roots": order});
            }
        }
        json!({"unit": key})
    }
    fn classify_crash(&self, _tier: Tier, _key: &str, _death: &Death) -> Option<String> {
        None
    }
    fn guards(&self, tier: Tier, stats: &Stats, _d: u64) -> Result<(), String> {
        require_tags(stats, &["raw-abstract-only-sinks", "tetris-abstract-only-sinks", "raw-both-views", "tetris-both-views", "tetris-order-after-edit", "tetris-relative-instances", "part-g", "part-g-n4", "part-g-n5", "part-r-n3", "part-d-n3", "part-t-n3", "part-p-n3", "place-order-unlisted-target", "chain", "large-graphs"])?;
        if tier.is_thorough() {
            require_tags(stats, &["part-r-n4", "part-d-n4", "part-t-n4", "part-p-n4"])?;
        }
        require_outcomes(stats, &["ordered", "cycle-error"])
    }
}

pub fn driver() -> Box<dyn Driver> {
    Box::new(C17)
}
