//! Per-property drivers.
use crate::core::Driver;

pub mod c06;
pub mod c07;
pub mod c13;
pub mod c14;
pub mod c15;
pub mod rawspec;
pub mod rawview;
pub mod toy;

pub const ALL: &[&str] = &["C06", "C07", "C13", "C14", "C15", "TOY"];

pub fn registry(id: &str) -> Box<dyn Driver> {
    match id {
        "C06" => c06::driver(),
        "C07" => c07::driver(),
        "C13" => c13::driver(),
        "C14" => c14::driver(),
        "C15" => c15::driver(),
        "TOY" => toy::driver(),
        _ => panic!("MACHINERY: unknown property id {id}"),
    }
}
