//! Per-property drivers.
use crate::core::Driver;

pub mod balance;
pub mod c08;
pub mod c09;
pub mod c15;
pub mod c19;
pub mod toy;

pub const ALL: &[&str] = &["C08", "C09", "C15", "C19", "TOY"];

pub fn registry(id: &str) -> Box<dyn Driver> {
    match id {
        "C08" => c08::driver(),
        "C09" => c09::driver(),
        "C15" => c15::driver(),
        "C19" => c19::driver(),
        "TOY" => toy::driver(),
        _ => panic!("MACHINERY: unknown property id {id}"),
    }
}
