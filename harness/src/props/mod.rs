//! Per-property drivers.
use crate::core::Driver;

pub mod c12;
pub mod c13;
pub mod c15;
pub mod c16;
pub mod c17;
pub mod toy;

pub const ALL: &[&str] = &["C12", "C13", "C15", "C16", "C17", "TOY"];

pub fn registry(id: &str) -> Box<dyn Driver> {
    match id {
        "C12" => c12::driver(),
        "C13" => c13::driver(),
        "C15" => c15::driver(),
        "C16" => c16::driver(),
        "C17" => c17::driver(),
        "TOY" => toy::driver(),
        _ => panic!("MACHINERY: unknown property id {id}"),
    }
}
