//! Per-property drivers.
use crate::core::Driver;

pub mod c01;
pub mod c02;
pub mod c03;
pub mod c10;
pub mod c15;
pub mod gdsgen;
pub mod toy;

pub const ALL: &[&str] = &["C01", "C02", "C03", "C10", "C15", "TOY"];

pub fn registry(id: &str) -> Box<dyn Driver> {
    match id {
        "C01" => c01::driver(),
        "C02" => c02::driver(),
        "C03" => c03::driver(),
        "C10" => c10::driver(),
        "C15" => c15::driver(),
        "TOY" => toy::driver(),
        _ => panic!("MACHINERY: unknown property id {id}"),
    }
}
