//! Per-property drivers.
use crate::core::Driver;

pub mod toy;

pub const ALL: &[&str] = &["TOY"];

pub fn registry(id: &str) -> Box<dyn Driver> {
    match id {
        "TOY" => toy::driver(),
        _ => panic!("MACHINERY: unknown property id {id}"),
    }
}
