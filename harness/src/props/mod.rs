//! Per-property drivers.
use crate::core::Driver;

pub mod c12;
pub mod c13;
pub mod c15;
pub mod c16;
pub mod c17;
pub mod c18;
pub mod c20;
pub mod toy;

pub const ALL: &[&str] = &["C12", "C13", "C15", "C16", "C17", "C18", "C20", "TOY"];

pub fn registry(id: &str) -> Box<dyn Driver> {
    match id {
        "C12" => c12::driver(),
        "C13" => c13::driver(),
        "C15" => c15::driver(),
        "C16" => c16::driver(),
        "C17" => c17::driver(),
        "C18" => c18::driver(),
        "C20" => c20::driver(),
        "TOY" => toy::driver(),
        _ => panic!("MACHINERY: unknown property id {id}"),
    }
}

/// Driver-defined auxiliary computations run in a fresh process (`l21mc aux <id> ..`).
pub fn aux(id: &str, args: &[String]) -> String {
    match id {
        "C20" => c20::aux(args),
        _ => panic!("MACHINERY: no aux for {id}"),
    }
}
