//! Per-property drivers.
use crate::core::Driver;

pub mod c04;
pub mod c05;
pub mod c11;
pub mod c15;
pub mod lefgen;
pub mod toy;

pub const ALL: &[&str] = &["C04", "C05", "C11", "C15", "TOY"];

pub fn registry(id: &str) -> Box<dyn Driver> {
    match id {
        "C04" => c04::driver(),
        "C05" => c05::driver(),
        "C11" => c11::driver(),
        "C15" => c15::driver(),
        "TOY" => toy::driver(),
        _ => panic!("MACHINERY: unknown property id {id}"),
    }
}
