//! Per-property drivers.
use crate::core::Driver;

pub mod c09;
pub mod c15;
pub mod toy;

pub const ALL: &[&str] = &["C09", "C15", "TOY"];

pub fn registry(id: &str) -> Box<dyn Driver> {
    match id {
        "C09" => c09::driver(),
        "C15" => c15::driver(),
        "TOY" => toy::driver(),
        _ => panic!("MACHINERY: unknown property id {id}"),
    }
}
