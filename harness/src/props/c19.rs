//! C19 — gridded-layout (tetris) libraries survive the trip through their protobuf schema.
//!
//! Parts (`Multi`):
//!   dag3      : every DAG on 1..=3 cells x every listing order x reflection base x content profile x
//!               {message, message through prost bytes}, value deviations up to the bound
//!   dag4      : the same on exactly 4 cells (smaller deviation bound)
//!   malformed : protobuf messages built by the harness's own encoder from a few base libraries, with one
//!               fault each (every mandatory sub-message removed in turn at every site, relative placement,
//!               undefined / self / later-listed cell, negative counts, ...) — and fault "none" (must import).
//!
//! Oracle: the library description the case was built from (plain harness data). The real library is built
//! through the crate's public constructors, exported, (optionally encoded+decoded by prost), imported, read
//! back into plain data and compared with the description; the exported message is checked for
//! dependencies-first order by name.

use crate::core::*;
use crate::explore::Chooser;
use serde_json::{json, Value};
use std::collections::{BTreeMap, BTreeSet};
use std::sync::OnceLock;

use layout21protos as proto;
use layout21tetris as tetris;
use proto::tetris as tp;
use tetris::abs::Abstract;
use tetris::cell::Cell;
use tetris::conv::proto::{ProtoExporter, ProtoLibImporter};
use tetris::coords::{PrimPitches, Xy};
use tetris::instance::Instance;
use tetris::layout::Layout;
use tetris::library::Library;
use tetris::outline::Outline;
use tetris::placement::Place;
use tetris::raw::Dir;
use tetris::stack::Assign;
use tetris::tracks::{TrackCross, TrackRef};
use tetris::utils::Ptr;

// ---------------------------------------------------------------------------------------------
// Library description (plain harness data)
// ---------------------------------------------------------------------------------------------

#[derive(Clone, Debug, PartialEq, Eq, PartialOrd, Ord)]
pub struct CrossD(pub usize, pub usize, pub usize, pub usize);
#[derive(Clone, Debug, PartialEq, Eq, PartialOrd, Ord)]
pub struct InstD {
    pub name: String,
    pub cell: usize,
    pub loc: (i64, i64),
    pub rh: bool,
    pub rv: bool,
}
#[derive(Clone, Debug, PartialEq)]
pub struct LayoutD {
    /// name of the layout view when it differs from the cell's name
    pub view_name: Option<String>,
    pub ox: Vec<i64>,
    pub oy: Vec<i64>,
    pub metals: usize,
    pub insts: Vec<InstD>,
    pub assigns: Vec<(String, CrossD)>,
    pub cuts: Vec<CrossD>,
}
#[derive(Clone, Debug, PartialEq)]
pub struct AbsD {
    pub ox: Vec<i64>,
    pub oy: Vec<i64>,
    pub metals: usize,
}
#[derive(Clone, Debug, PartialEq)]
pub struct CellD {
    pub name: String,
    pub layout: Option<LayoutD>,
    pub abs: Option<AbsD>,
}
#[derive(Clone, Debug, PartialEq)]
pub struct LibD {
    pub name: String,
    /// cells by identity; an instance in cell i only ever points at a cell j < i
    pub cells: Vec<CellD>,
    /// order in which the cells are put into `Library.cells`
    pub listing: Vec<usize>,
}

// Normal form used for comparison: cells by name, lists as sorted multisets.
#[derive(Clone, Debug, PartialEq)]
pub struct NormLayout {
    pub name: String,
    pub ox: Vec<i64>,
    pub oy: Vec<i64>,
    pub metals: usize,
    pub insts: Vec<(String, String, i64, i64, bool, bool)>,
    pub assigns: Vec<(String, CrossD)>,
    pub cuts: Vec<CrossD>,
}
#[derive(Clone, Debug, PartialEq)]
pub struct NormAbs {
    pub name: String,
    pub ox: Vec<i64>,
    pub oy: Vec<i64>,
    pub metals: usize,
    pub nports: usize,
}
#[derive(Clone, Debug, PartialEq)]
pub struct NormCell {
    pub layout: Option<NormLayout>,
    pub abs: Option<NormAbs>,
}
#[derive(Clone, Debug, PartialEq)]
pub struct NormLib {
    pub name: String,
    pub cells: BTreeMap<String, NormCell>,
}

impl LibD {
    pub fn norm(&self) -> NormLib {
        let mut cells = BTreeMap::new();
        for c in &self.cells {
            let layout = c.layout.as_ref().map(|l| {
                let mut insts: Vec<_> = l.insts.iter().map(|i| (i.name.clone(), self.cells[i.cell].name.clone(), i.loc.0, i.loc.1, i.rh, i.rv)).collect();
                insts.sort();
                let mut assigns = l.assigns.clone();
                assigns.sort();
                let mut cuts = l.cuts.clone();
                cuts.sort();
                NormLayout { name: l.view_name.clone().unwrap_or_else(|| c.name.clone()), ox: l.ox.clone(), oy: l.oy.clone(), metals: l.metals, insts, assigns, cuts }
            });
            let abs = c.abs.as_ref().map(|a| NormAbs { name: c.name.clone(), ox: a.ox.clone(), oy: a.oy.clone(), metals: a.metals, nports: 0 });
            cells.insert(c.name.clone(), NormCell { layout, abs });
        }
        NormLib { name: self.name.clone(), cells }
    }
    pub fn render(&self) -> Value {
        let cells: Vec<Value> = self
            .cells
            .iter()
            .map(|c| {
                json!({
                    "name": c.name,
                    "layout": c.layout.as_ref().map(|l| json!({
                        "outline_x": l.ox, "outline_y": l.oy, "metals": l.metals,
                        "instances": l.insts.iter().map(|i| json!({"name": i.name, "cell": self.cells[i.cell].name, "loc": [i.loc.0, i.loc.1], "reflect_horiz": i.rh, "reflect_vert": i.rv})).collect::<Vec<_>>(),
                        "assignments": l.assigns.iter().map(|(n, x)| json!({"net": n, "track": [x.0, x.1], "cross": [x.2, x.3]})).collect::<Vec<_>>(),
                        "cuts": l.cuts.iter().map(|x| json!({"track": [x.0, x.1], "cross": [x.2, x.3]})).collect::<Vec<_>>(),
                    })),
                    "abstract": c.abs.as_ref().map(|a| json!({"outline_x": a.ox, "outline_y": a.oy, "metals": a.metals, "ports": []})),
                })
            })
            .collect();
        json!({"library_name": self.name, "cells": cells, "listing_order": self.listing.iter().map(|k| self.cells[*k].name.clone()).collect::<Vec<_>>()})
    }
}

// ---------------------------------------------------------------------------------------------
// Subject-side helpers (call under `guard`)
// ---------------------------------------------------------------------------------------------

fn xy(p: (i64, i64)) -> Xy<PrimPitches> {
    Xy::from((p.0 as isize, p.1 as isize))
}
fn cross(c: &CrossD) -> TrackCross {
    TrackCross::new(TrackRef::new(c.0, c.1), TrackRef::new(c.2, c.3))
}

/// Build the real library from a description through the public constructors.
pub fn build_lib(d: &LibD) -> Result<Library, String> {
    let mut ptrs: Vec<Ptr<Cell>> = Vec::new();
    for c in &d.cells {
        let mut cell = Cell::new(c.name.clone());
        if let Some(l) = &c.layout {
            let xs: Vec<isize> = l.ox.iter().map(|v| *v as isize).collect();
            let ys: Vec<isize> = l.oy.iter().map(|v| *v as isize).collect();
            let o = Outline::new(&xs, &ys).map_err(|e| format!("setup: outline {e:?}"))?;
            let mut lay = Layout::new(l.view_name.clone().unwrap_or_else(|| c.name.clone()), l.metals, o);
            for i in &l.insts {
                lay.instances.add(Instance { inst_name: i.name.clone(), cell: ptrs[i.cell].clone(), loc: Place::Abs(xy(i.loc)), reflect_horiz: i.rh, reflect_vert: i.rv });
            }
            for (net, x) in &l.assigns {
                lay.assignments.push(Assign::new(net.clone(), cross(x)));
            }
            for x in &l.cuts {
                lay.cuts.push(cross(x));
            }
            cell.layout = Some(lay);
        }
        if let Some(a) = &c.abs {
            let xs: Vec<isize> = a.ox.iter().map(|v| *v as isize).collect();
            let ys: Vec<isize> = a.oy.iter().map(|v| *v as isize).collect();
            let o = Outline::new(&xs, &ys).map_err(|e| format!("setup: outline {e:?}"))?;
            cell.abs = Some(Abstract::new(c.name.clone(), a.metals, o));
        }
        ptrs.push(Ptr::new(cell));
    }
    let mut lib = Library::new(d.name.clone());
    for k in &d.listing {
        lib.cells.push(ptrs[*k].clone());
    }
    Ok(lib)
}

fn outline_obs(o: &Outline) -> Result<(Vec<i64>, Vec<i64>), String> {
    for v in &o.x {
        if v.dir != Dir::Horiz {
            return Err("outline x entry not tagged horizontal".into());
        }
    }
    for v in &o.y {
        if v.dir != Dir::Vert {
            return Err("outline y entry not tagged vertical".into());
        }
    }
    Ok((o.x.iter().map(|v| v.num as i64).collect(), o.y.iter().map(|v| v.num as i64).collect()))
}

/// Read a real library back into the normal form.
pub fn observe(lib: &Library) -> Result<NormLib, String> {
    let mut cells = BTreeMap::new();
    for cp in lib.cells.iter() {
        let c = cp.read().map_err(|_| "lock".to_string())?;
        let layout = match &c.layout {
            None => None,
            Some(l) => {
                let (ox, oy) = outline_obs(&l.outline)?;
                let mut insts = vec![];
                for ip in l.instances.iter() {
                    let i = ip.read().map_err(|_| "lock".to_string())?;
                    if !lib.cells.iter().any(|x| *x == i.cell) {
                        return Err(format!("instance {} of cell {} points at a cell that is not in the imported library", i.inst_name, c.name));
                    }
                    let tn = i.cell.read().map_err(|_| "lock".to_string())?.name.clone();
                    let loc = match &i.loc {
                        Place::Abs(p) => {
                            if p.x.dir != Dir::Horiz || p.y.dir != Dir::Vert {
                                return Err(format!("instance {} location not tagged (horizontal, vertical)", i.inst_name));
                            }
                            (p.x.num as i64, p.y.num as i64)
                        }
                        Place::Rel(_) => return Err(format!("instance {} is relatively placed after import", i.inst_name)),
                    };
                    insts.push((i.inst_name.clone(), tn, loc.0, loc.1, i.reflect_horiz, i.reflect_vert));
                }
                insts.sort();
                let mut assigns: Vec<(String, CrossD)> =
                    l.assignments.iter().map(|a| (a.net.clone(), CrossD(a.at.track.layer, a.at.track.track, a.at.cross.layer, a.at.cross.track))).collect();
                assigns.sort();
                let mut cuts: Vec<CrossD> = l.cuts.iter().map(|a| CrossD(a.track.layer, a.track.track, a.cross.layer, a.cross.track)).collect();
                cuts.sort();
                if !l.places.is_empty() {
                    return Err("imported layout has unplaced placeables".into());
                }
                Some(NormLayout { name: l.name.clone(), ox, oy, metals: l.metals, insts, assigns, cuts })
            }
        };
        let abs = match &c.abs {
            None => None,
            Some(a) => {
                let (ox, oy) = outline_obs(&a.outline)?;
                Some(NormAbs { name: a.name.clone(), ox, oy, metals: a.metals, nports: a.ports.len() })
            }
        };
        if cells.insert(c.name.clone(), NormCell { layout, abs }).is_some() {
            return Err(format!("cell name {} appears twice", c.name));
        }
    }
    Ok(NormLib { name: lib.name.clone(), cells })
}

fn first_difference(want: &NormLib, got: &NormLib) -> String {
    if want.name != got.name {
        return format!("library name: want {:?}, got {:?}", want.name, got.name);
    }
    let wn: Vec<_> = want.cells.keys().collect();
    let gn: Vec<_> = got.cells.keys().collect();
    if wn != gn {
        return format!("cell names: want {wn:?}, got {gn:?}");
    }
    for (n, w) in &want.cells {
        let g = &got.cells[n];
        if w != g {
            return truncate(&format!("cell {n:?}: want {w:?}, got {g:?}"), 900);
        }
    }
    "no difference".into()
}

/// Every instance in the exported message must name a cell that is listed earlier; every cell once.
fn check_export_order(msg: &tp::Library, d: &LibD) -> Result<(), String> {
    let mut seen: BTreeSet<String> = BTreeSet::new();
    for c in &msg.cells {
        if let Some(l) = &c.layout {
            for i in &l.instances {
                let tgt = match i.cell.as_ref().and_then(|r| r.to.as_ref()) {
                    Some(proto::utils::reference::To::Local(n)) => n.clone(),
                    other => return Err(format!("instance {} of {} exported with reference {other:?}", i.name, c.name)),
                };
                if !seen.contains(&tgt) {
                    return Err(format!("cell {:?} is exported before the cell {:?} it instantiates (exported order: {:?})", c.name, tgt, msg.cells.iter().map(|c| c.name.clone()).collect::<Vec<_>>()));
                }
            }
        }
        if !seen.insert(c.name.clone()) {
            return Err(format!("cell {:?} exported twice", c.name));
        }
    }
    let want: BTreeSet<String> = d.cells.iter().map(|c| c.name.clone()).collect();
    if seen != want {
        return Err(format!("exported cells {seen:?}, library has {want:?}"));
    }
    Ok(())
}

// ---------------------------------------------------------------------------------------------
// Harness-side protobuf encoder (independent of ProtoExporter) and the fault injector
// ---------------------------------------------------------------------------------------------

fn tref(l: i64, t: i64) -> Option<tp::TrackRef> {
    Some(tp::TrackRef { layer: l, track: t })
}
fn tcross(c: &CrossD) -> tp::TrackCross {
    tp::TrackCross { track: tref(c.0 as i64, c.1 as i64), cross: tref(c.2 as i64, c.3 as i64) }
}
/// The message the schema documentation describes for `d`, cells in `order`.
pub fn ref_message(d: &LibD, order: &[usize]) -> tp::Library {
    let mut m = tp::Library::default();
    m.domain = d.name.clone();
    for k in order {
        let c = &d.cells[*k];
        let mut pc = tp::Cell::default();
        pc.name = c.name.clone();
        if let Some(l) = &c.layout {
            let mut pl = tp::Layout::default();
            pl.name = c.name.clone();
            pl.outline = Some(tp::Outline { x: l.ox.clone(), y: l.oy.clone(), metals: l.metals as i64 });
            for i in &l.insts {
                pl.instances.push(tp::Instance {
                    name: i.name.clone(),
                    cell: Some(proto::utils::Reference { to: Some(proto::utils::reference::To::Local(d.cells[i.cell].name.clone())) }),
                    loc: Some(tp::Place { place: Some(tp::place::Place::Abs(proto::raw::Point { x: i.loc.0, y: i.loc.1 })) }),
                    reflect_horiz: i.rh,
                    reflect_vert: i.rv,
                });
            }
            for (n, x) in &l.assigns {
                pl.assignments.push(tp::Assign { net: n.clone(), at: Some(tcross(x)) });
            }
            for x in &l.cuts {
                pl.cuts.push(tcross(x));
            }
            pc.layout = Some(pl);
        }
        if let Some(a) = &c.abs {
            pc.r#abstract = Some(tp::Abstract { name: c.name.clone(), outline: Some(tp::Outline { x: a.ox.clone(), y: a.oy.clone(), metals: a.metals as i64 }), ports: vec![] });
        }
        m.cells.push(pc);
    }
    m
}

#[derive(Clone, Debug, PartialEq)]
pub enum Fault {
    None,
    LayoutOutlineRemoved(usize),
    AbsOutlineRemoved(usize),
    InstLocRemoved(usize, usize),
    InstPlaceRemoved(usize, usize),
    InstRelative(usize, usize),
    InstCellRemoved(usize, usize),
    InstCellToRemoved(usize, usize),
    InstCellUndefined(usize, usize),
    InstCellSelf(usize, usize),
    InstCellExternal(usize, usize),
    AssignAtRemoved(usize, usize),
    AssignTrackRemoved(usize, usize),
    AssignCrossRemoved(usize, usize),
    CutTrackRemoved(usize, usize),
    CutCrossRemoved(usize, usize),
    NegMetals(usize),
    NegAbsMetals(usize),
    NegOutlineX(usize),
    NegAssignField(usize, usize, usize),
    NegCutField(usize, usize, usize),
    /// cells listed in this (non-topological) order
    Order(Vec<usize>),
    /// lenient classes: anything but a panic
    OutlineXIncreasing(usize),
    OutlineLenMismatch(usize),
    OutlineEmpty(usize),
}
impl Fault {
    pub fn class(&self) -> &'static str {
        use Fault::*;
        match self {
            None => "none",
            LayoutOutlineRemoved(_) | AbsOutlineRemoved(_) => "outline-removed",
            InstLocRemoved(..) | InstPlaceRemoved(..) => "location-removed",
            InstRelative(..) => "relative-placement",
            InstCellRemoved(..) | InstCellToRemoved(..) => "cell-reference-removed",
            InstCellUndefined(..) | InstCellSelf(..) => "undefined-cell",
            InstCellExternal(..) => "external-reference",
            AssignAtRemoved(..) | AssignTrackRemoved(..) | AssignCrossRemoved(..) => "assignment-submessage-removed",
            CutTrackRemoved(..) | CutCrossRemoved(..) => "cut-submessage-removed",
            NegMetals(_) | NegAbsMetals(_) | NegOutlineX(_) | NegAssignField(..) | NegCutField(..) => "negative-count",
            Order(_) => "listed-after-user",
            OutlineXIncreasing(_) | OutlineLenMismatch(_) | OutlineEmpty(_) => "outline-shape",
        }
    }
    /// must the importer answer Err (true), or is anything but a panic acceptable (false)?
    pub fn must_err(&self) -> bool {
        !matches!(self.class(), "none" | "external-reference" | "outline-shape")
    }
}

/// All single faults applicable to `d`.
pub fn faults_of(d: &LibD) -> Vec<Fault> {
    let mut v = vec![Fault::None];
    for (ci, c) in d.cells.iter().enumerate() {
        if let Some(l) = &c.layout {
            v.push(Fault::LayoutOutlineRemoved(ci));
            v.push(Fault::NegMetals(ci));
            v.push(Fault::NegOutlineX(ci));
            v.push(Fault::OutlineXIncreasing(ci));
            v.push(Fault::OutlineLenMismatch(ci));
            v.push(Fault::OutlineEmpty(ci));
            for k in 0..l.insts.len() {
                v.push(Fault::InstLocRemoved(ci, k));
                v.push(Fault::InstPlaceRemoved(ci, k));
                v.push(Fault::InstRelative(ci, k));
                v.push(Fault::InstCellRemoved(ci, k));
                v.push(Fault::InstCellToRemoved(ci, k));
                v.push(Fault::InstCellUndefined(ci, k));
                v.push(Fault::InstCellSelf(ci, k));
                v.push(Fault::InstCellExternal(ci, k));
            }
            for k in 0..l.assigns.len() {
                v.push(Fault::AssignAtRemoved(ci, k));
                v.push(Fault::AssignTrackRemoved(ci, k));
                v.push(Fault::AssignCrossRemoved(ci, k));
                for f in 0..4 {
                    v.push(Fault::NegAssignField(ci, k, f));
                }
            }
            for k in 0..l.cuts.len() {
                v.push(Fault::CutTrackRemoved(ci, k));
                v.push(Fault::CutCrossRemoved(ci, k));
                for f in 0..4 {
                    v.push(Fault::NegCutField(ci, k, f));
                }
            }
        }
        if c.abs.is_some() {
            v.push(Fault::AbsOutlineRemoved(ci));
            v.push(Fault::NegAbsMetals(ci));
        }
    }
    // every listing order in which some cell comes before a cell it instantiates
    let n = d.cells.len();
    for p in super::c09::permutations(n) {
        let pos: Vec<usize> = {
            let mut pos = vec![0; n];
            for (i, k) in p.iter().enumerate() {
                pos[*k] = i;
            }
            pos
        };
        let bad = d.cells.iter().enumerate().any(|(ci, c)| c.layout.as_ref().map(|l| l.insts.iter().any(|i| pos[i.cell] > pos[ci])).unwrap_or(false));
        if bad {
            v.push(Fault::Order(p));
        }
    }
    v
}

fn neg_field(x: &mut tp::TrackCross, f: usize) {
    match f {
        0 => x.track.as_mut().unwrap().layer = -1,
        1 => x.track.as_mut().unwrap().track = -3,
        2 => x.cross.as_mut().unwrap().layer = -2,
        _ => x.cross.as_mut().unwrap().track = -1,
    }
}

/// The message for `d` with `fault` applied.
pub fn faulty_message(d: &LibD, fault: &Fault) -> tp::Library {
    let ident: Vec<usize> = (0..d.cells.len()).collect();
    let order: &[usize] = match fault {
        Fault::Order(p) => p,
        _ => &ident,
    };
    let mut m = ref_message(d, order);
    let name_of = |ci: usize| d.cells[ci].name.clone();
    let cell = |m: &mut tp::Library, ci: usize| -> usize { m.cells.iter().position(|c| c.name == d.cells[ci].name).unwrap() };
    use Fault::*;
    match fault {
        None | Order(_) => {}
        LayoutOutlineRemoved(ci) => {
            let p = cell(&mut m, *ci);
            m.cells[p].layout.as_mut().unwrap().outline = Option::None;
        }
        AbsOutlineRemoved(ci) => {
            let p = cell(&mut m, *ci);
            m.cells[p].r#abstract.as_mut().unwrap().outline = Option::None;
        }
        NegMetals(ci) => {
            let p = cell(&mut m, *ci);
            m.cells[p].layout.as_mut().unwrap().outline.as_mut().unwrap().metals = -1;
        }
        NegAbsMetals(ci) => {
            let p = cell(&mut m, *ci);
            m.cells[p].r#abstract.as_mut().unwrap().outline.as_mut().unwrap().metals = -2;
        }
        NegOutlineX(ci) => {
            let p = cell(&mut m, *ci);
            let o = m.cells[p].layout.as_mut().unwrap().outline.as_mut().unwrap();
            let last = o.x.len() - 1;
            o.x[last] = -1;
        }
        OutlineXIncreasing(ci) => {
            let p = cell(&mut m, *ci);
            let o = m.cells[p].layout.as_mut().unwrap().outline.as_mut().unwrap();
            o.x = vec![2, 5];
            o.y = vec![1, 3];
        }
        OutlineLenMismatch(ci) => {
            let p = cell(&mut m, *ci);
            let o = m.cells[p].layout.as_mut().unwrap().outline.as_mut().unwrap();
            o.y.push(99);
        }
        OutlineEmpty(ci) => {
            let p = cell(&mut m, *ci);
            let o = m.cells[p].layout.as_mut().unwrap().outline.as_mut().unwrap();
            o.x.clear();
            o.y.clear();
        }
        InstLocRemoved(ci, k) | InstPlaceRemoved(ci, k) | InstRelative(ci, k) | InstCellRemoved(ci, k) | InstCellToRemoved(ci, k) | InstCellUndefined(ci, k) | InstCellSelf(ci, k) | InstCellExternal(ci, k) => {
            let p = cell(&mut m, *ci);
            let own = name_of(*ci);
            let domain = d.name.clone();
            let tgt = name_of(d.cells[*ci].layout.as_ref().unwrap().insts[*k].cell);
            let i = &mut m.cells[p].layout.as_mut().unwrap().instances[*k];
            match fault {
                InstLocRemoved(..) => i.loc = Option::None,
                InstPlaceRemoved(..) => i.loc = Some(tp::Place { place: Option::None }),
                InstRelative(..) => i.loc = Some(tp::Place { place: Some(tp::place::Place::Rel(tp::RelPlace {})) }),
                InstCellRemoved(..) => i.cell = Option::None,
                InstCellToRemoved(..) => i.cell = Some(proto::utils::Reference { to: Option::None }),
                InstCellUndefined(..) => i.cell = Some(proto::utils::Reference { to: Some(proto::utils::reference::To::Local("no_such_cell".into())) }),
                InstCellSelf(..) => i.cell = Some(proto::utils::Reference { to: Some(proto::utils::reference::To::Local(own)) }),
                _ => i.cell = Some(proto::utils::Reference { to: Some(proto::utils::reference::To::External(proto::utils::QualifiedName { domain, name: tgt })) }),
            }
        }
        AssignAtRemoved(ci, k) | AssignTrackRemoved(ci, k) | AssignCrossRemoved(ci, k) => {
            let p = cell(&mut m, *ci);
            let a = &mut m.cells[p].layout.as_mut().unwrap().assignments[*k];
            match fault {
                AssignAtRemoved(..) => a.at = Option::None,
                AssignTrackRemoved(..) => a.at.as_mut().unwrap().track = Option::None,
                _ => a.at.as_mut().unwrap().cross = Option::None,
            }
        }
        CutTrackRemoved(ci, k) => {
            let p = cell(&mut m, *ci);
            m.cells[p].layout.as_mut().unwrap().cuts[*k].track = Option::None;
        }
        CutCrossRemoved(ci, k) => {
            let p = cell(&mut m, *ci);
            m.cells[p].layout.as_mut().unwrap().cuts[*k].cross = Option::None;
        }
        NegAssignField(ci, k, f) => {
            let p = cell(&mut m, *ci);
            neg_field(m.cells[p].layout.as_mut().unwrap().assignments[*k].at.as_mut().unwrap(), *f);
        }
        NegCutField(ci, k, f) => {
            let p = cell(&mut m, *ci);
            neg_field(&mut m.cells[p].layout.as_mut().unwrap().cuts[*k], *f);
        }
    }
    m
}

fn through_bytes(m: &tp::Library) -> Result<tp::Library, String> {
    let b = proto::conv::to_bytes(m);
    proto::conv::from_bytes::<tp::Library>(&b).map_err(|e| format!("prost decode: {e}"))
}

// ---------------------------------------------------------------------------------------------
// Self-check of the harness side
// ---------------------------------------------------------------------------------------------

fn self_check() -> &'static Result<(), String> {
    static R: OnceLock<Result<(), String>> = OnceLock::new();
    R.get_or_init(|| {
        for k in 0..NBASES {
            let d = base_desc(k);
            // descriptions are well-formed: instance targets lower-indexed, outlines monotone, names unique
            let mut names = BTreeSet::new();
            for (ci, c) in d.cells.iter().enumerate() {
                if !names.insert(c.name.clone()) {
                    return Err(format!("base {k}: duplicate cell name"));
                }
                if c.layout.is_none() && c.abs.is_none() {
                    return Err(format!("base {k}: cell without view"));
                }
                if let Some(l) = &c.layout {
                    if l.insts.iter().any(|i| i.cell >= ci) {
                        return Err(format!("base {k}: instance target not lower-indexed"));
                    }
                    if l.ox.len() != l.oy.len() || l.ox.windows(2).any(|w| w[1] > w[0]) || l.oy.windows(2).any(|w| w[1] < w[0]) {
                        return Err(format!("base {k}: outline not monotone"));
                    }
                }
            }
            // the reference message in identity order satisfies the order checker; a reversed one does not
            let ident: Vec<usize> = (0..d.cells.len()).collect();
            let m = ref_message(&d, &ident);
            if let Err(e) = check_export_order(&m, &d) {
                return Err(format!("base {k}: reference message fails the order check: {e}"));
            }
            let has_edge = d.cells.iter().any(|c| c.layout.as_ref().map(|l| !l.insts.is_empty()).unwrap_or(false));
            if has_edge {
                let rev: Vec<usize> = ident.iter().rev().cloned().collect();
                if check_export_order(&ref_message(&d, &rev), &d).is_ok() {
                    return Err(format!("base {k}: order check accepts the reversed listing"));
                }
            }
            // prost round trip of the reference message is the identity
            match through_bytes(&m) {
                Ok(m2) if m2 == m => {}
                other => return Err(format!("base {k}: prost round trip changed the message: {:?}", other.err())),
            }
            // every fault changes the message, except None
            for f in faults_of(&d) {
                let fm = faulty_message(&d, &f);
                if (f == Fault::None) != (fm == m) {
                    return Err(format!("base {k}: fault {f:?} does not change the message as intended"));
                }
            }
        }
        Ok(())
    })
}

// ---------------------------------------------------------------------------------------------
// Part 1/2: round trip over all DAGs
// ---------------------------------------------------------------------------------------------

#[derive(Clone, Debug)]
pub struct RtCase {
    pub lib: LibD,
    pub via_bytes: bool,
    pub nedges: usize,
}

const REFL: [(bool, bool); 4] = [(false, false), (true, false), (false, true), (true, true)];

fn outline_alt(i: usize, alt: usize) -> (Vec<i64>, Vec<i64>) {
    let i = i as i64;
    match alt {
        0 => (vec![9 + i], vec![4 + 2 * i]),
        1 => (vec![9 + i, 5], vec![3, 8 + i]),
        2 => (vec![9 + i, 5, 2], vec![1, 3, 8 + i]),
        3 => (vec![6, 6], vec![2, 2]),
        _ => (vec![0], vec![0]),
    }
}

pub struct Dag {
    pub nmin: usize,
    pub nmax: usize,
    pub bound_quick: usize,
    pub bound_thorough: usize,
    pub tagp: &'static str,
}

impl CaseDriver for Dag {
    type Case = RtCase;
    fn id(&self) -> &'static str {
        "C19"
    }
    fn describe(&self, t: Tier) -> Describe {
        Describe {
            rule: format!(
                "placed libraries of n = {}..={} cells: every DAG (cell i may instantiate any subset of the cells j < i) x every listing order of the cells (n!) x reflection base (instance k of a cell gets combination (base+k) mod 4, so all four occur) x content profile (0/1/2 assignments and cuts per layout, witness quadruples with four different numbers); value deviations (transport: message as exported / through prost encode+decode, library / cell names incl. empty, non-ASCII and names with dots (one of them ending in another cell's name), slashes and colons, outline 1-3 steps / repeated step / zero, metals 0..3, views layout / layout+abstract (the abstract optionally with another metal count and outline) / abstract-only leaf / leaf without any view, a layout view named differently from its cell, per-cell assignment and cut counts, a cut / an assignment stated twice (adjacent or apart), a cut at the very crossing of an assignment, an intersection assigned once from each of its two tracks, instance names reused from cell to cell, crossings between layers three apart / on one layer / with the crossing track on layer 0 / with track 0 of layer 0 as either reference, two cells whose names differ only in letter case, net names, per-instance reflection, location incl. (0,0) and negative, duplicated instance) in at most {} place(s). State = one library description + transport; non-trivial = at least one instance, assignment or cut.",
                self.nmin,
                self.nmax,
                self.bound(t)
            ),
            assumptions: vec![
                "instances, assignments and cuts are compared as multisets (the statement does not fix their order); cells are matched by name".into(),
                "an imported instance must point at the cell object of that name inside the imported library".into(),
                "the content of the exported message is only judged for dependencies-first order; field-level content is judged on the re-imported library".into(),
            ],
            excluded: vec![
                "abstract ports (ProtoLibImporter::import_abstract_port is todo!() and the statement does not list ports)".into(),
                "raw-layout cells, interfaces, relative placements (the statement is about placed libraries)".into(),
            ],
            technique: "bounded-exhaustive enumeration of library descriptions on the real ProtoExporter::export / ProtoLibImporter::import, compared with the description".into(),
        }
    }
    fn bound(&self, t: Tier) -> usize {
        t.pick(self.bound_quick, self.bound_thorough)
    }
    fn gen(&self, _t: Tier, c: &mut Chooser) -> RtCase {
        let n = self.nmin + if self.nmax > self.nmin { c.free(self.nmax - self.nmin + 1, "n") } else { 0 };
        let mut edges = vec![vec![]; n];
        let mut nedges = 0;
        for i in 1..n {
            for j in 0..i {
                if c.flag("edge") {
                    edges[i].push(j);
                    nedges += 1;
                }
            }
        }
        let perms = super::c09::permutations(n);
        let listing = perms[c.free(perms.len(), "listing")].clone();
        let base = c.free(4, "refl-base");
        let profile = c.free(3, "profile");
        let via_bytes = c.cost(2, "via-bytes") == 1;
        let name = ["lib19", "", "Bibliothèque 19"][c.cost(3, "lib-name")].to_string();
        let mut cells = vec![];
        for i in 0..n {
            let cname = if i == 0 { ["c0", "Zelle é 0", "std.c0", "a.b.c1", "c0.", "/c0:x"][c.cost(6, "cell-name")].to_string() } else { format!("c{i}") };
            let (ox, oy) = outline_alt(i, c.cost(5, "outline"));
            let metals = ([2usize, 0, 3, 1][i % 4] + c.cost(4, "metals")) % 4;
            let leaf = edges[i].is_empty();
            // leaf cells: layout / layout + abstract / abstract only / neither view (a placeholder made by `Cell::new`)
            let views = c.cost(if leaf { 4 } else { 2 }, "views");
            let nas = (profile + c.cost(3, "n-assign")) % 3;
            let ncut = (profile + c.cost(3, "n-cut")) % 3;
            let mut insts = vec![];
            let mut k = 0usize;
            for &j in &edges[i] {
                let r = REFL[(base + k + c.cost(4, "inst-refl")) % 4];
                let loc = match c.cost(3, "inst-loc") {
                    0 => (3 * i as i64 + j as i64 + 1, -(5 * i as i64 + 2 * j as i64 + 2)),
                    1 => (0, 0),
                    _ => (-(i as i64 + 7), 40 + j as i64),
                };
                insts.push(InstD { name: format!("i{i}_{j}"), cell: j, loc, rh: r.0, rv: r.1 });
                // (instance names are scoped to their cell: optionally every cell numbers its instances x0, x1, ...)
                k += 1;
                if c.cost(2, "inst-dup") == 1 {
                    let r2 = REFL[(base + k) % 4];
                    insts.push(InstD { name: format!("i{i}_{j}b"), cell: j, loc: (loc.1 + 1, loc.0 - 1), rh: r2.0, rv: r2.1 });
                    k += 1;
                }
            }
            let mut assigns = vec![];
            for a in 0..nas {
                let net = if a == 0 { [format!("n{i}{a}"), String::new(), "Ñet 1".to_string()][c.cost(3, "net")].clone() } else { format!("n{i}{a}") };
                assigns.push((net, CrossD(1 + a, 11 + i + 5 * a, a, 23 + i + a)));
            }
            let mut cuts: Vec<CrossD> = (0..ncut).map(|a| CrossD(a, 31 + i, 1 + a, 47 + i + a)).collect();
            // crossings whose two tracks are not on adjacent layers (three apart, the same layer, the crossing track on
            // layer 0 below a far track layer): the schema carries both layers explicitly
            // (4, 5: the track / the crossing track is track 0 of layer 0 - all numbers of the reference are zero)
            match c.cost(6, "crossing-layers") {
                0 => {}
                k => {
                    let far = |x: &CrossD| match k {
                        1 => CrossD(x.0, x.1, x.0 + 3, x.3),
                        2 => CrossD(x.0, x.1, x.0, x.3),
                        3 => CrossD(x.0 + 4, x.1, 0, x.3),
                        4 => CrossD(0, 0, x.2.max(1), x.3),
                        _ => CrossD(x.0.max(1), x.1, 0, 0),
                    };
                    if let Some(x) = cuts.first_mut() {
                        *x = far(x);
                    }
                    if let Some(a) = assigns.first_mut() {
                        a.1 = far(&a.1);
                    }
                }
            }
            // a cut at exactly the crossing of an assignment (the schema stores what it is given)
            if !cuts.is_empty() && !assigns.is_empty() && c.cost(2, "cut-on-an-assignment") == 1 {
                cuts[0] = assigns[0].1.clone();
            }
            // the same cut / the same assignment stated twice in a row, or once more at the end of the list
            if !cuts.is_empty() {
                match c.cost(3, "cut-repeated") {
                    0 => {}
                    1 => cuts.insert(1, cuts[0].clone()),
                    _ => cuts.push(cuts[0].clone()),
                }
            }
            if !assigns.is_empty() {
                match c.cost(4, "assign-repeated") {
                    0 => {}
                    1 => assigns.insert(1, assigns[0].clone()),
                    2 => assigns.push(assigns[0].clone()),
                    // the same intersection named from the other track (another net name: they are two assignments)
                    _ => {
                        let x = assigns[0].1.clone();
                        assigns.push(("other_way".to_string(), CrossD(x.2, x.3, x.0, x.1)));
                    }
                }
            }
            // the layout view may carry a name of its own (the cell is still known by the cell's name)
            let view_name = if views < 2 && c.cost(2, "layout-view-named-differently") == 1 { Some(format!("{cname}_impl")) } else { None };
            let layout = if views >= 2 { None } else { Some(LayoutD { view_name, ox: ox.clone(), oy: oy.clone(), metals, insts, assigns, cuts }) };
            // with both views the abstract may differ from the layout in its metal count and outline
            let abs = match views {
                1 if c.cost(2, "abstract-differs-from-layout") == 1 => Some(AbsD { ox: ox.iter().map(|v| v + 1).collect(), oy: oy.iter().map(|v| 2 * v).collect(), metals: (metals + 1) % 4 }),
                1 | 2 => Some(AbsD { ox, oy, metals }),
                _ => None,
            };
            cells.push(CellD { name: cname, layout, abs });
        }
        // two cells whose names differ only in letter case (the second cell takes the first one's name in upper case)
        if cells.len() >= 2 && c.cost(2, "cell-names-differ-only-in-case") == 1 {
            let up = cells[0].name.to_uppercase();
            if up != cells[0].name {
                cells[1].name = up;
            }
        }
        if nedges > 0 && c.cost(2, "instance-names-reused-across-cells") == 1 {
            for cell in cells.iter_mut() {
                if let Some(l) = cell.layout.as_mut() {
                    for (k, i) in l.insts.iter_mut().enumerate() {
                        i.name = format!("x{k}");
                    }
                }
            }
        }
        RtCase { lib: LibD { name, cells, listing }, via_bytes, nedges }
    }
    fn check(&self, case: &RtCase, key: &str, cx: &mut Cx) {
        if let Err(e) = self_check() {
            cx.machinery(format!("C19 harness self-check failed: {e}"));
            return;
        }
        let d = &case.lib;
        let content = d.cells.iter().any(|c| c.layout.as_ref().map(|l| !l.insts.is_empty() || !l.assigns.is_empty() || !l.cuts.is_empty()).unwrap_or(false));
        cx.state(hash_debug(case), content);
        cx.tag(&format!("{}n:{}", self.tagp, d.cells.len()));
        cx.tag(if case.via_bytes { "transport:bytes" } else { "transport:message" });
        if d.listing.windows(2).any(|w| w[0] > w[1]) && case.nedges > 0 {
            cx.tag("listing:not-dependency-order");
        }
        for c in &d.cells {
            cx.tag(match (&c.layout, &c.abs) {
                (Some(_), None) => "views:layout",
                (Some(l), Some(a)) if l.metals != a.metals => "views:layout+different-abstract",
                (Some(_), Some(_)) => "views:layout+abstract",
                (None, None) => "views:none",
                _ => "views:abstract",
            });
            if let Some(l) = &c.layout {
                cx.tag(match l.ox.len() {
                    1 => "outline:1-step",
                    2 => "outline:2-step",
                    _ => "outline:3-step",
                });
                for i in &l.insts {
                    cx.tag(match (i.rh, i.rv) {
                        (false, false) => "refl:none",
                        (true, false) => "refl:h",
                        (false, true) => "refl:v",
                        (true, true) => "refl:hv",
                    });
                }
                if !l.assigns.is_empty() {
                    cx.tag("has:assignments");
                }
                if !l.cuts.is_empty() {
                    cx.tag("has:cuts");
                }
            }
        }
        let detail = || json!({"library": d.render(), "through_prost_bytes": case.via_bytes});
        // 1. build + export
        let exported = guard(|| {
            let lib = build_lib(d)?;
            let before = observe(&lib).map_err(|e| format!("setup: readback: {e}"))?;
            let msg = ProtoExporter::export(&lib).map_err(|e| format!("export: {}", truncate(&format!("{e:?}"), 300)))?;
            Ok::<_, String>((before, msg))
        });
        let (before, msg) = match exported {
            Err(p) => {
                cx.fail(key, "export-panic", None, || format!("ProtoExporter::export panicked: {}", p.short()), detail);
                cx.outcome("panic");
                return;
            }
            Ok(Err(e)) if e.starts_with("setup:") => {
                cx.fail(key, "setup-failed", None, || format!("could not build the library through the public API: {e}"), detail);
                return;
            }
            Ok(Err(e)) => {
                cx.fail(key, "export-error", None, || format!("a well-formed placed library is not exported: {e}"), detail);
                cx.outcome("export-err");
                return;
            }
            Ok(Ok(x)) => x,
        };
        let want = d.norm();
        if before != want {
            // the public constructors did not give the library we described: harness problem, not a verdict
            cx.machinery(format!("C19: built library differs from its description: {}", first_difference(&want, &before)));
            return;
        }
        // 2. dependencies first
        if let Err(e) = check_export_order(&msg, d) {
            cx.fail(key, "export-order", None, || e.clone(), detail);
            cx.outcome("export-order");
            return;
        }
        // 3. transport + import
        let msg = if case.via_bytes {
            match through_bytes(&msg) {
                Ok(m) => m,
                Err(e) => {
                    cx.fail(key, "bytes", None, || format!("exported message does not survive prost encoding: {e}"), detail);
                    return;
                }
            }
        } else {
            msg
        };
        let imported = guard(|| {
            let lib2 = ProtoLibImporter::import(&msg).map_err(|e| format!("import: {}", truncate(&format!("{e:?}"), 300)))?;
            observe(&lib2).map_err(|e| format!("observe: {e}"))
        });
        match imported {
            Err(p) => {
                cx.fail(key, "import-panic", None, || format!("ProtoLibImporter::import panicked on an exported library: {}", p.short()), detail);
                cx.outcome("panic");
            }
            Ok(Err(e)) if e.starts_with("import:") => {
                cx.fail(key, "import-error", None, || format!("the exported library is not imported back: {e}"), detail);
                cx.outcome("import-err");
            }
            Ok(Err(e)) => {
                cx.fail(key, "imported-malformed", None, || format!("imported library is malformed: {e}"), detail);
                cx.outcome("mismatch");
            }
            Ok(Ok(got)) => {
                if got != want {
                    cx.fail(key, "roundtrip-mismatch", None, || format!("import(export(lib)) differs from lib: {}", first_difference(&want, &got)), detail);
                    cx.outcome("mismatch");
                } else {
                    cx.outcome("roundtrip-equal");
                }
            }
        }
    }
    fn render(&self, case: &RtCase) -> Value {
        json!({"library": case.lib.render(), "through_prost_bytes": case.via_bytes})
    }
    fn guards(&self, _t: Tier, stats: &Stats, _d: u64) -> Result<(), String> {
        require_tags(
            stats,
            &[
                "transport:bytes", "transport:message", "listing:not-dependency-order", "views:layout", "views:layout+abstract", "views:layout+different-abstract", "views:none", "views:abstract", "outline:1-step", "outline:2-step", "outline:3-step", "refl:none", "refl:h", "refl:v",
                "refl:hv", "has:assignments", "has:cuts",
            ],
        )?;
        let ns: Vec<String> = (self.nmin..=self.nmax).map(|n| format!("{}n:{}", self.tagp, n)).collect();
        require_tags(stats, &ns.iter().map(|s| s.as_str()).collect::<Vec<_>>())?;
        require_outcomes(stats, &["roundtrip-equal"])
    }
    fn unit_target(&self, _t: Tier) -> usize {
        4000
    }
}

// ---------------------------------------------------------------------------------------------
// Part 3: malformed messages
// ---------------------------------------------------------------------------------------------

pub const NBASES: usize = 4;
/// Base libraries for the fault injector (hand-written, all features present).
pub fn base_desc(k: usize) -> LibD {
    let lay = |i: usize, steps: usize, metals: usize, insts: Vec<InstD>, nas: usize, ncut: usize| {
        let (ox, oy) = outline_alt(i, steps - 1);
        LayoutD {
            view_name: None,
            ox,
            oy,
            metals,
            insts,
            assigns: (0..nas).map(|a| (format!("n{i}{a}"), CrossD(1 + a, 11 + i + 5 * a, a, 23 + i + a))).collect(),
            cuts: (0..ncut).map(|a| CrossD(a, 31 + i, 1 + a, 47 + i + a)).collect(),
        }
    };
    let inst = |n: &str, cell: usize, loc: (i64, i64), r: usize| InstD { name: n.into(), cell, loc, rh: REFL[r].0, rv: REFL[r].1 };
    let abs = |i: usize, steps: usize, metals: usize| {
        let (ox, oy) = outline_alt(i, steps - 1);
        AbsD { ox, oy, metals }
    };
    match k {
        0 => LibD {
            name: "chain".into(),
            cells: vec![
                CellD { name: "leaf".into(), layout: Some(lay(0, 1, 1, vec![], 1, 1)), abs: Some(abs(0, 1, 1)) },
                CellD { name: "mid".into(), layout: Some(lay(1, 2, 2, vec![inst("m_l", 0, (1, -2), 1)], 2, 0)), abs: Some(abs(1, 2, 2)) },
                CellD { name: "top".into(), layout: Some(lay(2, 3, 3, vec![inst("t_m", 1, (-4, 5), 2), inst("t_l", 0, (6, 7), 3)], 0, 2)), abs: None },
            ],
            listing: vec![0, 1, 2],
        },
        1 => LibD { name: "single".into(), cells: vec![CellD { name: "only".into(), layout: Some(lay(0, 2, 3, vec![], 2, 2)), abs: Some(abs(0, 2, 3)) }], listing: vec![0] },
        2 => LibD {
            name: "star".into(),
            cells: vec![
                CellD { name: "a".into(), layout: None, abs: Some(abs(0, 1, 0)) },
                CellD { name: "b".into(), layout: Some(lay(1, 1, 1, vec![], 0, 0)), abs: None },
                CellD { name: "hub".into(), layout: Some(lay(2, 1, 2, vec![inst("h_a0", 0, (0, 0), 0), inst("h_a1", 0, (9, 0), 1), inst("h_b0", 1, (0, 8), 2), inst("h_b1", 1, (9, 8), 3)], 1, 1)), abs: None },
            ],
            listing: vec![0, 1, 2],
        },
        _ => LibD {
            name: "diamond".into(),
            cells: vec![
                CellD { name: "d0".into(), layout: Some(lay(0, 1, 0, vec![], 0, 0)), abs: None },
                CellD { name: "d1".into(), layout: Some(lay(1, 1, 1, vec![inst("x", 0, (1, 1), 3)], 0, 1)), abs: None },
                CellD { name: "d2".into(), layout: Some(lay(2, 2, 1, vec![inst("y", 0, (2, 2), 1)], 1, 0)), abs: None },
                CellD { name: "d3".into(), layout: Some(lay(3, 1, 2, vec![inst("p", 1, (3, 3), 2), inst("q", 2, (-3, 4), 0)], 0, 0)), abs: None },
            ],
            listing: vec![0, 1, 2, 3],
        },
    }
}

#[derive(Clone, Debug)]
pub struct FaultCase {
    pub base: usize,
    pub fault: Fault,
    pub via_bytes: bool,
}
pub struct Malformed;
impl CaseDriver for Malformed {
    type Case = FaultCase;
    fn id(&self) -> &'static str {
        "C19"
    }
    fn describe(&self, _t: Tier) -> Describe {
        Describe {
            rule: format!(
                "protobuf Library messages written by the harness's own encoder for {NBASES} base libraries (chain of 3 with abstracts, single cell, star with 4 instances and an abstract-only cell, diamond of 4), each with exactly one fault at every applicable site: layout / abstract outline removed; instance loc / place / cell / cell.to removed; relative placement; undefined, self and external cell reference; assignment at / track / cross removed; cut track / cross removed; negative metals / outline entry / layer / track numbers; every cell order that lists a user before its dependency; non-monotone, length-mismatched and empty outlines; plus the fault-free message; each as message and through prost bytes. State = (base, fault, transport); all non-trivial except the fault-free ones."
            ),
            assumptions: vec![
                "must be Err: outline / location / cell reference / assignment or cut sub-message removed, relative placement, undefined or not-yet-defined (self, later-listed) cell, negative numbers where the data model has unsigned ones; for external references and ill-shaped outlines anything but a panic is accepted".into(),
                "a fault-free harness-encoded message must import to exactly the described library".into(),
            ],
            excluded: vec!["abstract ports (import is todo!() in the crate)".into()],
            technique: "single-fault injection at every site of harness-encoded protobuf messages, run on the real ProtoLibImporter::import".into(),
        }
    }
    fn bound(&self, _t: Tier) -> usize {
        0
    }
    fn gen(&self, _t: Tier, c: &mut Chooser) -> FaultCase {
        let base = c.free(NBASES, "base");
        let fs = faults_of(&base_desc(base));
        let fault = fs[c.free(fs.len(), "fault")].clone();
        let via_bytes = c.flag("via-bytes");
        FaultCase { base, fault, via_bytes }
    }
    fn check(&self, case: &FaultCase, key: &str, cx: &mut Cx) {
        if let Err(e) = self_check() {
            cx.machinery(format!("C19 harness self-check failed: {e}"));
            return;
        }
        cx.state(hash_debug(case), case.fault != Fault::None);
        cx.tag(&format!("fault:{}", case.fault.class()));
        let d = base_desc(case.base);
        let msg0 = faulty_message(&d, &case.fault);
        let msg = if case.via_bytes {
            match through_bytes(&msg0) {
                Ok(m) => m,
                Err(e) => {
                    cx.machinery(format!("C19: faulty message does not survive prost: {e}"));
                    return;
                }
            }
        } else {
            msg0
        };
        let detail = || json!({"base_library": d.render(), "fault": format!("{:?}", case.fault), "through_prost_bytes": case.via_bytes, "message": serde_json::to_value(&msg).unwrap_or(Value::Null)});
        let res = guard(|| match ProtoLibImporter::import(&msg) {
            Err(e) => Err(truncate(&format!("{e:?}"), 200)),
            Ok(lib) => Ok(observe(&lib)),
        });
        match res {
            Err(p) => {
                cx.fail(key, &format!("import-panic:{}", case.fault.class()), None, || format!("ProtoLibImporter::import panicked on a message with fault {:?}: {}", case.fault, p.short()), detail);
                cx.outcome("panic");
            }
            Ok(Err(_e)) => {
                if case.fault == Fault::None {
                    cx.fail(key, "valid-message-rejected", None, || format!("a fault-free message is rejected: {_e}"), detail);
                    cx.outcome("err-unexpected");
                } else {
                    cx.outcome(if case.fault.must_err() { "err-as-required" } else { "err-lenient-class" });
                }
            }
            Ok(Ok(obs)) => {
                if case.fault == Fault::None {
                    match obs {
                        Ok(got) if got == d.norm() => cx.outcome("valid-message-imported"),
                        Ok(got) => {
                            cx.fail(key, "valid-message-misread", None, || format!("fault-free message imported to a different library: {}", first_difference(&d.norm(), &got)), detail);
                            cx.outcome("mismatch");
                        }
                        Err(e) => {
                            cx.fail(key, "valid-message-misread", None, || format!("fault-free message imported to a malformed library: {e}"), detail);
                            cx.outcome("mismatch");
                        }
                    }
                } else if case.fault.must_err() {
                    cx.fail(key, &format!("malformed-accepted:{}", case.fault.class()), None, || format!("import returns Ok for a message with fault {:?}", case.fault), detail);
                    cx.outcome("ok-unexpected");
                } else {
                    cx.outcome("ok-lenient-class");
                }
            }
        }
    }
    fn render(&self, case: &FaultCase) -> Value {
        json!({"base_library": base_desc(case.base).render(), "fault": format!("{:?}", case.fault), "through_prost_bytes": case.via_bytes})
    }
    fn guards(&self, _t: Tier, stats: &Stats, _d: u64) -> Result<(), String> {
        require_tags(
            stats,
            &[
                "fault:none", "fault:outline-removed", "fault:location-removed", "fault:relative-placement", "fault:cell-reference-removed", "fault:undefined-cell", "fault:external-reference",
                "fault:assignment-submessage-removed", "fault:cut-submessage-removed", "fault:negative-count", "fault:listed-after-user", "fault:outline-shape",
            ],
        )?;
        require_outcomes(stats, &["err-as-required", "valid-message-imported"])
    }
    fn unit_target(&self, _t: Tier) -> usize {
        64
    }
}

pub fn driver() -> Box<dyn Driver> {
    Box::new(Multi {
        id: "C19",
        parts: vec![
            ("dag3", Box::new(super::balance::Balanced(ByCase(Dag { nmin: 1, nmax: 3, bound_quick: 2, bound_thorough: 3, tagp: "" })))),
            ("dag4", Box::new(super::balance::Balanced(ByCase(Dag { nmin: 4, nmax: 4, bound_quick: 0, bound_thorough: 1, tagp: "d4-" })))),
            ("malformed", Box::new(ByCase(Malformed))),
        ],
    })
}
