//! Shared, choice-driven generator of GDSII library *values* (as reference-model values `RLib`) and the
//! harness-side mapping of such a value onto gds21's data types. Used by C01, C02, C03 and (for base
//! streams) C10. Nothing here calls gds21's reader or writer; `to_gds` only builds plain data.
//!
//! Families (top-level free choice; each family is a closed finite space):
//!   single  one structure with one element: element kind x EVERY subset of the optional records x EVERY
//!           strans variant (absent | present x reflect x abs-mag x abs-angle x mag? x angle?) x 0..2
//!           properties; values deviate from witness values within the short alphabets
//!   pairs   0..2 structures x 0..2 elements, all ordered pairs (thorough: triples) of the seven kinds, each
//!           element either minimal or with all optional records; short value alphabets
//!   strings each string site of 14 shapes walks the full string alphabet (all strings over
//!           {a, B, e-acute, euro, space, NUL} up to a length, plus 511/512-byte strings)
//!   reals   each real site (UNITS x2, MAG, ANGLE) walks the 40-value slice of the C15 alphabet
//!   limits  coordinate lists and strings at the 16-bit record-length limit (and at the 0x8000 boundary)
//!
//! Witness values: every field gets a value different from the default and from every sibling of the
//! same type, so swapped / dropped / cross-wired fields are visible.

use crate::core::Tier;
use crate::explore::Chooser;
use crate::props::c15::{ref_decode, ref_encode};
use crate::refmodel::gdsstream::*;
use gds21::*;
use serde_json::{json, Value};
use std::sync::OnceLock;

// -------------------------------------------------------------------------------------------------
// Alphabets
// -------------------------------------------------------------------------------------------------

pub const SIGMA: [&str; 6] = ["a", "B", "\u{e9}", "\u{20ac}", " ", "\0"];

/// all strings over SIGMA with 0..=n symbols, shortest first
pub fn sigma_strings(n: usize) -> &'static Vec<Vec<u8>> {
    static CACHE: [OnceLock<Vec<Vec<u8>>>; 6] = [OnceLock::new(), OnceLock::new(), OnceLock::new(), OnceLock::new(), OnceLock::new(), OnceLock::new()];
    CACHE[n.min(5)].get_or_init(|| {
        let n = n.min(5);
        let mut out: Vec<Vec<u8>> = vec![vec![]];
        let mut level: Vec<Vec<u8>> = vec![vec![]];
        for _ in 0..n {
            let mut next = Vec::with_capacity(level.len() * 6);
            for s in &level {
                for sym in SIGMA {
                    let mut t = s.clone();
                    t.extend_from_slice(sym.as_bytes());
                    next.push(t);
                }
            }
            out.extend(next.iter().cloned());
            level = next;
        }
        out
    })
}

/// deterministic long ASCII string whose content depends on the position (shifts are visible)
pub fn long_string(len: usize) -> Vec<u8> {
    (0..len).map(|i| b"abcdefghijklmnopqrstuvwxyz0123456789"[(i + i / 36) % 36]).collect()
}

/// short string alphabet used where strings are not the family's subject (the witness comes first)
const SHORT_STRS: [&str; 9] = ["", "a", "ab", "abc", "\u{e9}", "\u{20ac}", "a\0", "\0", "x y"];

fn up(x: f64, n: i64) -> f64 {
    f64::from_bits((x.to_bits() as i64 + n) as u64)
}

/// The 43-value slice of the C15 alphabet (inside the GDSII real range, plus the two zeros, plus three values
/// below the normalised range that have an exact un-normalised representation).
pub fn real_slice() -> &'static Vec<f64> {
    static C: OnceLock<Vec<f64>> = OnceLock::new();
    C.get_or_init(|| {
        let smallest = f64::from_bits(((1023 - 260) as u64) << 52); // 16^-65, the smallest normalised real
        let largest = up(f64::from_bits(((1023 + 252) as u64) << 52), -1); // 16^63 - 1 ulp
        let mut v = vec![
            0.0,
            -0.0,
            1.0,
            up(1.0, 1),
            up(1.0, -1),
            up(1.0, -2),
            0.0625,
            up(0.0625, 1),
            up(0.0625, -1),
            16.0,
            up(16.0, 1),
            up(16.0, -1),
            up(16.0, -3),
            90.0,
            -90.0,
            180.0,
            270.0,
            360.0,
            1e-3,
            1e-9,
            1e-6,
            -1e-3,
            0.5,
            2.0,
            -1.0,
            -2.5,
            std::f64::consts::PI,
            -std::f64::consts::E,
            256.0,
            up(256.0, -1),
            smallest,
            up(smallest, 1),
            -smallest,
            largest,
            up(largest, -1),
            -largest,
            4096.0,
            up(4096.0, -1),
            1.0 / 3.0,
            123456789.125,
            // below the normalised range: exactly representable only with leading zero mantissa digits at exponent
            // byte 0 (16^-66, 3 x 16^-70 negative, and the very smallest real 16^-78)
            f64::from_bits(((1023 - 264) as u64) << 52),
            -3.0 * f64::from_bits(((1023 - 280) as u64) << 52),
            f64::from_bits(((1023 - 312) as u64) << 52),
        ];
        v.dedup_by(|a, b| a.to_bits() == b.to_bits());
        assert_eq!(v.len(), 43);
        v
    })
}

/// raw 8 bytes of a double of the alphabet (exact; zero keeps its sign bit so that -0.0 survives `to_gds`)
pub fn real_raw(x: f64) -> u64 {
    let tiny = f64::from_bits(((1023 - 260) as u64) << 52); // 16^-65
    if x == 0.0 {
        x.to_bits() & (1u64 << 63)
    } else if x.abs() < tiny {
        // below the normalised range: exponent byte 0, mantissa = |x| * 2^312 (must be an exact integer)
        let m = x.abs() * f64::from_bits(((1023 + 312) as u64) << 52);
        assert!(m.fract() == 0.0 && m >= 1.0 && m < (1u64 << 52) as f64, "oracle domain: {x:e} has no exact un-normalised representation");
        (x.to_bits() & (1u64 << 63)) | m as u64
    } else {
        ref_encode(x.to_bits())
    }
}
/// the double a normalised (or zero) raw real stands for, exactly
pub fn real_f64(r: u64) -> f64 {
    if r & 0x00ff_ffff_ffff_ffff == 0 {
        if r >> 63 == 1 {
            -0.0
        } else {
            0.0
        }
    } else if (r >> 56) & 0x7f == 0 && (r & 0x00ff_ffff_ffff_ffff) >> 52 == 0 {
        // exponent byte 0 with leading zero digits: mantissa * 2^-312, exact
        let v = (r & 0x00ff_ffff_ffff_ffff) as f64 * f64::from_bits(((1023 - 312) as u64) << 52);
        if r >> 63 == 1 {
            -v
        } else {
            v
        }
    } else {
        f64::from_bits(ref_decode(r))
    }
}
/// zero has one representation by value
pub fn canon_real(r: u64) -> u64 {
    if r & 0x00ff_ffff_ffff_ffff == 0 {
        0
    } else {
        r
    }
}

// -------------------------------------------------------------------------------------------------
// Generator
// -------------------------------------------------------------------------------------------------

#[derive(Clone, Copy, PartialEq, Debug)]
enum Shape {
    Free,
    Min,
    Full,
}
#[derive(Clone, Copy, PartialEq, Debug)]
enum StrMode {
    Short,
    /// full alphabet up to n symbols
    Full(usize),
    /// witness only
    Fixed,
}
#[derive(Clone, Copy, PartialEq, Debug)]
enum RealMode {
    Short,
    Slice,
    Fixed,
}
#[derive(Clone, Copy)]
struct Modes {
    s: StrMode,
    r: RealMode,
    /// integer fields deviate
    ints: bool,
    /// family-local deviation bound: once this many costed alternatives have been taken, the remaining
    /// fields keep their witness value (no further choice point)
    max_dev: usize,
}
fn may(c: &Chooser, m: Modes) -> bool {
    c.deviations() < m.max_dev
}

pub struct GenCase {
    pub lib: RLib,
    pub family: &'static str,
}

pub const FAMILIES: [&str; 6] = ["single", "pairs", "strings", "reals", "limits", "triples"];

fn i16v(c: &mut Chooser, m: Modes, w: i16, label: &'static str) -> i16 {
    if m.ints && may(c, m) {
        c.cost_of(&[w, 0, -1, i16::MIN, i16::MAX], label)
    } else {
        w
    }
}
fn i32v(c: &mut Chooser, m: Modes, w: i32, label: &'static str) -> i32 {
    if m.ints && may(c, m) {
        c.cost_of(&[w, 0, -1, i32::MIN, i32::MAX], label)
    } else {
        w
    }
}
fn bitsv(c: &mut Chooser, m: Modes, w: [u8; 2], label: &'static str) -> [u8; 2] {
    if m.ints && may(c, m) {
        c.cost_of(&[w, [0, 0], [0xff, 0xff], [w[1], w[0]]], label)
    } else {
        w
    }
}
fn strv(c: &mut Chooser, m: Modes, w: &str, label: &'static str) -> Vec<u8> {
    if !may(c, m) {
        return w.as_bytes().to_vec();
    }
    match m.s {
        StrMode::Fixed => w.as_bytes().to_vec(),
        StrMode::Short => {
            let k = c.cost(1 + SHORT_STRS.len(), label);
            if k == 0 { w.as_bytes().to_vec() } else { SHORT_STRS[k - 1].as_bytes().to_vec() }
        }
        StrMode::Full(n) => {
            let all = sigma_strings(n);
            let k = c.cost(1 + all.len() + 2, label);
            if k == 0 {
                w.as_bytes().to_vec()
            } else if k <= all.len() {
                all[k - 1].clone()
            } else if k == all.len() + 1 {
                long_string(511)
            } else {
                long_string(512)
            }
        }
    }
}
fn realv(c: &mut Chooser, m: Modes, w: f64, label: &'static str) -> u64 {
    if !may(c, m) {
        return real_raw(w);
    }
    match m.r {
        RealMode::Fixed => real_raw(w),
        RealMode::Short => real_raw(c.cost_of(&[w, 0.0, 1.0, up(16.0, -1), -w, up(0.0625, -2)], label)),
        RealMode::Slice => {
            let s = real_slice();
            let k = c.cost(1 + s.len(), label);
            real_raw(if k == 0 { w } else { s[k - 1] })
        }
    }
}
fn datesv(c: &mut Chooser, m: Modes, base: i16, label: &'static str) -> [i16; 12] {
    let w: [i16; 12] = std::array::from_fn(|i| base + i as i16);
    if !m.ints || !may(c, m) {
        return w;
    }
    match c.cost(12, label) {
        0 => w,
        // the library's witness modification time with another access time, and the reverse (consecutive date
        // records that agree in one half only)
        10 => [1001, 1002, 1003, 1004, 1005, 1006, 3007, 3008, 3009, 3010, 3011, 3012],
        11 => [3001, 3002, 3003, 3004, 3005, 3006, 1007, 1008, 1009, 1010, 1011, 1012],
        // four-digit calendar years (some writers store them) and the values around that range
        7 => [2024, 2, 29, 13, 14, 15, 1999, 12, 31, 23, 59, 59],
        8 => [1900, 1, 1, 0, 0, 0, 2099, 12, 31, 23, 59, 59],
        9 => [1899, 1, 1, 0, 0, 0, 2100, 12, 31, 23, 59, 59],
        1 => [0; 12],
        2 => [-1; 12],
        3 => [i16::MIN; 12],
        4 => [i16::MAX; 12],
        // a plausible calendar date (what now() would give) and an impossible one
        5 => [126, 10, 3, 21, 9, 30, 126, 10, 3, 21, 9, 31],
        _ => [99, 13, 32, 25, 61, 61, i16::MAX, i16::MIN, 0, -1, 255, 256],
    }
}

fn witness_points(n: usize, ord: i32) -> Vec<i32> {
    let mut v = Vec::with_capacity(n * 2);
    for i in 0..n as i32 {
        v.push(1000 + 3 * i + 100_000 * ord);
        v.push(-2000 - 7 * i - 100_000 * ord);
    }
    v
}
/// coordinate list of a fixed number of points (sref 1, aref 3, text 1, box 5)
fn coords_fixed(c: &mut Chooser, m: Modes, n: usize, ord: i32, label: &'static str) -> Vec<i32> {
    let w = witness_points(n, ord);
    if !m.ints || !may(c, m) {
        return w;
    }
    match c.cost(6, label) {
        0 => w,
        1 => vec![0; 2 * n],
        2 => vec![-1; 2 * n],
        3 => vec![i32::MIN; 2 * n],
        4 => vec![i32::MAX; 2 * n],
        _ => (0..2 * n).map(|i| if i % 2 == 0 { i32::MIN + i as i32 } else { i32::MAX - i as i32 }).collect(),
    }
}
/// coordinate list of free length (boundary, path, node)
fn coords_list(c: &mut Chooser, m: Modes, ord: i32, label: &'static str) -> Vec<i32> {
    let w = witness_points(5, ord);
    if !m.ints || !may(c, m) {
        return w;
    }
    match c.cost(10, label) {
        0 => w,
        1 => vec![],
        2 => witness_points(1, ord),
        3 => witness_points(2, ord),
        4 => witness_points(50, ord),
        5 => vec![0; 10],
        6 => vec![-1; 10],
        7 => vec![i32::MIN; 10],
        8 => vec![i32::MAX; 10],
        _ => (0..10).map(|i| if i % 2 == 0 { i32::MIN + i } else { i32::MAX - i }).collect(),
    }
}

fn opt(c: &mut Chooser, s: Shape, label: &'static str) -> bool {
    match s {
        Shape::Free => c.flag(label),
        Shape::Min => false,
        Shape::Full => true,
    }
}

fn gen_strans(c: &mut Chooser, s: Shape, m: Modes) -> Option<RStrans> {
    let v = match s {
        Shape::Free => c.free(33, "strans"),
        Shape::Min => 0,
        // reflected, absolute angle but not absolute magnification, both reals: an asymmetric pattern
        Shape::Full => 1 + (1 | 4 | 8 | 16),
    };
    if v == 0 {
        return None;
    }
    let b = v - 1;
    let mut flags = 0u16;
    if b & 1 != 0 {
        flags |= STRANS_REFLECT;
    }
    if b & 2 != 0 {
        flags |= STRANS_ABS_MAG;
    }
    if b & 4 != 0 {
        flags |= STRANS_ABS_ANGLE;
    }
    let mag = if b & 8 != 0 { Some(realv(c, m, 2.5, "mag")) } else { None };
    let angle = if b & 16 != 0 { Some(realv(c, m, 90.0, "angle")) } else { None };
    Some(RStrans { flags, mag, angle })
}

fn gen_elem(c: &mut Chooser, kind: Kind, s: Shape, m: Modes, ord: usize) -> RElem {
    let o16 = (ord as i16) * 40;
    let o32 = (ord as i32) * 1_000_000;
    let oi = ord as i32;
    let mut e = RElem::new(kind);
    if opt(c, s, "elflags?") {
        e.elflags = Some(bitsv(c, m, [0x12, 0x34 + ord as u8], "elflags"));
    }
    if opt(c, s, "plex?") {
        e.plex = Some(i32v(c, m, 0x0102_0304 + o32, "plex"));
    }
    if kind.has_layer() {
        e.layer = i16v(c, m, 21 + o16, "layer");
        e.xtype = i16v(c, m, 22 + o16, "xtype");
    }
    match kind {
        Kind::Boundary | Kind::Node => e.xy = coords_list(c, m, oi, "xy"),
        Kind::Box => e.xy = coords_fixed(c, m, 5, oi, "xy"),
        Kind::Path => {
            if opt(c, s, "pathtype?") {
                e.path_type = Some(i16v(c, m, 4 + o16, "pathtype"));
            }
            if opt(c, s, "width?") {
                e.width = Some(i32v(c, m, 70_000 + o32, "width"));
            }
            if opt(c, s, "bgnextn?") {
                e.bgnextn = Some(i32v(c, m, 11 + o32, "bgnextn"));
            }
            if opt(c, s, "endextn?") {
                e.endextn = Some(i32v(c, m, -7 - o32, "endextn"));
            }
            e.xy = coords_list(c, m, oi, "xy");
        }
        Kind::Sref => {
            e.sname = strv(c, m, if ord == 0 { "refd" } else { "refd2" }, "sname");
            e.strans = gen_strans(c, s, m);
            e.xy = coords_fixed(c, m, 1, oi, "xy");
        }
        Kind::Aref => {
            e.sname = strv(c, m, if ord == 0 { "arrd" } else { "arrd2" }, "sname");
            e.strans = gen_strans(c, s, m);
            // a single placement, a single column, a single row: still an array
            let base: (i16, i16) = if m.ints && may(c, m) { c.cost_of(&[(3 + o16, 5 + o16), (1, 1), (1, 5 + o16), (3 + o16, 1)], "colrow-shape") } else { (3 + o16, 5 + o16) };
            e.colrow = (i16v(c, m, base.0, "cols"), i16v(c, m, base.1, "rows"));
            e.xy = coords_fixed(c, m, 3, oi, "xy");
        }
        Kind::Text => {
            if opt(c, s, "presentation?") {
                e.presentation = Some(bitsv(c, m, [0x00, 0x25 + ord as u8], "presentation"));
            }
            if opt(c, s, "pathtype?") {
                e.path_type = Some(i16v(c, m, 4 + o16, "pathtype"));
            }
            if opt(c, s, "width?") {
                e.width = Some(i32v(c, m, 70_000 + o32, "width"));
            }
            e.strans = gen_strans(c, s, m);
            e.xy = coords_fixed(c, m, 1, oi, "xy");
            e.string = strv(c, m, if ord == 0 { "label" } else { "label2" }, "string");
        }
    }
    let nprops = match s {
        Shape::Free => c.free(3, "nprops"),
        Shape::Min => 0,
        Shape::Full => 2,
    };
    for p in 0..nprops {
        let a = i16v(c, m, 31 + p as i16 + o16, "propattr");
        let v = strv(c, m, if p == 0 { "pv" } else { "pv2" }, "propvalue");
        e.props.push((a, v));
    }
    e
}

fn gen_header(c: &mut Chooser, m: Modes) -> RLib {
    let mut l = RLib::default();
    l.version = if m.ints && may(c, m) { c.cost_of(&[600, 3, 5, 7, 0, -1, i16::MIN, i16::MAX], "version") } else { 600 };
    l.dates = datesv(c, m, 1001, "libdates");
    l.name = strv(c, m, "wlib", "libname");
    l.units = [realv(c, m, 1e-3, "units0"), realv(c, m, 1e-9, "units1")];
    l
}
fn gen_struct_head(c: &mut Chooser, m: Modes, si: usize) -> RStruct {
    let mut s = RStruct::default();
    s.dates = datesv(c, m, 1101 + 100 * si as i16, "strdates");
    s.name = strv(c, m, if si == 0 { "cell" } else { "cell2" }, "strname");
    s
}

const SHORT: Modes = Modes { s: StrMode::Short, r: RealMode::Short, ints: true, max_dev: 2 };
const FIXED: Modes = Modes { s: StrMode::Fixed, r: RealMode::Fixed, ints: false, max_dev: 0 };

/// The generator. `families`: which families this property enumerates (indices into FAMILIES).
pub fn gen_lib(t: Tier, c: &mut Chooser, families: &[usize]) -> GenCase {
    let fam = families[c.free(families.len(), "family")];
    let family = FAMILIES[fam];
    let lib = match fam {
        // single
        0 => {
            let kind = Kind::ALL[c.free(7, "kind")];
            let mut l = gen_header(c, SHORT);
            let mut s = gen_struct_head(c, SHORT, 0);
            s.elems.push(gen_elem(c, kind, Shape::Free, SHORT, 0));
            l.structs.push(s);
            l
        }
        // pairs
        1 => {
            let mut l = gen_header(c, SHORT);
            let nstructs = c.free(3, "nstructs");
            let max_e = if nstructs == 2 { 1 } else { 2 };
            let mut ord = 0;
            for si in 0..nstructs {
                let mut s = gen_struct_head(c, SHORT, si);
                let ne = c.free(max_e + 1, "nelems");
                for _ in 0..ne {
                    let kind = Kind::ALL[c.free(7, "kind")];
                    let shape = if c.flag("full?") { Shape::Full } else { Shape::Min };
                    s.elems.push(gen_elem(c, kind, shape, SHORT, ord));
                    ord += 1;
                }
                l.structs.push(s);
            }
            // two structures may carry the same name (the library value is a list, not a map)
            if nstructs == 2 && c.cost(2, "duplicate-struct-name") == 1 {
                l.structs[1].name = l.structs[0].name.clone();
            }
            l
        }
        // strings
        2 => {
            // one string site deviates at a time (family-local bound 1)
            let m = Modes { s: StrMode::Full(t.pick(3, 5)), r: RealMode::Fixed, ints: false, max_dev: 1 };
            let kind = Kind::ALL[c.free(7, "kind")];
            let shape = if c.flag("full?") { Shape::Full } else { Shape::Min };
            let mut l = gen_header(c, m);
            let mut s = gen_struct_head(c, m, 0);
            s.elems.push(gen_elem(c, kind, shape, m, 0));
            l.structs.push(s);
            l
        }
        // reals
        3 => {
            let m = Modes { s: StrMode::Fixed, r: RealMode::Slice, ints: false, max_dev: 2 };
            let kind = [Kind::Sref, Kind::Aref, Kind::Text][c.free(3, "kind")];
            let mut l = gen_header(c, m);
            let mut s = gen_struct_head(c, m, 0);
            s.elems.push(gen_elem(c, kind, Shape::Full, m, 0));
            l.structs.push(s);
            l
        }
        // triples (thorough): one structure with three elements, every ordered triple of kinds, each minimal
        // or full; a single value deviation
        5 => {
            let m = Modes { max_dev: 1, ..SHORT };
            let mut l = gen_header(c, m);
            let mut s = gen_struct_head(c, m, 0);
            for ord in 0..3 {
                let kind = Kind::ALL[c.free(7, "kind")];
                let shape = if c.flag("full?") { Shape::Full } else { Shape::Min };
                s.elems.push(gen_elem(c, kind, shape, m, ord));
            }
            l.structs.push(s);
            l
        }
        // limits
        _ => {
            let mut l = gen_header(c, FIXED);
            let mut s = gen_struct_head(c, FIXED, 0);
            const COUNTS: [usize; 8] = [4094, 4095, 4096, 8190, 8191, 8192, 8193, 16384];
            const LENS: [usize; 8] = [32763, 32764, 32765, 65529, 65530, 65531, 65532, 70000];
            let which = c.free(9, "limit-site");
            let full = c.flag("full?");
            let shape = if full { Shape::Full } else { Shape::Min };
            if which < 3 {
                let kind = [Kind::Boundary, Kind::Path, Kind::Node][which];
                let mut e = gen_elem(c, kind, shape, FIXED, 0);
                e.xy = witness_points(COUNTS[c.free(8, "npoints")], 0);
                s.elems.push(e);
            } else {
                let len = LENS[c.free(8, "strlen")];
                let kind = match which {
                    5 => Kind::Sref,
                    6 => Kind::Aref,
                    7 => Kind::Text,
                    _ => Kind::Box,
                };
                let mut e = gen_elem(c, kind, if which == 8 { Shape::Full } else { shape }, FIXED, 0);
                match which {
                    3 => l.name = long_string(len),
                    4 => s.name = long_string(len),
                    5 | 6 => e.sname = long_string(len),
                    7 => e.string = long_string(len),
                    _ => e.props[1].1 = long_string(len),
                }
                s.elems.push(e);
            }
            l.structs.push(s);
            l
        }
    };
    GenCase { lib, family }
}


// -------------------------------------------------------------------------------------------------
// Fixed values (base streams of C10)
// -------------------------------------------------------------------------------------------------

/// an element with witness values only: minimal (no optional record) or with every optional record
pub fn fixed_elem(kind: Kind, full: bool, ord: usize) -> RElem {
    let mut c = Chooser::new(&[]);
    let e = gen_elem(&mut c, kind, if full { Shape::Full } else { Shape::Min }, FIXED, ord);
    assert!(c.trace.is_empty());
    e
}
pub fn fixed_header() -> RLib {
    let mut c = Chooser::new(&[]);
    gen_header(&mut c, FIXED)
}
pub fn fixed_struct(si: usize) -> RStruct {
    let mut c = Chooser::new(&[]);
    gen_struct_head(&mut c, FIXED, si)
}

// -------------------------------------------------------------------------------------------------
// Mapping onto gds21's data model (plain data construction)
// -------------------------------------------------------------------------------------------------

fn gstr(b: &[u8]) -> String {
    String::from_utf8(b.to_vec()).expect("MACHINERY: generator strings are UTF-8")
}
fn gdates(d: &[i16; 12]) -> GdsDateTimes {
    let f = |o: usize| GdsDateTime { year: d[o], month: d[o + 1], day: d[o + 2], hour: d[o + 3], minute: d[o + 4], second: d[o + 5] };
    GdsDateTimes { modified: f(0), accessed: f(6) }
}
fn gpts(xy: &[i32]) -> Vec<GdsPoint> {
    xy.chunks_exact(2).map(|p| GdsPoint::new(p[0], p[1])).collect()
}
fn gstrans(s: &RStrans) -> GdsStrans {
    GdsStrans {
        reflected: s.flags & STRANS_REFLECT != 0,
        abs_mag: s.flags & STRANS_ABS_MAG != 0,
        abs_angle: s.flags & STRANS_ABS_ANGLE != 0,
        mag: s.mag.map(real_f64),
        angle: s.angle.map(real_f64),
    }
}
fn gprops(e: &RElem) -> Vec<GdsProperty> {
    e.props.iter().map(|(a, v)| GdsProperty { attr: *a, value: gstr(v) }).collect()
}

pub fn elem_to_gds(e: &RElem) -> GdsElement {
    let elflags = e.elflags.map(|f| GdsElemFlags(f[0], f[1]));
    let plex = e.plex.map(GdsPlex);
    let properties = gprops(e);
    match e.kind {
        Kind::Boundary => GdsElement::GdsBoundary(GdsBoundary { layer: e.layer, datatype: e.xtype, xy: gpts(&e.xy), elflags, plex, properties }),
        Kind::Path => GdsElement::GdsPath(GdsPath {
            layer: e.layer,
            datatype: e.xtype,
            xy: gpts(&e.xy),
            width: e.width,
            path_type: e.path_type,
            begin_extn: e.bgnextn,
            end_extn: e.endextn,
            elflags,
            plex,
            properties,
        }),
        Kind::Sref => GdsElement::GdsStructRef(GdsStructRef {
            name: gstr(&e.sname),
            xy: GdsPoint::new(e.xy[0], e.xy[1]),
            strans: e.strans.as_ref().map(gstrans),
            elflags,
            plex,
            properties,
        }),
        Kind::Aref => {
            let p = gpts(&e.xy);
            GdsElement::GdsArrayRef(GdsArrayRef {
                name: gstr(&e.sname),
                xy: [p[0].clone(), p[1].clone(), p[2].clone()],
                cols: e.colrow.0,
                rows: e.colrow.1,
                strans: e.strans.as_ref().map(gstrans),
                elflags,
                plex,
                properties,
            })
        }
        Kind::Text => GdsElement::GdsTextElem(GdsTextElem {
            string: gstr(&e.string),
            layer: e.layer,
            texttype: e.xtype,
            xy: GdsPoint::new(e.xy[0], e.xy[1]),
            presentation: e.presentation.map(|p| GdsPresentation(p[0], p[1])),
            path_type: e.path_type,
            width: e.width,
            strans: e.strans.as_ref().map(gstrans),
            elflags,
            plex,
            properties,
        }),
        Kind::Node => GdsElement::GdsNode(GdsNode { layer: e.layer, nodetype: e.xtype, xy: gpts(&e.xy), elflags, plex, properties }),
        Kind::Box => {
            let p = gpts(&e.xy);
            GdsElement::GdsBox(GdsBox {
                layer: e.layer,
                boxtype: e.xtype,
                xy: [p[0].clone(), p[1].clone(), p[2].clone(), p[3].clone(), p[4].clone()],
                elflags,
                plex,
                properties,
            })
        }
    }
}

/// The gds21 value a (supported-features-only) reference value stands for.
pub fn to_gds(l: &RLib) -> GdsLibrary {
    GdsLibrary {
        name: gstr(&l.name),
        version: l.version,
        dates: gdates(&l.dates),
        units: GdsUnits(real_f64(l.units[0]), real_f64(l.units[1])),
        structs: l
            .structs
            .iter()
            .map(|s| GdsStruct { name: gstr(&s.name), dates: gdates(&s.dates), elems: s.elems.iter().map(elem_to_gds).collect() })
            .collect(),
        libdirsize: Unsupported,
        srfname: Unsupported,
        libsecur: Unsupported,
        reflibs: Unsupported,
        fonts: Unsupported,
        attrtable: Unsupported,
        generations: Unsupported,
        format_type: Unsupported,
    }
}

// -------------------------------------------------------------------------------------------------
// Hashing, tags, rendering
// -------------------------------------------------------------------------------------------------

struct Fnv(u64);
impl std::hash::Hasher for Fnv {
    fn finish(&self) -> u64 {
        let mut h = self.0;
        h ^= h >> 33;
        h = h.wrapping_mul(0xff51afd7ed558ccd);
        h ^= h >> 33;
        h = h.wrapping_mul(0xc4ceb9fe1a85ec53);
        h ^= h >> 33;
        h
    }
    fn write(&mut self, bytes: &[u8]) {
        for b in bytes {
            self.0 ^= *b as u64;
            self.0 = self.0.wrapping_mul(0x100000001b3);
        }
    }
}
/// deterministic 64-bit hash of the canonical value
pub fn hash_of<T: std::hash::Hash>(v: &T) -> u64 {
    use std::hash::Hasher;
    let mut h = Fnv(0xcbf29ce484222325);
    v.hash(&mut h);
    h.finish()
}

fn str_tags(s: &[u8], out: &mut Vec<&'static str>) {
    out.push(if s.is_empty() {
        "str:empty"
    } else if s.len() % 2 == 1 {
        "str:odd"
    } else {
        "str:even"
    });
    if !s.is_ascii() {
        out.push("str:non-ascii");
    }
    if s.contains(&0) {
        out.push("str:nul");
    }
    if s.len() >= 511 {
        out.push(if s.len() > 60000 { "str:record-limit" } else { "str:long" });
    }
}

/// alphabet symbols a value uses (for the vacuity guards)
pub fn tags_of(l: &RLib) -> Vec<&'static str> {
    let mut t: Vec<&'static str> = Vec::with_capacity(24);
    t.push(match l.structs.len() {
        0 => "structs:0",
        1 => "structs:1",
        _ => "structs:2+",
    });
    for (_, s) in l.strings() {
        str_tags(s, &mut t);
    }
    for s in &l.structs {
        t.push(match s.elems.len() {
            0 => "elems:0",
            1 => "elems:1",
            _ => "elems:2+",
        });
    }
    for e in l.elems() {
        t.push(match e.kind {
            Kind::Boundary => "kind:boundary",
            Kind::Path => "kind:path",
            Kind::Sref => "kind:sref",
            Kind::Aref => "kind:aref",
            Kind::Text => "kind:text",
            Kind::Node => "kind:node",
            Kind::Box => "kind:box",
        });
        if e.elflags.is_some() {
            t.push("opt:elflags");
        }
        if e.plex.is_some() {
            t.push("opt:plex");
        }
        if e.path_type.is_some() {
            t.push("opt:pathtype");
        }
        if e.width.is_some() {
            t.push("opt:width");
        }
        if e.bgnextn.is_some() {
            t.push("opt:bgnextn");
        }
        if e.endextn.is_some() {
            t.push("opt:endextn");
        }
        if e.presentation.is_some() {
            t.push("opt:presentation");
        }
        if !e.props.is_empty() {
            t.push(if e.props.len() == 1 { "props:1" } else { "props:2" });
        }
        if let Some(s) = &e.strans {
            t.push("opt:strans");
            if s.flags & STRANS_REFLECT != 0 {
                t.push("strans:reflect");
            }
            if s.flags & STRANS_ABS_MAG != 0 {
                t.push("strans:absmag");
            }
            if s.flags & STRANS_ABS_ANGLE != 0 {
                t.push("strans:absangle");
            }
            if s.mag.is_some() {
                t.push("strans:mag");
            }
            if s.angle.is_some() {
                t.push("strans:angle");
            }
        }
        if matches!(e.kind, Kind::Boundary | Kind::Path | Kind::Node) {
            t.push(match e.xy.len() / 2 {
                0 => "xy:0",
                1..=2 => "xy:1-2",
                3..=50 => "xy:3-50",
                51..=8191 => "xy:large-fits",
                _ => "xy:over-limit",
            });
        }
        if e.xy.iter().any(|v| *v < 0) {
            t.push("coord:negative");
        }
        if e.xy.iter().any(|v| *v == i32::MIN || *v == i32::MAX) {
            t.push("coord:extreme");
        }
    }
    for r in l.reals() {
        if r & 0x00ff_ffff_ffff_ffff == 0 {
            t.push("real:zero");
        } else if r >> 63 == 1 {
            t.push("real:negative");
        }
    }
    t.sort_unstable();
    t.dedup();
    t
}

pub const REQUIRED_TAGS: &[&str] = &[
    "structs:0", "structs:1", "structs:2+", "elems:0", "elems:1", "elems:2+", "kind:boundary", "kind:path", "kind:sref", "kind:aref",
    "kind:text", "kind:node", "kind:box", "opt:elflags", "opt:plex", "opt:pathtype", "opt:width", "opt:bgnextn", "opt:endextn",
    "opt:presentation", "props:1", "props:2", "opt:strans", "strans:reflect", "strans:absmag", "strans:absangle", "strans:mag",
    "strans:angle", "xy:0", "xy:1-2", "xy:3-50", "xy:large-fits", "xy:over-limit", "coord:negative", "coord:extreme", "real:zero",
    "real:negative", "str:empty", "str:odd", "str:even", "str:non-ascii", "str:nul", "str:long", "str:record-limit",
];

fn rs(b: &[u8]) -> Value {
    if b.len() > 48 {
        json!({"len": b.len(), "starts": String::from_utf8_lossy(&b[..32]), "ends": String::from_utf8_lossy(&b[b.len() - 8..])})
    } else {
        json!(String::from_utf8_lossy(b))
    }
}
fn rxy(v: &[i32]) -> Value {
    if v.len() > 20 {
        json!({"coordinates": v.len(), "first": &v[..8], "last": &v[v.len() - 4..]})
    } else {
        json!(v)
    }
}
fn rreal(r: u64) -> Value {
    json!(format!("{:#018x} (= {:e})", r, if r & 0x00f0_0000_0000_0000 != 0 || r & 0x00ff_ffff_ffff_ffff == 0 { real_f64(r) } else { f64::NAN }))
}

/// JSON rendering of a reference value (long strings and coordinate lists abbreviated)
pub fn render_lib(l: &RLib) -> Value {
    let structs: Vec<Value> = l
        .structs
        .iter()
        .map(|s| {
            let elems: Vec<Value> = s
                .elems
                .iter()
                .map(|e| {
                    let mut m = serde_json::Map::new();
                    m.insert("kind".into(), json!(e.kind.name()));
                    if let Some(f) = e.elflags {
                        m.insert("elflags".into(), json!(f));
                    }
                    if let Some(f) = e.plex {
                        m.insert("plex".into(), json!(f));
                    }
                    if e.kind.has_layer() {
                        m.insert("layer".into(), json!(e.layer));
                        m.insert("xtype".into(), json!(e.xtype));
                    }
                    if let Some(f) = e.presentation {
                        m.insert("presentation".into(), json!(f));
                    }
                    if let Some(f) = e.path_type {
                        m.insert("pathtype".into(), json!(f));
                    }
                    if let Some(f) = e.width {
                        m.insert("width".into(), json!(f));
                    }
                    if let Some(f) = e.bgnextn {
                        m.insert("bgnextn".into(), json!(f));
                    }
                    if let Some(f) = e.endextn {
                        m.insert("endextn".into(), json!(f));
                    }
                    if matches!(e.kind, Kind::Sref | Kind::Aref) {
                        m.insert("sname".into(), rs(&e.sname));
                    }
                    if let Some(s) = &e.strans {
                        m.insert("strans".into(), json!({"flags": format!("{:#06x}", s.flags), "mag": s.mag.map(rreal), "angle": s.angle.map(rreal)}));
                    }
                    if e.kind == Kind::Aref {
                        m.insert("cols".into(), json!(e.colrow.0));
                        m.insert("rows".into(), json!(e.colrow.1));
                    }
                    m.insert("xy".into(), rxy(&e.xy));
                    if e.kind == Kind::Text {
                        m.insert("string".into(), rs(&e.string));
                    }
                    if !e.props.is_empty() {
                        m.insert("props".into(), Value::Array(e.props.iter().map(|(a, v)| json!([a, rs(v)])).collect()));
                    }
                    Value::Object(m)
                })
                .collect();
            json!({"name": rs(&s.name), "dates": s.dates, "elems": elems})
        })
        .collect();
    let mut m = serde_json::Map::new();
    m.insert("version".into(), json!(l.version));
    m.insert("dates".into(), json!(l.dates));
    m.insert("name".into(), rs(&l.name));
    m.insert("units".into(), json!([rreal(l.units[0]), rreal(l.units[1])]));
    if l.uses_unsupported() {
        m.insert(
            "library_level_optional_records".into(),
            json!({"libdirsize": l.libdirsize, "srfname": l.srfname.as_deref().map(rs), "libsecur": l.libsecur, "reflibs_bytes": l.reflibs.as_ref().map(|v| v.len()),
                   "fonts_bytes": l.fonts.as_ref().map(|v| v.len()), "attrtable": l.attrtable.as_deref().map(rs), "generations": l.generations,
                   "format": l.format.as_ref().map(|f| json!({"kind": f.kind, "masks": f.masks.iter().map(|m| rs(m)).collect::<Vec<_>>()}))}),
        );
    }
    m.insert("structs".into(), Value::Array(structs));
    Value::Object(m)
}

pub fn hex(b: &[u8]) -> String {
    let mut s = String::with_capacity(b.len() * 2);
    for x in b {
        s.push_str(&format!("{x:02x}"));
    }
    s
}
/// bytes as hex; abbreviated beyond `max` bytes
pub fn render_bytes(b: &[u8], max: usize) -> Value {
    if b.len() <= max {
        json!({"len": b.len(), "hex": hex(b)})
    } else {
        json!({"len": b.len(), "hex_first": hex(&b[..max / 2]), "hex_last": hex(&b[b.len() - max / 2..])})
    }
}

/// Which strings of the value fall into the recorded defect classes
pub fn has_empty_string(l: &RLib) -> bool {
    l.strings().iter().any(|(_, s)| s.is_empty())
}
pub fn has_even_nul_string(l: &RLib) -> bool {
    l.strings().iter().any(|(_, s)| !string_representable(s))
}
/// the value with every even-length NUL-terminated string one byte shorter (what the recorded defect yields)
pub fn with_even_nul_strings_cut(l: &RLib) -> RLib {
    let mut m = l.clone();
    let cut = |s: &mut Vec<u8>| {
        if !string_representable(s) {
            s.pop();
        }
    };
    cut(&mut m.name);
    for s in &mut m.structs {
        cut(&mut s.name);
        for e in &mut s.elems {
            cut(&mut e.sname);
            cut(&mut e.string);
            for p in &mut e.props {
                cut(&mut p.1);
            }
        }
    }
    m
}
