//! Toy driver proving the loop: violation -> replay, panic capture, crash blame, hang blame.
//! Behaviour selected with env L21_TOY = ok | viol | panic | abort | hang | overflow
use crate::core::*;
use crate::explore::Chooser;
use serde_json::{json, Value};

pub struct Toy;
fn mode() -> String {
    std::env::var("L21_TOY").unwrap_or_else(|_| "ok".into())
}
#[allow(unconditional_recursion)]
fn recurse(n: u64) -> u64 {
    let a = [n; 64];
    std::hint::black_box(&a);
    recurse(n + 1) + a[3]
}
impl CaseDriver for Toy {
    type Case = (usize, usize, usize);
    fn id(&self) -> &'static str {
        "TOY"
    }
    fn describe(&self, _t: Tier) -> Describe {
        Describe { rule: "toy".into(), assumptions: vec![], excluded: vec![], technique: "toy".into() }
    }
    fn bound(&self, t: Tier) -> usize {
        t.pick(1, 2)
    }
    fn gen(&self, _t: Tier, c: &mut Chooser) -> Self::Case {
        (c.free(3, "a"), c.cost(4, "b"), c.cost(4, "c"))
    }
    fn check(&self, case: &Self::Case, key: &str, cx: &mut Cx) {
        cx.state(hash_debug(case), case.1 != 0);
        let bad = *case == (2, 3, 0);
        let m = mode();
        if bad {
            match m.as_str() {
                "viol" => cx.fail(key, "toy-mismatch", None, || "toy mismatch".into(), || json!({"case": format!("{:?}", case)})),
                "known" => cx.fail(key, "toy-mismatch", Some("toy_known"), || "toy mismatch".into(), || Value::Null),
                "panic" => {
                    let r = guard(|| {
                        let v: Vec<u8> = vec![];
                        v[case.1]
                    });
                    if let Err(p) = r {
                        cx.fail(key, "panic", None, || p.short(), || Value::Null);
                    }
                }
                "abort" => std::process::abort(),
                "overflow" => {
                    std::hint::black_box(recurse(0));
                }
                "hang" => loop {
                    std::thread::sleep(std::time::Duration::from_millis(100));
                },
                _ => {}
            }
        }
        cx.outcome("ok");
    }
    fn render(&self, case: &Self::Case) -> Value {
        json!(format!("{:?}", case))
    }
    fn unit_target(&self, _t: Tier) -> usize {
        8
    }
}
pub fn driver() -> Box<dyn Driver> {
    Box::new(ByCase(Toy))
}
