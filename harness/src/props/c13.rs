//! C13 — point-in-shape answers agree with exact geometry.
//!
//! Exhaustive: every rectangle on a 5x5 grid x 7x7 points; every simple polygon (all vertex sequences of
//! bounded length on a small grid, all orders / orientations / start vertices, collinear vertices, one
//! consecutive repeated vertex) x every point of the (g+2)^2 grid; Manhattan paths with 1..3 segments x
//! widths 0..4 x 9x9 points. Oracle: refmodel::geom (exact).

use crate::core::*;
use crate::refmodel::geom::{self, Loc, P};
use layout21raw::{Path, Point, Polygon, Rect, Shape, ShapeTrait};
use serde_json::{json, Value};

/// `off`: every shape and every query point is handed to the real code translated by this vector (the exact
/// oracle works on the untranslated coordinates; containment is translation invariant)
pub struct C13 {
    off: P,
}

fn pt0(p: P) -> Point {
    Point::new(p.0 as isize, p.1 as isize)
}
fn key_poly(kind: &str, poly: &[P], extra: i64, q: P) -> String {
    let v: Vec<String> = poly.iter().map(|p| format!("{},{}", p.0, p.1)).collect();
    format!("{kind}:{}:{}@{},{}", v.join(";"), extra, q.0, q.1)
}
fn parse_case(key: &str) -> Option<(String, Vec<P>, i64, P)> {
    let (kind, rest) = key.split_once(':')?;
    let (body, q) = rest.split_once('@')?;
    let (pts, extra) = body.rsplit_once(':')?;
    let mut poly = vec![];
    for t in pts.split(';') {
        let (x, y) = t.split_once(',')?;
        poly.push((x.parse().ok()?, y.parse().ok()?));
    }
    let (qx, qy) = q.split_once(',')?;
    Some((kind.to_string(), poly, extra.parse().ok()?, (qx.parse().ok()?, qy.parse().ok()?)))
}

struct Rng(u64);
impl Rng {
    fn next(&mut self) -> u64 {
        self.0 = self.0.wrapping_add(0x9E3779B97F4A7C15);
        let mut z = self.0;
        z = (z ^ (z >> 30)).wrapping_mul(0xBF58476D1CE4E5B9);
        z = (z ^ (z >> 27)).wrapping_mul(0x94D049BB133111EB);
        z ^ (z >> 31)
    }
    fn below(&mut self, n: u64) -> u64 {
        self.next() % n
    }
    fn range(&mut self, lo: i64, hi: i64) -> i64 {
        lo + self.below((hi - lo + 1) as u64) as i64
    }
}

/// scales of the large triangles
const BIG_N: [i64; 3] = [1 << 27, 100_000_000, 1 << 30];

impl C13 {
    fn pt(&self, p: P) -> Point {
        pt0((p.0 + self.off.0, p.1 + self.off.1))
    }
    /// one polygon query on the real code, both directly and through the `Shape` enum
    fn query_poly(&self, poly: &[P], q: P, kind: &str, cx: &mut Cx) {
        cx.stats.evaluations += 1;
        let want = geom::locate_winding(q, poly);
        let want_b = want != Loc::Outside;
        let rp = Polygon { points: poly.iter().map(|p| self.pt(*p)).collect() };
        let qq = self.pt(q);
        // the same object (and the same vertex buffer) is asked twice, first directly and then moved into the enum
        let got = guard(move || {
            let a = rp.contains(&qq);
            let b = Shape::Polygon(rp).contains(&qq);
            (a, b)
        });
        match got {
            Err(p) => cx.fail(&key_poly(kind, poly, 0, q), "polygon-panic", None, || p.short(), || json!({"polygon": format!("{poly:?}"), "point": format!("{q:?}")})),
            Ok((a, b)) => {
                if a != b {
                    cx.fail(&key_poly(kind, poly, 0, q), "polygon-dispatch", None, || format!("Polygon::contains={a} but Shape::contains={b} for {poly:?} at {q:?}"), || Value::Null);
                } else if a != want_b {
                    let sig = match (want, a) {
                        (Loc::Outside, true) => "polygon-outside-reported-inside",
                        (Loc::Inside, false) => "polygon-inside-reported-outside",
                        (Loc::Boundary, false) => "polygon-boundary-reported-outside",
                        _ => "polygon-mismatch",
                    };
                    cx.fail(
                        &key_poly(kind, poly, 0, q),
                        sig,
                        None,
                        || format!("contains({q:?}) = {a} for polygon {poly:?}; exact location is {want:?}"),
                        || json!({"polygon": format!("{poly:?}"), "point": format!("{q:?}"), "exact": format!("{want:?}"), "got": a}),
                    );
                }
            }
        }
    }

    fn run_polygon_all_points(&self, poly: &[P], g: i64, kind: &str, cx: &mut Cx, tallies: &mut [u64; 3]) {
        for x in -1..=g {
            for y in -1..=g {
                let q = (x, y);
                match geom::locate_winding(q, poly) {
                    Loc::Inside => tallies[0] += 1,
                    Loc::Boundary => tallies[1] += 1,
                    Loc::Outside => tallies[2] += 1,
                }
                self.query_poly(poly, q, kind, cx);
            }
        }
        self.object_sequence(poly, g, kind, cx);
    }

    /// One polygon object over its life: every grid point is asked of the same object, the object is then moved in
    /// place by `shift` and asked again (the answers move with it), and finally its vertex list is overwritten in
    /// place with the reversed list (the same point set) and asked a third time.  An answer may depend only on the
    /// vertices the object has at the time of the call.
    fn object_sequence(&self, poly: &[P], g: i64, kind: &str, cx: &mut Cx) {
        const D: P = (7, -5);
        let mut obj = Shape::Polygon(Polygon { points: poly.iter().map(|p| self.pt(*p)).collect() });
        for stage in 0..3 {
            let d = if stage == 0 { (0, 0) } else { D };
            match stage {
                1 => {
                    if let Err(p) = guard(|| obj.shift(&pt0(D))) {
                        cx.fail(&key_poly(kind, poly, 100, (0, 0)), "polygon-panic", None, || p.short(), || Value::Null);
                        return;
                    }
                }
                2 => {
                    if let Shape::Polygon(pg) = &mut obj {
                        pg.points.reverse();
                    }
                }
                _ => {}
            }
            for x in -1..=g {
                for y in -1..=g {
                    let q = (x, y);
                    cx.stats.evaluations += 1;
                    let want = geom::locate_winding(q, poly) != Loc::Outside;
                    let qq = self.pt((q.0 + d.0, q.1 + d.1));
                    match guard(|| obj.contains(&qq)) {
                        Err(p) => {
                            cx.fail(&key_poly(kind, poly, 100 + stage, q), "polygon-panic", None, || p.short(), || Value::Null);
                            return;
                        }
                        Ok(a) if a != want => {
                            let sig = ["polygon-same-object", "polygon-after-shift", "polygon-after-edit-in-place"][stage as usize];
                            cx.fail(
                                &key_poly(kind, poly, 100 + stage, q),
                                sig,
                                None,
                                || format!("one polygon object {poly:?}: stage {stage} (0 = as built, 1 = after shift by {D:?}, 2 = after reversing its vertex list in place): contains(point {q:?} moved likewise) = {a}, exact answer {want}"),
                                || json!({"polygon": format!("{poly:?}"), "point": format!("{q:?}"), "stage": stage}),
                            );
                            return;
                        }
                        _ => {}
                    }
                }
            }
        }
    }

    /// Large triangles: every ordered triple of distinct, non-collinear points of {0, 1, N-1, N, N+1}^2 (first vertex
    /// fixed by the unit) queried on a 12x12 grid of points around 0, N/2 and N and at the nine points around the
    /// points one third and one half along each edge (next to the long sloped edges, whose cross products need more
    /// than 53 bits).
    fn big_triangles(&self, ni: usize, a: usize, cx: &mut Cx) {
        let n = BIG_N[ni];
        let coords = [0, 1, n - 1, n, n + 1];
        let vert = |i: usize| -> P { (coords[i % 5], coords[i / 5]) };
        let qc = [-1, 0, 1, 2, n / 2 - 1, n / 2, n / 2 + 1, n - 2, n - 1, n, n + 1, n + 2];
        let mut count = 0u64;
        for b in 0..25 {
            for c in 0..25 {
                if a == b || a == c || b == c {
                    continue;
                }
                let poly = [vert(a), vert(b), vert(c)];
                if geom::cross(poly[0], poly[1], poly[2]) == 0 {
                    continue;
                }
                count += 1;
                cx.stats.executions += 1;
                cx.stats.transitions += 3;
                let mut qs: Vec<P> = Vec::with_capacity(200);
                for x in qc {
                    for y in qc {
                        qs.push((x, y));
                    }
                }
                for e in 0..3 {
                    let (p0, p1) = (poly[e], poly[(e + 1) % 3]);
                    for (num, den) in [(1i64, 3i64), (1, 2)] {
                        let base = (p0.0 + (p1.0 - p0.0) * num / den, p0.1 + (p1.1 - p0.1) * num / den);
                        for dx in -1..=1 {
                            for dy in -1..=1 {
                                qs.push((base.0 + dx, base.1 + dy));
                            }
                        }
                    }
                }
                for q in qs {
                    self.query_poly(&poly, q, "b", cx);
                }
            }
        }
        cx.bulk_states(count, count);
        cx.tag_n("large-triangles", count);
    }

    /// does some outside/inside (non-boundary) grid point have a rightward ray through a vertex?
    fn has_vertex_grazing(poly: &[P], g: i64) -> bool {
        for v in poly {
            for x in -1..v.0 {
                let q = (x, v.1);
                if x <= g && geom::locate_winding(q, poly) != Loc::Boundary {
                    return true;
                }
            }
        }
        false
    }

    fn enum_polys(&self, g: i64, len: usize, i0: usize, i1: usize, cx: &mut Cx) {
        let npts = (g * g) as usize;
        let at = |i: usize| -> P { ((i as i64) % g, (i as i64) / g) };
        let mut idx: Vec<usize> = vec![i0, i1];
        let mut poly: Vec<P> = vec![at(i0), at(i1)];
        let mut states = 0u64;
        let mut nontrivial = 0u64;
        let mut tallies = [0u64; 3];
        // iterative DFS over remaining vertices
        fn rec(
            me: &C13,
            g: i64,
            len: usize,
            npts: usize,
            idx: &mut Vec<usize>,
            poly: &mut Vec<P>,
            cx: &mut Cx,
            states: &mut u64,
            nontrivial: &mut u64,
            tallies: &mut [u64; 3],
        ) {
            if poly.len() == len {
                if !geom::is_simple(poly) {
                    return;
                }
                *states += 1;
                cx.stats.executions += 1;
                cx.stats.transitions += len as u64;
                if C13::has_vertex_grazing(poly, g) {
                    *nontrivial += 1;
                }
                me.run_polygon_all_points(poly, g, "p", cx, tallies);
                // one consecutive repeated vertex, at every position
                for k in 0..len {
                    let mut rep = poly.clone();
                    rep.insert(k, poly[k]);
                    *states += 1;
                    cx.stats.executions += 1;
                    // the region is unchanged; the oracle runs on the de-duplicated cycle
                    for x in -1..=g {
                        for y in -1..=g {
                            me.query_rep(&rep, poly, (x, y), cx);
                        }
                    }
                }
                return;
            }
            for i in 0..npts {
                if idx.contains(&i) {
                    continue;
                }
                idx.push(i);
                poly.push(((i as i64) % g, (i as i64) / g));
                rec(me, g, len, npts, idx, poly, cx, states, nontrivial, tallies);
                poly.pop();
                idx.pop();
            }
        }
        rec(self, g, len, npts, &mut idx, &mut poly, cx, &mut states, &mut nontrivial, &mut tallies);
        cx.bulk_states(states, nontrivial);
        cx.tag_n("query-inside", tallies[0]);
        cx.tag_n("query-boundary", tallies[1]);
        cx.tag_n("query-outside", tallies[2]);
        cx.tag_n("polygons", states);
    }

    fn query_rep(&self, rep: &[P], base: &[P], q: P, cx: &mut Cx) {
        cx.stats.evaluations += 1;
        let want = geom::locate_winding(q, base) != Loc::Outside;
        let rp = Polygon { points: rep.iter().map(|p| self.pt(*p)).collect() };
        let qq = self.pt(q);
        match guard(|| rp.contains(&qq)) {
            Err(p) => cx.fail(&key_poly("p", rep, 0, q), "polygon-repeated-vertex-panic", None, || p.short(), || Value::Null),
            Ok(a) => {
                if a != want {
                    cx.fail(
                        &key_poly("p", rep, 0, q),
                        "polygon-repeated-vertex",
                        None,
                        || format!("contains({q:?}) = {a} for polygon with a repeated vertex {rep:?}; exact answer {want}"),
                        || json!({"polygon": format!("{rep:?}"), "point": format!("{q:?}")}),
                    );
                }
            }
        }
    }

    fn query_rect(&self, a: P, b: P, q: P, cx: &mut Cx) {
        cx.stats.evaluations += 1;
        let want = geom::in_closed_rect(q, a, b);
        let r = Rect { p0: self.pt(a), p1: self.pt(b) };
        let qq = self.pt(q);
        match guard(|| (r.contains(&qq), Shape::Rect(r.clone()).contains(&qq))) {
            Err(p) => cx.fail(&key_poly("r", &[a, b], 0, q), "rect-panic", None, || p.short(), || Value::Null),
            Ok((x, y)) => {
                if x != want || y != want {
                    cx.fail(
                        &key_poly("r", &[a, b], 0, q),
                        "rect-mismatch",
                        None,
                        || format!("Rect({a:?},{b:?}).contains({q:?}) = {x}/{y}, exact {want}"),
                        || Value::Null,
                    );
                }
            }
        }
    }

    fn query_path(&self, pts: &[P], w: i64, q: P, cx: &mut Cx) {
        cx.stats.evaluations += 1;
        // must-true set: inside a segment rectangle (segment x +-floor(w/2) across, no end extension)
        let h = w / 2;
        let mut must_true = false;
        let mut all_far = true;
        for k in 0..pts.len() - 1 {
            let (a, b) = (pts[k], pts[k + 1]);
            let (lo, hi) = if a.0 == b.0 { ((a.0 - h, a.1.min(b.1)), (a.0 + h, a.1.max(b.1))) } else { ((a.0.min(b.0), a.1 - h), (a.0.max(b.0), a.1 + h)) };
            // a repeated point (zero-length segment) has no direction: it fixes nothing to true, but points
            // farther than w/2 from it and from every other segment are still outside
            if a != b && geom::in_closed_rect(q, lo, hi) {
                must_true = true;
            }
            if !geom::farther_than_half(q, a, b, w) {
                all_far = false;
            }
        }
        let p = Path { points: pts.iter().map(|p| self.pt(*p)).collect(), width: w as usize };
        let qq = self.pt(q);
        match guard(|| (p.contains(&qq), Shape::Path(p.clone()).contains(&qq))) {
            Err(e) => cx.fail(&key_poly("w", pts, w, q), "path-panic", None, || e.short(), || Value::Null),
            Ok((x, y)) => {
                if x != y {
                    cx.fail(&key_poly("w", pts, w, q), "path-dispatch", None, || "Path::contains != Shape::contains".into(), || Value::Null);
                } else if must_true && !x {
                    cx.fail(&key_poly("w", pts, w, q), "path-inside-reported-outside", None, || format!("path {pts:?} width {w}: point {q:?} lies within half the width of a segment but contains() is false"), || Value::Null);
                } else if all_far && x {
                    cx.fail(&key_poly("w", pts, w, q), "path-far-reported-inside", None, || format!("path {pts:?} width {w}: point {q:?} is farther than w/2 from every segment but contains() is true"), || Value::Null);
                }
                if must_true {
                    cx.tag("path-must-true");
                } else if all_far {
                    cx.tag("path-must-false");
                } else {
                    cx.tag("path-dont-care");
                }
            }
        }
    }

    fn enum_paths(&self, first: usize, cx: &mut Cx) {
        let g = 5i64;
        let at = |i: usize| -> P { ((i as i64) % g, (i as i64) / g) };
        let mut states = 0u64;
        let mut stack: Vec<Vec<P>> = vec![vec![at(first)]];
        while let Some(p) = stack.pop() {
            if p.len() >= 2 {
                for w in 0..=4i64 {
                    states += 1;
                    cx.stats.executions += 1;
                    cx.stats.transitions += p.len() as u64;
                    for x in -2..=6 {
                        for y in -2..=6 {
                            self.query_path(&p, w, (x, y), cx);
                        }
                    }
                }
            }
            if p.len() < 4 {
                let last = *p.last().unwrap();
                for i in 0..(g * g) as usize {
                    let n = at(i);
                    // a point may be listed twice in a row, once per path (repeated end point or corner)
                    let repeat_ok = n == last && !p.windows(2).any(|w| w[0] == w[1]);
                    if (n != last && (n.0 == last.0 || n.1 == last.1)) || repeat_ok {
                        let mut q = p.clone();
                        q.push(n);
                        if repeat_ok {
                            cx.tag("path-repeated-point");
                        }
                        stack.push(q);
                    }
                }
            }
        }
        cx.bulk_states(states, states);
        cx.tag_n("paths", states);
    }

    fn supplement(&self, shard: u64, cx: &mut Cx) {
        // labelled sampling supplement (never the deciding step): star-shaped general polygons, x-monotone
        // rectilinear (histogram) polygons and 45-degree octagon-like shapes with large coordinates, probed on,
        // next to and far from the boundary.
        let mut rng = Rng(cx.seed ^ (shard.wrapping_mul(0xD1B54A32D192ED03)) ^ 0xC13);
        for it in 0..4000u64 {
            let kind = it % 3;
            let poly: Vec<P> = match kind {
                0 => {
                    // star-shaped around a centre: sort directions by exact angle
                    let n = 3 + rng.below(10) as usize;
                    let c = (rng.range(-1000, 1000), rng.range(-1000, 1000));
                    let mut dirs: Vec<P> = (0..n).map(|_| (rng.range(-500, 500), rng.range(-500, 500))).filter(|d| *d != (0, 0)).collect();
                    let half = |d: &P| if d.1 > 0 || (d.1 == 0 && d.0 > 0) { 0 } else { 1 };
                    dirs.sort_by(|a, b| half(a).cmp(&half(b)).then_with(|| (b.0 as i128 * a.1 as i128).cmp(&(a.0 as i128 * b.1 as i128))));
                    dirs.iter().map(|d| (c.0 + d.0, c.1 + d.1)).collect()
                }
                1 => {
                    // histogram polygon
                    let n = 1 + rng.below(8) as usize;
                    let mut v: Vec<P> = vec![];
                    let mut x = rng.range(-50, 50);
                    let base = rng.range(-50, 50);
                    v.push((x, base));
                    let mut tops = vec![];
                    for _ in 0..n {
                        let h = rng.range(1, 40);
                        let w = rng.range(1, 20);
                        tops.push((x, base + h));
                        x += w;
                        tops.push((x, base + h));
                    }
                    v.push((x, base));
                    for t in tops.into_iter().rev() {
                        v.push(t);
                    }
                    geom::dedup_cycle(&v)
                }
                _ => {
                    let s = rng.range(1, 30);
                    let l = s + rng.range(1, 60);
                    let o = (rng.range(-100, 100), rng.range(-100, 100));
                    [(s, 0), (l, 0), (l + s, s), (l + s, l), (l, l + s), (s, l + s), (0, l), (0, s)].iter().map(|p| (p.0 + o.0, p.1 + o.1)).collect()
                }
            };
            if !geom::is_simple(&poly) {
                continue;
            }
            // probes: vertices, edge points +-1, far points, random points in bbox
            let mut probes: Vec<P> = vec![];
            for (i, v) in poly.iter().enumerate() {
                let w = poly[(i + 1) % poly.len()];
                probes.push(*v);
                probes.push(((v.0 + w.0) / 2, (v.1 + w.1) / 2));
                for d in [(-1, 0), (1, 0), (0, -1), (0, 1)] {
                    probes.push((v.0 + d.0, v.1 + d.1));
                    probes.push(((v.0 + w.0) / 2 + d.0, (v.1 + w.1) / 2 + d.1));
                }
                probes.push((v.0 - 5000, v.1));
                probes.push((v.0 + 5000, v.1));
            }
            for q in probes {
                cx.stats.supplement_evaluations += 1;
                self.query_poly(&poly, q, "s", cx);
            }
        }
        cx.tag("supplement");
    }
}

impl Driver for C13 {
    fn id(&self) -> &'static str {
        "C13"
    }
    fn describe(&self, tier: Tier) -> Describe {
        let (g, l) = tier.pick((4, 5), (5, 5));
        Describe {
            rule: format!(
                "[every shape and query point is given to the real code translated by this part's offset: (0,0), (-3,-2) so that coordinates straddle zero, (-1000003,-70001)] rectangles: every ordered pair of corner points on a 5x5 grid x every point of the 7x7 grid; polygons: every sequence of 3..={l} distinct vertices on a {g}x{g} grid that is a simple polygon (all orientations, start vertices, collinear vertices){} and each of them again with one consecutive repeated vertex at every position, x every point of the (g+2)^2 grid, each polygon asked per call on a fresh object and then as one object over its life (all points as built, all points again after `shift` in place by (7,-5), all points again after its vertex list is reversed in place); Manhattan paths: every sequence of 2..=4 points on a 5x5 grid with axis-parallel non-empty segments, and each of up to 3 points again with one point listed twice in a row at any position (a zero-length segment, which fixes no point to true), x width 0..=4 x every point of the 9x9 grid; [at the origin only] large triangles: every ordered triple of distinct non-collinear points of {{0, 1, N-1, N, N+1}}^2 for N = 2^27, 10^8, 2^30, queried on a 12x12 grid around 0, N/2 and N and at the nine points around the points one third and one half along each edge. A state is one shape (enumeration is duplicate-free by construction); a polygon is non-trivial when some non-boundary grid point has its rightward ray passing through a polygon vertex. Oracle: exact integer geometry (boundary by zero cross product, winding number with half-open rule, cross-checked against an independent crossing-number implementation at start-up).",
                if tier.is_thorough() { ", plus every 6-vertex simple polygon on the 5x5 grid" } else { "" }
            ),
            assumptions: vec![
                "paths: only the two sets the statement fixes are judged (inside a segment rectangle => true; farther than w/2 from every segment => false); end caps and corner squares are don't-care".into(),
            ],
            excluded: vec!["non-Manhattan paths (the crate marks them unimplemented!)".into(), "self-intersecting polygons (outside the statement)".into()],
            technique: "exhaustive enumeration of all simple polygons / rectangles / Manhattan paths on a small grid, every grid point queried on the real code vs exact integer geometry".into(),
        }
    }
    fn units(&self, tier: Tier) -> Vec<String> {
        let mut v = vec![];
        let (g, l) = tier.pick((4usize, 5usize), (5, 5));
        for len in 3..=l {
            for i in 0..g * g {
                for j in 0..g * g {
                    if i != j {
                        v.push(format!("P:{g}:{len}:{i}:{j}"));
                    }
                }
            }
        }
        if tier.is_thorough() {
            for i in 0..25 {
                for j in 0..25 {
                    if i != j {
                        v.push(format!("P:5:6:{i}:{j}"));
                    }
                }
            }
            for s in 0..32 {
                v.push(format!("S:{s}"));
            }
        }
        for i in 0..25 {
            v.push(format!("R:{i}"));
            v.push(format!("W:{i}"));
        }
        if self.off == (0, 0) {
            for ni in 0..BIG_N.len() {
                for a in 0..25 {
                    v.push(format!("B:{ni}:{a}"));
                }
            }
        }
        v
    }
    fn run_unit(&self, unit: &str, cx: &mut Cx) {
        if let Err(e) = geom::self_check() {
            cx.machinery(format!("C13 oracle self-check failed: {e}"));
            return;
        }
        cx.enter(unit);
        let parts: Vec<&str> = unit.split(':').collect();
        match parts[0] {
            "P" => {
                let g: i64 = parts[1].parse().unwrap();
                let len: usize = parts[2].parse().unwrap();
                let i: usize = parts[3].parse().unwrap();
                let j: usize = parts[4].parse().unwrap();
                self.enum_polys(g, len, i, j, cx);
                if cx.wants_sample() && i == 1 && j == 2 {
                    cx.sample(|| json!({"polygon": [[2,0],[4,0],[4,4],[0,4],[1,2]], "queried_at": "every point of the (g+2)^2 grid", "example_query": [0,2], "exact": "Outside"}));
                }
            }
            "R" => {
                let i: i64 = parts[1].parse().unwrap();
                let a = (i % 5, i / 5);
                let mut n = 0;
                for j in 0..25i64 {
                    let b = (j % 5, j / 5);
                    n += 1;
                    cx.stats.executions += 1;
                    cx.stats.transitions += 2;
                    for x in -1..=5 {
                        for y in -1..=5 {
                            self.query_rect(a, b, (x, y), cx);
                        }
                    }
                }
                cx.bulk_states(n, n - 1);
                cx.tag_n("rects", n);
            }
            "W" => {
                let i: usize = parts[1].parse().unwrap();
                self.enum_paths(i, cx);
            }
            "S" => {
                let s: u64 = parts[1].parse().unwrap();
                self.supplement(s, cx);
            }
            "B" => {
                let (ni, a): (usize, usize) = (parts[1].parse().unwrap(), parts[2].parse().unwrap());
                self.big_triangles(ni, a, cx);
            }
            _ => panic!("MACHINERY: C13 bad unit {unit}"),
        }
    }
    fn run_case(&self, key: &str, cx: &mut Cx) {
        if let Err(e) = geom::self_check() {
            cx.machinery(format!("C13 oracle self-check failed: {e}"));
            return;
        }
        if let Some((kind, pts, extra, q)) = parse_case(key) {
            cx.stats.executions += 1;
            cx.stats.transitions += pts.len() as u64;
            match kind.as_str() {
                "p" | "s" | "b" => {
                    let base = geom::dedup_cycle(&pts);
                    if base.len() != pts.len() {
                        self.query_rep(&pts, &base, q, cx)
                    } else {
                        self.query_poly(&pts, q, &kind, cx)
                    }
                }
                "r" => self.query_rect(pts[0], pts[1], q, cx),
                "w" => self.query_path(&pts, extra, q, cx),
                _ => panic!("MACHINERY: C13 bad case key {key}"),
            }
            return;
        }
        self.run_unit(key, cx);
    }
    fn render_case(&self, _tier: Tier, key: &str) -> Value {
        match parse_case(key) {
            Some((kind, pts, extra, q)) => json!({"kind": kind, "points": pts, "width_if_path": extra, "query_point": q}),
            None => json!({"unit": key}),
        }
    }
    fn guards(&self, tier: Tier, stats: &Stats, _distinct: u64) -> Result<(), String> {
        require_tags(stats, &["query-inside", "query-boundary", "query-outside", "polygons", "rects", "paths", "path-must-true", "path-must-false", "path-dont-care", "path-repeated-point"])?;
        if tier.is_thorough() {
            require_tags(stats, &["supplement"])?;
        }
        Ok(())
    }
}

pub fn driver() -> Box<dyn Driver> {
    // the same shapes at the origin (coordinates >= 0), straddling it (mixed signs) and far in the third quadrant
    Box::new(Multi {
        id: "C13",
        parts: vec![("at-origin", Box::new(C13 { off: (0, 0) })), ("straddling-origin", Box::new(C13 { off: (-3, -2) })), ("third-quadrant", Box::new(C13 { off: (-1_000_003, -70_001) }))],
    })
}
