//! C09 — relative placement puts each instance exactly where its relation says.
//!
//! Three sub-spaces (`Multi`):
//!   pair   : reference instance x placed instance x side x alignment x separation, fully enumerated
//!   graph  : every functional relation graph on n <= 3 instances (each instance absolute or relative to any
//!            instance, itself included) x every listing permutation x a deviation-bounded edge alphabet
//!   graph4 : the same on exactly 4 instances (quick: default labels only; thorough: 2 deviations)
//!   array  : array instances (count, pitch, reflection, one or two nesting levels)
//!
//! Oracle: a constraint checker written from the property statement. It never computes a location the way
//! `Placer::resolve_instance_place` does; it only checks the bounding-box relations the statement names, on
//! boxes the harness derives itself from (location, cell size, reflection).

use crate::core::*;
use crate::explore::Chooser;
use serde_json::{json, Value};
use std::collections::BTreeMap;
use std::sync::OnceLock;

use layout21tetris as tetris;
use tetris::array::{Array, ArrayInstance, Arrayable};
use tetris::bbox::HasBoundBox;
use tetris::coords::{PrimPitches, UnitSpeced, Xy};
use tetris::instance::Instance;
use tetris::layout::Layout;
use tetris::library::Library;
use tetris::outline::Outline;
use tetris::placement::{Align, Place, Placeable, RelativePlace, SepBy, Separation, Side};
use tetris::placer::Placer;
use tetris::raw;
use tetris::stack::{PrimitiveLayer, Stack};
use tetris::utils::Ptr;
use tetris::validate::ValidStack;

// ---------------------------------------------------------------------------------------------
// Program description (plain harness data)
// ---------------------------------------------------------------------------------------------

#[derive(Clone, Copy, Debug, PartialEq, Eq)]
pub enum S {
    Left,
    Right,
    Bottom,
    Top,
}
impl S {
    fn name(self) -> &'static str {
        match self {
            S::Left => "left",
            S::Right => "right",
            S::Bottom => "bottom",
            S::Top => "top",
        }
    }
    fn horizontal(self) -> bool {
        matches!(self, S::Left | S::Right)
    }
}

#[derive(Clone, Debug, PartialEq)]
pub enum Sep {
    None,
    Pitches(i64),
    SizeOf(usize),
}
#[derive(Clone, Debug, PartialEq)]
pub enum Loc {
    Abs(i64, i64),
    Rel { to: usize, side: S, align: S, sep: Sep },
}
#[derive(Clone, Debug)]
pub struct InstDef {
    pub cell: usize,
    pub rh: bool,
    pub rv: bool,
    pub loc: Loc,
}
#[derive(Clone, Debug)]
pub struct ArrayDef {
    pub cell: usize,
    pub count: usize,
    pub pitch: (Option<i64>, Option<i64>),
    /// one nesting level: the arrayed unit is itself an array (count, pitch) of `cell`
    pub inner: Option<(usize, (Option<i64>, Option<i64>))>,
    /// a third nesting level: the unit of `inner` is itself an array (count, pitch) of `cell`
    pub inner2: Option<(usize, (Option<i64>, Option<i64>))>,
    pub rh: bool,
    pub rv: bool,
    pub at: (i64, i64),
}
#[derive(Clone, Debug)]
pub struct Program {
    /// cell sizes in primitive pitches
    pub cells: Vec<(i64, i64)>,
    pub insts: Vec<InstDef>,
    pub arrays: Vec<ArrayDef>,
    /// list the parent cell(s) before the cells they instantiate
    pub parent_first: bool,
    /// the same program in two parent cells of one library
    pub two_parents: bool,
    /// cells of at least 2x2 get a stepped (L-shaped) outline with the same bounding box
    pub stepped: bool,
    /// the parent cells are not listed in the library: only a `top` cell that instantiates them is
    pub top_only: bool,
    /// the relatively placed instances are handed over in `Layout::places` (as `Placeable::Instance`, in listing
    /// order) instead of `Layout::instances`
    pub via_places: bool,
    /// the leaf cells are wrapped raw layouts (`RawLayoutPtr`) with the same outlines instead of gridded layouts
    pub raw_cells: bool,
}

impl Program {
    /// does following the `to` pointers from any instance revisit an instance?
    pub fn has_cycle(&self) -> bool {
        let n = self.insts.len();
        for start in 0..n {
            let mut cur = start;
            for _ in 0..=n {
                match &self.insts[cur].loc {
                    Loc::Abs(..) => break,
                    Loc::Rel { to, .. } => {
                        cur = *to;
                        if cur == start {
                            return true;
                        }
                    }
                }
            }
        }
        false
    }
    fn depth_of(&self, i: usize) -> usize {
        let mut d = 0;
        let mut cur = i;
        while let Loc::Rel { to, .. } = &self.insts[cur].loc {
            d += 1;
            cur = *to;
            if d > self.insts.len() {
                break;
            }
        }
        d
    }
    fn render(&self) -> Value {
        let insts: Vec<Value> = self
            .insts
            .iter()
            .enumerate()
            .map(|(i, d)| {
                let loc = match &d.loc {
                    Loc::Abs(x, y) => json!({"abs": [x, y]}),
                    Loc::Rel { to, side, align, sep } => json!({"relative_to": format!("i{to}"), "side": side.name(), "align": align.name(),
                        "sep": match sep { Sep::None => json!(null), Sep::Pitches(k) => json!({"prim_pitches": k}), Sep::SizeOf(c) => json!({"size_of_cell": format!("c{c}")}) }}),
                };
                json!({"name": format!("i{i}"), "cell": format!("c{}", d.cell), "reflect_horiz": d.rh, "reflect_vert": d.rv, "loc": loc})
            })
            .collect();
        let arrays: Vec<Value> = self
            .arrays
            .iter()
            .enumerate()
            .map(|(i, a)| json!({"name": format!("a{i}"), "cell": format!("c{}", a.cell), "count": a.count, "pitch_xy": [a.pitch.0, a.pitch.1],
                "inner_array": a.inner.as_ref().map(|(c, p)| json!({"count": c, "pitch_xy": [p.0, p.1]})), "innermost_array": a.inner2.as_ref().map(|(c, p)| json!({"count": c, "pitch_xy": [p.0, p.1]})), "reflect_horiz": a.rh, "reflect_vert": a.rv, "loc": [a.at.0, a.at.1]}))
            .collect();
        let cells: Vec<Value> = self.cells.iter().enumerate().map(|(i, c)| json!({"name": format!("c{i}"), "outline_rect": [c.0, c.1]})).collect();
        json!({"cells": cells, "instances": insts, "arrays": arrays, "parent_listed_first": self.parent_first, "two_parent_cells_second_moved_by_31_-17_and_with_an_abstract_view": self.two_parents, "stepped_outlines_same_bounding_box": self.stepped, "parents_not_listed_only_a_top_cell_reaching_them_through_an_unlisted_mid_cell": self.top_only, "relative_instances_handed_over_in_Layout_places": self.via_places, "leaf_cells_wrap_raw_layouts": self.raw_cells})
    }
}

// ---------------------------------------------------------------------------------------------
// Running the real placer
// ---------------------------------------------------------------------------------------------

#[derive(Clone, Debug, PartialEq)]
pub struct Seen {
    pub name: String,
    pub cell: String,
    /// None = still relative after placement
    pub loc: Option<(i64, i64)>,
    pub rh: bool,
    pub rv: bool,
    /// what `Instance::boundbox()` says: (x0, y0, x1, y1)
    pub bbox: Result<(i64, i64, i64, i64), String>,
}
#[derive(Clone, Debug)]
pub struct ParentSeen {
    pub insts: Vec<Seen>,
    pub places_left: usize,
}

fn side_of(s: S) -> Side {
    match s {
        S::Left => Side::Left,
        S::Right => Side::Right,
        S::Bottom => Side::Bottom,
        S::Top => Side::Top,
    }
}

/// the second parent cell holds the same program moved by this offset (same instance names, other places)
pub const PARENT1_SHIFT: (i64, i64) = (31, -17);
fn shift_of(pi: usize) -> (i64, i64) {
    if pi == 1 {
        PARENT1_SHIFT
    } else {
        (0, 0)
    }
}

pub fn empty_stack() -> Result<ValidStack, String> {
    let mut rawlayers = raw::Layers::default();
    let bl = raw::Layer::from_pairs(0, &[(0, raw::LayerPurpose::Outline)]).map_err(|e| format!("{e:?}"))?;
    let boundary_layer = Some(rawlayers.add(bl));
    let stack = Stack {
        units: raw::Units::default(),
        boundary_layer,
        prim: PrimitiveLayer::new((100, 100).into()),
        metals: Vec::new(),
        vias: Vec::new(),
        rawlayers: Some(Ptr::new(rawlayers)),
    };
    stack.validate().map_err(|e| format!("{e:?}"))
}

fn sep_xy(p: (Option<i64>, Option<i64>)) -> Separation {
    // through the public constructor
    Separation::new(
        p.0.map(|k| SepBy::UnitSpeced(UnitSpeced::PrimPitches(PrimPitches::x(k as isize)))),
        p.1.map(|k| SepBy::UnitSpeced(UnitSpeced::PrimPitches(PrimPitches::y(k as isize)))),
        None,
    )
}

/// Build the library for `p` with instances listed in `listing` order, run `Placer::place`, read back.
/// Everything in here touches subject code; call it under `guard`.
pub fn run_program(p: &Program, listing: &[usize]) -> Result<Vec<ParentSeen>, String> {
    let mut lib = Library::new("c09");
    let mut cellptrs = Vec::new();
    let mut celldefs = Vec::new();
    for (i, (w, h)) in p.cells.iter().enumerate() {
        let o = if p.stepped && *w >= 2 && *h >= 2 {
            // an L: full width up to half the height, half the width above; the bounding box is still w x h
            Outline::new(&[*w as isize, (*w / 2) as isize], &[(*h / 2) as isize, *h as isize])
        } else {
            Outline::rect(*w as isize, *h as isize)
        }
        .map_err(|e| format!("setup: {e:?}"))?;
        celldefs.push((Layout::new(format!("c{i}"), 0, o.clone()), o));
    }
    let nparents = if p.two_parents { 2 } else { 1 };
    // cells first unless parent_first; Ptrs are needed before the parents are built, so create them now and
    // push them into the list in the chosen order
    for (i, (l, o)) in celldefs.into_iter().enumerate() {
        let c: tetris::cell::Cell = if p.raw_cells {
            let rawlay = raw::Layout { name: format!("c{i}"), insts: vec![], elems: vec![], annotations: vec![] };
            tetris::cell::RawLayoutPtr { outline: o, metals: 0, lib: Ptr::new(raw::Library::new("wrapped", raw::Units::Nano)), cell: Ptr::new(raw::Cell::from(rawlay)) }.into()
        } else {
            l.into()
        };
        cellptrs.push(Ptr::new(c));
    }
    let mut parents = Vec::new();
    let mut all_inst_ptrs: Vec<Ptr<Instance>> = Vec::new();
    for pi in 0..nparents {
        let mut parent = Layout::new(format!("parent{pi}"), 0, Outline::rect(200, 200).map_err(|e| format!("setup: {e:?}"))?);
        let ptrs: Vec<Ptr<Instance>> = p
            .insts
            .iter()
            .enumerate()
            .map(|(i, d)| {
                Ptr::new(Instance {
                    inst_name: format!("i{i}"),
                    cell: cellptrs[d.cell].clone(),
                    loc: Place::Abs(Xy::from((0isize, 0isize))),
                    reflect_horiz: d.rh,
                    reflect_vert: d.rv,
                })
            })
            .collect();
        // a cyclic program is held by the first parent only: in the second parent every instance is absolute, so the
        // library has a well-formed cell *after* the ill-formed one (the error must still be reported)
        let all_abs = pi == 1 && p.has_cycle();
        for (i, d) in p.insts.iter().enumerate() {
            let loc = match &d.loc {
                Loc::Abs(x, y) => Place::Abs(Xy::from(((*x + shift_of(pi).0) as isize, (*y + shift_of(pi).1) as isize))),
                Loc::Rel { .. } if all_abs => Place::Abs(Xy::from((7 * i as isize, 100 + 9 * i as isize))),
                Loc::Rel { to, side, align, sep } => {
                    let s = match sep {
                        Sep::None => Separation::default(),
                        Sep::Pitches(k) => {
                            if side.horizontal() {
                                sep_xy((Some(*k), None))
                            } else {
                                sep_xy((None, Some(*k)))
                            }
                        }
                        Sep::SizeOf(c) => {
                            if side.horizontal() {
                                Separation::x(SepBy::SizeOf(cellptrs[*c].clone()))
                            } else {
                                Separation::y(SepBy::SizeOf(cellptrs[*c].clone()))
                            }
                        }
                    };
                    Place::Rel(RelativePlace { to: Placeable::Instance(ptrs[*to].clone()), side: side_of(*side), align: Align::Side(side_of(*align)), sep: s })
                }
            };
            ptrs[i].write().map_err(|_| "setup: lock".to_string())?.loc = loc;
        }
        for &k in listing {
            if p.via_places && matches!(p.insts[k].loc, Loc::Rel { .. }) && !all_abs {
                parent.places.push(Placeable::Instance(ptrs[k].clone()));
            } else {
                parent.instances.push(ptrs[k].clone());
            }
        }
        for (i, a) in p.arrays.iter().enumerate() {
            let unit = match &a.inner {
                None => Arrayable::Instance(cellptrs[a.cell].clone()),
                Some((cnt, pitch)) => Arrayable::Array(Ptr::new(Array {
                    name: format!("a{i}_inner"),
                    unit: match &a.inner2 {
                        None => Arrayable::Instance(cellptrs[a.cell].clone()),
                        Some((c2, p2)) => Arrayable::Array(Ptr::new(Array { name: format!("a{i}_innermost"), unit: Arrayable::Instance(cellptrs[a.cell].clone()), count: *c2, sep: sep_xy(*p2) })),
                    },
                    count: *cnt,
                    sep: sep_xy(*pitch),
                })),
            };
            let arr = Array { name: format!("a{i}_def"), unit, count: a.count, sep: sep_xy(a.pitch) };
            let ai = ArrayInstance {
                name: format!("a{i}"),
                array: Ptr::new(arr),
                loc: Place::Abs(Xy::from(((a.at.0 + shift_of(pi).0) as isize, (a.at.1 + shift_of(pi).1) as isize))),
                reflect_vert: a.rv,
                reflect_horiz: a.rh,
            };
            parent.places.push(Placeable::Array(Ptr::new(ai)));
        }
        all_inst_ptrs.extend(ptrs);
        let mut c: tetris::cell::Cell = parent.into();
        if pi == 1 {
            // the second parent has an abstract view next to its layout: its placements must be resolved all the same
            c.abs = Some(tetris::abs::Abstract::new("parent1", 0, Outline::rect(200, 200).map_err(|e| format!("setup: {e:?}"))?));
        }
        parents.push(Ptr::new(c));
    }
    if p.top_only {
        // only the leaf cells and a top cell are listed; the parents are reached through the top cell's instances
        // (through one more unlisted level: top -> mid -> parents)
        let mut mid = Layout::new("mid", 0, Outline::rect(1000, 1000).map_err(|e| format!("setup: {e:?}"))?);
        for (pi, pp) in parents.iter().enumerate() {
            mid.instances.add(Instance { inst_name: format!("ip{pi}"), cell: pp.clone(), loc: Place::Abs(Xy::from((300 * pi as isize, 0isize))), reflect_horiz: false, reflect_vert: false });
        }
        let midc: tetris::cell::Cell = mid.into();
        let mut top = Layout::new("top", 0, Outline::rect(1000, 1000).map_err(|e| format!("setup: {e:?}"))?);
        top.instances.add(Instance { inst_name: "im".into(), cell: Ptr::new(midc), loc: Place::Abs(Xy::from((0isize, 0isize))), reflect_horiz: false, reflect_vert: false });
        for c in &cellptrs {
            lib.cells.push(c.clone());
        }
        let tc: tetris::cell::Cell = top.into();
        lib.cells.push(Ptr::new(tc));
    } else if p.parent_first {
        for pp in &parents {
            lib.cells.push(pp.clone());
        }
        for c in &cellptrs {
            lib.cells.push(c.clone());
        }
    } else {
        for c in &cellptrs {
            lib.cells.push(c.clone());
        }
        for pp in &parents {
            lib.cells.push(pp.clone());
        }
    }
    let stack = empty_stack().map_err(|e| format!("setup: {e}"))?;
    let parents_kept: Vec<Ptr<tetris::cell::Cell>> = parents.clone();

    let placed = Placer::place(lib, stack);

    let result = match placed {
        Err(e) => Err(truncate(&format!("{e:?}"), 300)),
        Ok((lib, _stack)) => {
            let mut out = Vec::new();
            for pi in 0..nparents {
                let want = format!("parent{pi}");
                let mut found = None;
                // the placed library's own cells, or (parents not listed) the cells the harness still points to:
                // placement happens in place, the pointers are shared
                let pool: Vec<Ptr<tetris::cell::Cell>> = if p.top_only { parents_kept.clone() } else { lib.cells.iter().cloned().collect() };
                for cp in pool.iter() {
                    let c = cp.read().map_err(|_| "readback: lock".to_string())?;
                    if c.name == want {
                        let lay = c.layout.as_ref().ok_or("readback: parent lost its layout")?;
                        let mut insts = Vec::new();
                        for ip in lay.instances.iter() {
                            let inst = ip.read().map_err(|_| "readback: lock".to_string())?;
                            let loc = match &inst.loc {
                                Place::Abs(xy) => Some((xy.x.num as i64, xy.y.num as i64)),
                                Place::Rel(_) => None,
                            };
                            let bbox = match inst.boundbox() {
                                Ok(b) => Ok((b.p0.x.num as i64, b.p0.y.num as i64, b.p1.x.num as i64, b.p1.y.num as i64)),
                                Err(e) => Err(truncate(&format!("{e:?}"), 120)),
                            };
                            let cell = inst.cell.read().map_err(|_| "readback: lock".to_string())?.name.clone();
                            insts.push(Seen { name: inst.inst_name.clone(), cell, loc, rh: inst.reflect_horiz, rv: inst.reflect_vert, bbox });
                        }
                        found = Some(ParentSeen { insts, places_left: lay.places.len() });
                    }
                }
                out.push(found.ok_or_else(|| format!("readback: cell {want} missing from the placed library"))?);
            }
            Ok(out)
        }
    };
    // break reference cycles (Ptr = Arc) so that cyclic programs do not leak
    for ip in &all_inst_ptrs {
        if let Ok(mut w) = ip.write() {
            if let Place::Rel(_) = w.loc {
                w.loc = Place::Abs(Xy::from((0isize, 0isize)));
            }
        }
    }
    match result {
        Ok(v) => Ok(v),
        Err(e) => Err(format!("place: {e}")),
    }
}

// ---------------------------------------------------------------------------------------------
// Reference: boxes and the constraint checker
// ---------------------------------------------------------------------------------------------

#[derive(Clone, Copy, Debug, PartialEq)]
pub struct BoxI {
    pub x0: i64,
    pub y0: i64,
    pub x1: i64,
    pub y1: i64,
}
impl BoxI {
    pub fn side(&self, s: S) -> i64 {
        match s {
            S::Left => self.x0,
            S::Right => self.x1,
            S::Bottom => self.y0,
            S::Top => self.y1,
        }
    }
}
/// The box an instance occupies: its origin stays put, a horizontally reflected instance extends to the left
/// of its origin, a vertically reflected one below it.
pub fn ref_box(loc: (i64, i64), size: (i64, i64), rh: bool, rv: bool) -> BoxI {
    let (x0, x1) = if rh { (loc.0 - size.0, loc.0) } else { (loc.0, loc.0 + size.0) };
    let (y0, y1) = if rv { (loc.1 - size.1, loc.1) } else { (loc.1, loc.1 + size.1) };
    BoxI { x0, y0, x1, y1 }
}
/// Does `placed` sit on side `side` of `reference` at distance `sep`, flush on edge `align`?
pub fn relation_holds(placed: &BoxI, reference: &BoxI, side: S, align: S, sep: i64) -> Result<(), String> {
    let (got, want, what) = match side {
        S::Left => (placed.x1, reference.x0 - sep, "right edge of placed box vs left edge of reference minus separation"),
        S::Right => (placed.x0, reference.x1 + sep, "left edge of placed box vs right edge of reference plus separation"),
        S::Bottom => (placed.y1, reference.y0 - sep, "top edge of placed box vs bottom edge of reference minus separation"),
        S::Top => (placed.y0, reference.y1 + sep, "bottom edge of placed box vs top edge of reference plus separation"),
    };
    if got != want {
        return Err(format!("side {}: {what}: {got} != {want}", side.name()));
    }
    if placed.side(align) != reference.side(align) {
        return Err(format!("align {}: placed {} != reference {}", align.name(), placed.side(align), reference.side(align)));
    }
    Ok(())
}

fn self_check() -> &'static Result<(), String> {
    static R: OnceLock<Result<(), String>> = OnceLock::new();
    R.get_or_init(|| {
        // hand-computed examples (reference box 47..50 x 51..58)
        let rb = ref_box((47, 51), (3, 7), false, false);
        if rb != (BoxI { x0: 47, y0: 51, x1: 50, y1: 58 }) {
            return Err("ref_box unreflected".into());
        }
        if ref_box((47, 51), (3, 7), true, true) != (BoxI { x0: 44, y0: 44, x1: 47, y1: 51 }) {
            return Err("ref_box reflected".into());
        }
        let ok = |loc, rh, rv, side, align, sep| relation_holds(&ref_box(loc, (2, 1), rh, rv), &rb, side, align, sep).is_ok();
        if !ok((50, 51), false, false, S::Right, S::Bottom, 0) || ok((51, 51), false, false, S::Right, S::Bottom, 0) {
            return Err("relation right/bottom".into());
        }
        if !ok((52, 51), true, false, S::Right, S::Bottom, 0) || !ok((45, 57), false, false, S::Left, S::Top, 0) {
            return Err("relation reflected / left-top".into());
        }
        if !ok((48, 63), false, false, S::Top, S::Right, 5) || !ok((47, 48), false, true, S::Bottom, S::Left, 3) || ok((47, 47), false, true, S::Bottom, S::Left, 3) {
            return Err("relation with separation".into());
        }
        // uniqueness: for every combination exactly one origin in a window satisfies the relation
        for side in [S::Left, S::Right, S::Bottom, S::Top] {
            for align in [S::Left, S::Right, S::Bottom, S::Top] {
                if side.horizontal() == align.horizontal() {
                    continue;
                }
                for (rh, rv) in [(false, false), (true, false), (false, true), (true, true)] {
                    let mut n = 0;
                    for x in 30..70 {
                        for y in 35..75 {
                            if relation_holds(&ref_box((x, y), (2, 1), rh, rv), &rb, side, align, 1).is_ok() {
                                n += 1;
                            }
                        }
                    }
                    if n != 1 {
                        return Err(format!("relation {side:?}/{align:?} refl {rh}/{rv}: {n} solutions"));
                    }
                }
            }
        }
        // cycle detector
        let mk = |t: &[Option<usize>]| Program {
            cells: vec![(1, 1)],
            insts: t.iter().map(|x| InstDef { cell: 0, rh: false, rv: false, loc: match x { None => Loc::Abs(0, 0), Some(k) => Loc::Rel { to: *k, side: S::Right, align: S::Bottom, sep: Sep::None } } }).collect(),
            arrays: vec![],
            stepped: false,
            top_only: false,
            via_places: false,
            raw_cells: false,
            parent_first: false,
            two_parents: false,
        };
        if mk(&[None, Some(0), Some(1)]).has_cycle() || !mk(&[Some(0)]).has_cycle() || !mk(&[None, Some(2), Some(1)]).has_cycle() || mk(&[Some(1), None, Some(0)]).has_cycle() || !mk(&[Some(1), Some(2), Some(0)]).has_cycle() {
            return Err("has_cycle".into());
        }
        Ok(())
    })
}

/// Children the statement asks of an array instance: count copies at successive multiples of the pitch,
/// mirrored about the array origin according to the array's reflection.
pub fn expected_children(p: &Program, a: &ArrayDef) -> Vec<(String, (i64, i64), bool, bool)> {
    let mut v = vec![];
    let (icount, ipitch) = match &a.inner {
        None => (1usize, (None, None)),
        Some((c, pp)) => (*c, *pp),
    };
    let _ = p;
    let (kcount, kpitch) = match (&a.inner, &a.inner2) {
        (Some(_), Some((c, pp))) => (*c, *pp),
        _ => (1usize, (None, None)),
    };
    for i in 0..a.count as i64 {
        for j in 0..icount as i64 {
            for k in 0..kcount as i64 {
                let mut dx = i * a.pitch.0.unwrap_or(0) + j * ipitch.0.unwrap_or(0) + k * kpitch.0.unwrap_or(0);
                let mut dy = i * a.pitch.1.unwrap_or(0) + j * ipitch.1.unwrap_or(0) + k * kpitch.1.unwrap_or(0);
                if a.rh {
                    dx = -dx;
                }
                if a.rv {
                    dy = -dy;
                }
                v.push((format!("c{}", a.cell), (a.at.0 + dx, a.at.1 + dy), a.rh, a.rv));
            }
        }
    }
    v
}

// ---------------------------------------------------------------------------------------------
// Judging one program over a set of listings
// ---------------------------------------------------------------------------------------------

pub fn permutations(n: usize) -> Vec<Vec<usize>> {
    fn rec(cur: &mut Vec<usize>, used: &mut Vec<bool>, n: usize, out: &mut Vec<Vec<usize>>) {
        if cur.len() == n {
            out.push(cur.clone());
            return;
        }
        for i in 0..n {
            if !used[i] {
                used[i] = true;
                cur.push(i);
                rec(cur, used, n, out);
                cur.pop();
                used[i] = false;
            }
        }
    }
    let mut out = vec![];
    rec(&mut vec![], &mut vec![false; n], n, &mut out);
    out
}

fn sep_value(p: &Program, side: S, sep: &Sep) -> i64 {
    match sep {
        Sep::None => 0,
        Sep::Pitches(k) => *k,
        Sep::SizeOf(c) => {
            if side.horizontal() {
                p.cells[*c].0
            } else {
                p.cells[*c].1
            }
        }
    }
}

/// Check one observed parent against the program. Returns the locations by instance name.
/// `sh`: the offset by which this parent's absolute placements were moved; returned locations are net of it
fn judge_parent(p: &Program, seen: &ParentSeen, sh: (i64, i64)) -> Result<BTreeMap<String, (i64, i64)>, (String, String)> {
    let bad = |sig: &str, what: String| Err((sig.to_string(), what));
    if seen.places_left != 0 {
        return bad("places-left", format!("{} placeable(s) left unprocessed in the layout", seen.places_left));
    }
    let mut locs: BTreeMap<String, (i64, i64)> = BTreeMap::new();
    let mut by_name: BTreeMap<String, &Seen> = BTreeMap::new();
    let mut others: Vec<&Seen> = vec![];
    for s in &seen.insts {
        let Some(l) = s.loc else {
            return bad("still-relative", format!("instance {} is still relatively placed after Placer::place", s.name));
        };
        let is_prog = s.name.starts_with('i') && s.name[1..].parse::<usize>().map(|k| k < p.insts.len()).unwrap_or(false);
        if is_prog {
            if by_name.insert(s.name.clone(), s).is_some() {
                return bad("instance-duplicated", format!("instance {} appears twice after placement", s.name));
            }
            locs.insert(s.name.clone(), (l.0 - sh.0, l.1 - sh.1));
        } else {
            others.push(s);
        }
    }
    for (i, d) in p.insts.iter().enumerate() {
        let name = format!("i{i}");
        let Some(s) = by_name.get(&name) else {
            return bad("instance-lost", format!("instance {name} is missing after placement"));
        };
        if s.cell != format!("c{}", d.cell) || s.rh != d.rh || s.rv != d.rv {
            return bad("instance-changed", format!("instance {name}: cell/reflection changed by placement: {s:?}"));
        }
        let loc = s.loc.unwrap();
        let hb = ref_box(loc, p.cells[d.cell], d.rh, d.rv);
        match &s.bbox {
            Err(e) => return bad("boundbox-error", format!("Instance::boundbox() of placed {name} fails: {e}")),
            Ok(b) => {
                if (BoxI { x0: b.0, y0: b.1, x1: b.2, y1: b.3 }) != hb {
                    return bad("boundbox", format!("Instance::boundbox() of {name} at {loc:?} size {:?} reflect h={} v={} is {b:?}, the box it occupies is {hb:?}", p.cells[d.cell], d.rh, d.rv));
                }
            }
        }
        match &d.loc {
            Loc::Abs(x, y) => {
                if loc != (*x + sh.0, *y + sh.1) {
                    return bad("absolute-moved", format!("absolutely placed {name} moved from ({},{}) to {loc:?}", *x + sh.0, *y + sh.1));
                }
            }
            Loc::Rel { to, side, align, sep } => {
                let r = &p.insts[*to];
                let Some(rs) = by_name.get(&format!("i{to}")) else {
                    return bad("instance-lost", format!("reference i{to} missing"));
                };
                let rb = ref_box(rs.loc.unwrap(), p.cells[r.cell], r.rh, r.rv);
                if let Err(e) = relation_holds(&hb, &rb, *side, *align, sep_value(p, *side, sep)) {
                    return bad(
                        "relation",
                        format!("{name} (box {hb:?}, origin {loc:?}, reflect h={} v={}) relative to i{to} (box {rb:?}) on side {} align {} sep {:?}: {e}", d.rh, d.rv, side.name(), align.name(), sep),
                    );
                }
            }
        }
    }
    // array children: everything else, as a multiset
    let mut want: Vec<(String, (i64, i64), bool, bool)> = vec![];
    for a in &p.arrays {
        want.extend(expected_children(p, a));
    }
    let mut got: Vec<(String, (i64, i64), bool, bool)> = others.iter().map(|s| (s.cell.clone(), (s.loc.unwrap().0 - sh.0, s.loc.unwrap().1 - sh.1), s.rh, s.rv)).collect();
    want.sort();
    got.sort();
    if want != got {
        return bad("array-children", format!("array children (cell, origin, reflect_h, reflect_v): got {got:?}, the statement asks for {want:?}"));
    }
    for s in &others {
        // the real boundbox of every child must also be the box it occupies
        let size = p.cells[s.cell[1..].parse::<usize>().unwrap_or(0)];
        let hb = ref_box(s.loc.unwrap(), size, s.rh, s.rv);
        match &s.bbox {
            Ok(b) if (BoxI { x0: b.0, y0: b.1, x1: b.2, y1: b.3 }) == hb => {}
            other => return bad("boundbox", format!("boundbox of array child {} is {other:?}, occupies {hb:?}", s.name)),
        }
    }
    Ok(locs)
}

/// Run `p` under every listing in `listings`; judge each; compare locations across listings.
fn check_program(p: &Program, listings: &[Vec<usize>], key: &str, cx: &mut Cx) {
    if let Err(e) = self_check() {
        cx.machinery(format!("C09 oracle self-check failed: {e}"));
        return;
    }
    let cyclic = p.has_cycle();
    let mut first: Option<BTreeMap<String, (i64, i64)>> = None;
    let mut outcome = "";
    for (li, listing) in listings.iter().enumerate() {
        if li > 0 {
            cx.stats.executions += 1;
        }
        let detail = || json!({"program": p.render(), "listing_order": listing.iter().map(|k| format!("i{k}")).collect::<Vec<_>>()});
        let res = guard(|| run_program(p, listing));
        let res = match res {
            Err(pi) => {
                cx.fail(key, "panic", None, || format!("Placer::place panicked: {}", pi.short()), detail);
                cx.outcome("panic");
                return;
            }
            Ok(r) => r,
        };
        match res {
            Err(e) if e.starts_with("setup:") || e.starts_with("readback:") => {
                cx.fail(key, "setup-failed", None, || format!("could not build / read back the library through the public API: {e}"), detail);
                return;
            }
            Err(e) => {
                if !cyclic {
                    cx.fail(key, "acyclic-rejected", None, || format!("Placer::place rejects a well-formed acyclic program: {e}"), detail);
                    cx.outcome("err-unexpected");
                    return;
                }
                outcome = "err-cyclic";
            }
            Ok(parents) => {
                if cyclic {
                    cx.fail(key, "cycle-accepted", None, || "Placer::place returned Ok for a cyclic / self-referential relation graph".to_string(), detail);
                    cx.outcome("ok-unexpected");
                    return;
                }
                outcome = "ok";
                for (pi, seen) in parents.iter().enumerate() {
                    match judge_parent(p, seen, shift_of(pi)) {
                        Err((sig, what)) => {
                            cx.fail(key, &sig, None, || format!("parent{pi}: {what}"), detail);
                            cx.outcome("mismatch");
                            return;
                        }
                        Ok(locs) => match &first {
                            None => first = Some(locs),
                            Some(f) => {
                                if *f != locs {
                                    cx.fail(key, "listing-order-dependent", None, || format!("locations differ between listings / parents: {f:?} vs {locs:?}"), detail);
                                    cx.outcome("mismatch");
                                    return;
                                }
                            }
                        },
                    }
                }
            }
        }
    }
    cx.outcome(outcome);
}

// ---------------------------------------------------------------------------------------------
// Alphabets shared by the parts
// ---------------------------------------------------------------------------------------------

const REFL: [(bool, bool); 4] = [(false, false), (true, false), (false, true), (true, true)];
/// (side, align) pairs: 4 sides x 2 orthogonal alignment edges
const SIDE_ALIGN: [(S, S); 8] = [
    (S::Right, S::Bottom),
    (S::Right, S::Top),
    (S::Left, S::Bottom),
    (S::Left, S::Top),
    (S::Top, S::Left),
    (S::Top, S::Right),
    (S::Bottom, S::Left),
    (S::Bottom, S::Right),
];

fn tag_program(p: &Program, cx: &mut Cx) {
    for d in &p.insts {
        cx.tag(match (d.rh, d.rv) {
            (false, false) => "refl:none",
            (true, false) => "refl:h",
            (false, true) => "refl:v",
            (true, true) => "refl:hv",
        });
        if let Loc::Rel { side, align, sep, .. } = &d.loc {
            cx.tag(match side {
                S::Left => "side:left",
                S::Right => "side:right",
                S::Top => "side:top",
                S::Bottom => "side:bottom",
            });
            cx.tag(match align {
                S::Left => "align:left",
                S::Right => "align:right",
                S::Top => "align:top",
                S::Bottom => "align:bottom",
            });
            cx.tag(match sep {
                Sep::None => "sep:none",
                Sep::Pitches(_) => "sep:pitches",
                Sep::SizeOf(_) => "sep:sizeof",
            });
        }
    }
}

const COMMON_ASSUMPTIONS: &[&str] = &[
    "an instance's box is [x, x+w] x [y, y+h] from its origin, [x-w, x] when reflected horizontally, [y-h, y] when reflected vertically (the origin stays put, as the Instance documentation says)",
    "an acyclic program inside the alphabet must be placed (an Err there is reported), a cyclic one must be an Err",
    "array children are compared as a multiset of (cell, origin, both reflections); their names and order are not judged",
];
const COMMON_EXCLUDED: &[&str] = &[
    "arrays as placement reference and relatively placed arrays (Array::boundbox_size / Placer::resolve_array_place are todo!() in the crate)",
    "array pitch given as SizeOf, Align::Center / Align::Ports, separations in LayerPitches / DbUnits, groups, port-relative assignments (unimplemented!/todo! or a different feature)",
    "alignment edge parallel to the side (the statement says orthogonal alignments), separation given on the alignment axis",
];
fn describe_with(rule: String) -> Describe {
    Describe {
        rule,
        assumptions: COMMON_ASSUMPTIONS.iter().map(|s| s.to_string()).collect(),
        excluded: COMMON_EXCLUDED.iter().map(|s| s.to_string()).collect(),
        technique: "bounded-exhaustive enumeration of placement programs on the real Placer::place, judged by a bounding-box constraint checker written from the statement".into(),
    }
}

// ---------------------------------------------------------------------------------------------
// Part (a): pair-exhaustive
// ---------------------------------------------------------------------------------------------

pub struct Pair;
const PAIR_CELLS: [(i64, i64); 5] = [(11, 12), (3, 7), (2, 1), (5, 4), (6, 9)];
impl CaseDriver for Pair {
    type Case = Program;
    fn id(&self) -> &'static str {
        "C09"
    }
    fn describe(&self, _t: Tier) -> Describe {
        describe_with("reference instance (4 reflections x sizes 11x12 / 3x7 x origins (47,51) / (-20,-13)) x placed instance (4 reflections x sizes 2x1 / 5x4) x 4 sides x 2 orthogonal alignment edges x separation {none, 1 pitch, 5 pitches, size of a third cell 6x9} x parent listed before/after its cells x one/two parent cells, full product; each run with both listing orders of the two instances. State = one program; non-trivial = all (every program has a relative placement).".into())
    }
    fn bound(&self, _t: Tier) -> usize {
        0
    }
    fn gen(&self, _t: Tier, c: &mut Chooser) -> Program {
        let rr = REFL[c.free(4, "ref-refl")];
        let rs = c.free(2, "ref-size");
        let rl = [(47, 51), (-20, -13)][c.free(2, "ref-loc")];
        let pr = REFL[c.free(4, "placed-refl")];
        let ps = 2 + c.free(2, "placed-size");
        let (side, align) = SIDE_ALIGN[c.free(8, "side-align")];
        // (the last one: by the size of the reference's own cell)
        let sep = [Sep::None, Sep::Pitches(1), Sep::Pitches(5), Sep::SizeOf(4), Sep::Pitches(-2), Sep::SizeOf(rs)][c.free(6, "sep")].clone();
        let parent_first = c.flag("parent-first");
        let two_parents = c.flag("two-parents");
        let stepped = c.flag("stepped-outlines");
        let raw_cells = c.flag("leaf-cells-wrap-raw-layouts");
        Program {
            stepped,
            top_only: false,
            via_places: false,
            raw_cells,
            cells: PAIR_CELLS.to_vec(),
            insts: vec![
                InstDef { cell: rs, rh: rr.0, rv: rr.1, loc: Loc::Abs(rl.0, rl.1) },
                InstDef { cell: ps, rh: pr.0, rv: pr.1, loc: Loc::Rel { to: 0, side, align, sep } },
            ],
            arrays: vec![],
            parent_first,
            two_parents,
        }
    }
    fn check(&self, p: &Program, key: &str, cx: &mut Cx) {
        cx.state(hash_debug(p), true);
        tag_program(p, cx);
        check_program(p, &[vec![0, 1], vec![1, 0]], key, cx);
    }
    fn render(&self, p: &Program) -> Value {
        p.render()
    }
    fn guards(&self, _t: Tier, stats: &Stats, _d: u64) -> Result<(), String> {
        require_tags(
            stats,
            &["refl:none", "refl:h", "refl:v", "refl:hv", "side:left", "side:right", "side:top", "side:bottom", "align:left", "align:right", "align:top", "align:bottom", "sep:none", "sep:pitches", "sep:sizeof"],
        )
    }
    fn unit_target(&self, _t: Tier) -> usize {
        256
    }
}

// ---------------------------------------------------------------------------------------------
// Part (b): structure-exhaustive
// ---------------------------------------------------------------------------------------------

pub struct Graph {
    pub nmin: usize,
    pub nmax: usize,
    pub bound_quick: usize,
    pub bound_thorough: usize,
    pub tagp: &'static str,
}
const GRAPH_CELLS: [(i64, i64); 3] = [(3, 7), (11, 12), (6, 9)];
impl CaseDriver for Graph {
    type Case = Program;
    fn id(&self) -> &'static str {
        "C09"
    }
    fn describe(&self, t: Tier) -> Describe {
        describe_with(format!(
            "n = {}..={} instances; every functional relation graph (each instance absolute or relative to any of the n instances, itself included: (n+1)^n graphs, chains, stars, trees, self-loops, cycles) is enumerated; per instance the value choices (reflection 4, cell size 2, and for relative ones side/alignment 8 and separation {{none, 2 pitches, size of a third cell}}, for absolute ones origin 2) depart from the defaults in at most {} place(s) (deviation bound); every program is run under all n! listing orders and the locations compared. State = one program (graph + labels); non-trivial = at least one relative placement.",
            self.nmin,
            self.nmax,
            self.bound(t)
        ))
    }
    fn bound(&self, t: Tier) -> usize {
        t.pick(self.bound_quick, self.bound_thorough)
    }
    fn gen(&self, _t: Tier, c: &mut Chooser) -> Program {
        let n = self.nmin + if self.nmax > self.nmin { c.free(self.nmax - self.nmin + 1, "n") } else { 0 };
        let mut insts = vec![];
        for i in 0..n {
            let tgt = c.free(n + 1, "target");
            let r = REFL[c.cost(4, "refl")];
            let cell = c.cost(2, "size");
            let loc = if tgt == 0 {
                let alt = c.cost(2, "origin");
                let base = (10 * i as i64 + 4, 7 * i as i64 + 3);
                if alt == 0 {
                    Loc::Abs(base.0, base.1)
                } else {
                    Loc::Abs(-base.0 - 1, -base.1 - 2)
                }
            } else {
                let (side, align) = SIDE_ALIGN[c.cost(8, "side-align")];
                // (the last one: by the size of the cell of the reference instance, where that one is already defined)
                let ref_cell = insts.get(tgt - 1).map(|d: &InstDef| d.cell).unwrap_or(0);
                let sep = [Sep::None, Sep::Pitches(2), Sep::SizeOf(2), Sep::Pitches(-3), Sep::SizeOf(ref_cell)][c.cost(5, "sep")].clone();
                Loc::Rel { to: tgt - 1, side, align, sep }
            };
            insts.push(InstDef { cell, rh: r.0, rv: r.1, loc });
        }
        let stepped = c.cost(2, "stepped-outlines") == 1;
        let two_parents = c.cost(2, "two-parents") == 1;
        // the parents reachable only through a `top` cell (costed)
        let top_only = c.cost(2, "parents-unlisted-below-a-top-cell") == 1;
        let via_places = c.cost(2, "relative-instances-handed-over-as-placeables") == 1;
        let raw_cells = c.cost(2, "leaf-cells-wrap-raw-layouts") == 1;
        Program { cells: GRAPH_CELLS.to_vec(), insts, arrays: vec![], parent_first: false, two_parents, stepped, top_only, via_places, raw_cells }
    }
    fn check(&self, p: &Program, key: &str, cx: &mut Cx) {
        let nrel = p.insts.iter().filter(|d| matches!(d.loc, Loc::Rel { .. })).count();
        cx.state(hash_debug(p), nrel > 0);
        tag_program(p, cx);
        // structure tags
        let n = p.insts.len();
        cx.tag(&format!("{}n:{}", self.tagp, n));
        if p.insts.iter().enumerate().any(|(i, d)| matches!(&d.loc, Loc::Rel { to, .. } if *to == i)) {
            cx.tag("graph:self-loop");
        } else if p.has_cycle() {
            cx.tag("graph:cycle");
        } else {
            let maxd = (0..n).map(|i| p.depth_of(i)).max().unwrap_or(0);
            if maxd >= 2 {
                cx.tag("graph:chain");
            }
            let mut indeg = vec![0; n];
            for d in &p.insts {
                if let Loc::Rel { to, .. } = &d.loc {
                    indeg[*to] += 1;
                }
            }
            if indeg.iter().any(|k| *k >= 2) {
                cx.tag("graph:star");
            }
            // listed-before-its-reference happens in some permutation whenever nrel > 0
            if nrel == 0 {
                cx.tag("graph:all-absolute");
            }
        }
        check_program(p, &permutations(n), key, cx);
    }
    fn render(&self, p: &Program) -> Value {
        p.render()
    }
    fn guards(&self, _t: Tier, stats: &Stats, _d: u64) -> Result<(), String> {
        require_tags(stats, &["graph:self-loop", "graph:cycle", "graph:chain", "graph:star", "graph:all-absolute"])?;
        let ns: Vec<String> = (self.nmin..=self.nmax).map(|n| format!("{}n:{}", self.tagp, n)).collect();
        require_tags(stats, &ns.iter().map(|s| s.as_str()).collect::<Vec<_>>())?;
        require_outcomes(stats, &["ok", "err-cyclic"])
    }
    fn unit_target(&self, _t: Tier) -> usize {
        512
    }
}

// ---------------------------------------------------------------------------------------------
// Part (c): arrays
// ---------------------------------------------------------------------------------------------

pub struct Arr;
const PITCHES: [(Option<i64>, Option<i64>); 4] = [(Some(4), None), (None, Some(5)), (Some(4), Some(-3)), (Some(-6), Some(2))];
impl CaseDriver for Arr {
    type Case = Program;
    fn id(&self) -> &'static str {
        "C09"
    }
    fn describe(&self, t: Tier) -> Describe {
        describe_with(format!(
            "array instances at an absolute origin ((9,13) / (-5,-8) / (0,0) / (0,20) / (30,0)): count 1..={} x pitch {{(4,0),(0,5),(4,-3),(-6,2)}} x 4 reflections x unit {{cell, inner array of count 1..=3 x 4 pitches, optionally (costed) holding a third level of count 1..=2 x 4 pitches}} x with/without two ordinary instances (one absolute, one placed relative to it) in the same layout, full product, each also with stepped outlines or with a second, moved parent cell holding the same program (that cell also has an abstract view). State = one program; non-trivial = more than one child.",
            t.pick(3, 4)
        ))
    }
    fn bound(&self, _t: Tier) -> usize {
        // the costed options (stepped outlines, a second moved parent cell, a third nesting level) one at a time
        1
    }
    fn gen(&self, t: Tier, c: &mut Chooser) -> Program {
        // (count 0: an array of nothing)
        let count = [1usize, 2, 3, 0, 4][c.free(t.pick(4, 5), "count")];
        let pitch = PITCHES[c.free(4, "pitch")];
        // costed: no pitch at all / an explicit pitch of zero (the copies then lie on top of each other, all of them)
        let zero = c.cost(4, "pitch-zero");
        let pitch = match zero {
            1 => (None, None),
            2 => (Some(0), Some(0)),
            _ => pitch,
        };
        let r = REFL[c.free(4, "refl")];
        let nested = c.free(13, "unit");
        let inner = if nested == 0 { None } else { Some((1 + (nested - 1) / 4, PITCHES[(nested - 1) % 4])) };
        // an inner array of count 0 (costed): the whole array then has no children
        let inner = if inner.is_some() && c.cost(2, "inner-count-zero") == 1 { inner.map(|(_, pp)| (0usize, pp)) } else { inner };
        let inner = if zero == 3 { inner.map(|(n, _)| (n, (None, None))) } else { inner };
        let at = [(9, 13), (-5, -8), (0, 0), (0, 20), (30, 0)][c.free(5, "origin")];
        let with_insts = c.flag("with-instances");
        let cell = c.free(2, "cell");
        let insts = if with_insts {
            vec![
                InstDef { cell: 1, rh: false, rv: true, loc: Loc::Rel { to: 1, side: S::Top, align: S::Left, sep: Sep::Pitches(2) } },
                InstDef { cell: 0, rh: true, rv: false, loc: Loc::Abs(40, 41) },
            ]
        } else {
            vec![]
        };
        let stepped = c.cost(2, "stepped-outlines") == 1;
        let two_parents = c.cost(2, "two-parents") == 1;
        // a third nesting level (count 1..=2 x 4 pitches) below the inner array
        let inner2 = if inner.is_some() {
            match c.cost(9, "third-level") {
                0 => None,
                k => Some((1 + (k - 1) / 4, PITCHES[(k - 1) % 4])),
            }
        } else {
            None
        };
        Program { cells: GRAPH_CELLS.to_vec(), insts, arrays: vec![ArrayDef { cell, count, pitch, inner, inner2, rh: r.0, rv: r.1, at }], parent_first: false, two_parents, stepped, top_only: false, via_places: false, raw_cells: false }
    }
    fn check(&self, p: &Program, key: &str, cx: &mut Cx) {
        let a = &p.arrays[0];
        let kids = a.count * a.inner.as_ref().map(|i| i.0).unwrap_or(1) * a.inner2.as_ref().map(|i| i.0).unwrap_or(1);
        if a.inner2.is_some() {
            cx.tag("array:three-levels");
        }
        cx.state(hash_debug(p), kids > 1);
        cx.tag(match (a.rh, a.rv) {
            (false, false) => "array-refl:none",
            (true, false) => "array-refl:h",
            (false, true) => "array-refl:v",
            (true, true) => "array-refl:hv",
        });
        cx.tag(if a.inner.is_some() { "array:nested" } else { "array:flat" });
        cx.tag(&format!("array-count:{}", a.count));
        cx.tag(match a.pitch {
            (Some(_), None) => "array-pitch:x",
            (None, Some(_)) => "array-pitch:y",
            _ => "array-pitch:xy",
        });
        let listings: Vec<Vec<usize>> = if p.insts.is_empty() { vec![vec![]] } else { vec![vec![0, 1], vec![1, 0]] };
        check_program(p, &listings, key, cx);
    }
    fn render(&self, p: &Program) -> Value {
        p.render()
    }
    fn guards(&self, _t: Tier, stats: &Stats, _d: u64) -> Result<(), String> {
        require_tags(
            stats,
            &["array-refl:none", "array-refl:h", "array-refl:v", "array-refl:hv", "array:nested", "array:three-levels", "array:flat", "array-count:0", "array-count:1", "array-count:2", "array-count:3", "array-pitch:x", "array-pitch:y", "array-pitch:xy"],
        )
    }
    fn unit_target(&self, _t: Tier) -> usize {
        128
    }
}


// ---------------------------------------------------------------------------------------------
// Part (d): long relation graphs (dozens to hundreds of instances)
// ---------------------------------------------------------------------------------------------

pub struct Long;
const LONG_SHAPES: [&str; 4] = ["chain", "star-on-the-first", "binary-tree", "chain-closed-into-a-ring"];
const LONG_SIZES: [usize; 4] = [64, 65, 66, 130];
impl CaseDriver for Long {
    type Case = (usize, Program);
    fn id(&self) -> &'static str {
        "C09"
    }
    fn describe(&self, _t: Tier) -> Describe {
        describe_with(format!(
            "long relation graphs: shape {LONG_SHAPES:?} x {LONG_SIZES:?} instances (each placed right of / on top of its reference, alternating, separated by 1 pitch), every program run under the listings ascending, descending, rotated by a third and evens-then-odds, locations compared across listings and judged instance by instance; the ring must be reported as an error. State = one program; non-trivial = all.",
        ))
    }
    fn bound(&self, _t: Tier) -> usize {
        0
    }
    fn gen(&self, _t: Tier, c: &mut Chooser) -> (usize, Program) {
        let shape = c.free(LONG_SHAPES.len(), "shape");
        let n = LONG_SIZES[c.free(LONG_SIZES.len(), "size")];
        let mut insts = vec![InstDef { cell: 0, rh: false, rv: false, loc: Loc::Abs(10, 20) }];
        for i in 1..n {
            let to = match shape {
                0 | 3 => i - 1,
                1 => 0,
                _ => (i - 1) / 2,
            };
            let (side, align) = if i % 2 == 0 { (S::Right, S::Bottom) } else { (S::Top, S::Left) };
            insts.push(InstDef { cell: i % 2, rh: i % 3 == 0, rv: i % 5 == 0, loc: Loc::Rel { to, side, align, sep: Sep::Pitches(1) } });
        }
        if shape == 3 {
            insts[0].loc = Loc::Rel { to: n - 1, side: S::Right, align: S::Bottom, sep: Sep::None };
        }
        (shape, Program { cells: GRAPH_CELLS.to_vec(), insts, arrays: vec![], parent_first: false, two_parents: false, stepped: false, top_only: false, via_places: false, raw_cells: false })
    }
    fn check(&self, case: &(usize, Program), key: &str, cx: &mut Cx) {
        let p = &case.1;
        let n = p.insts.len();
        cx.state(hash_debug(p), true);
        cx.tag(&format!("long:{}", LONG_SHAPES[case.0]));
        let listings: Vec<Vec<usize>> = vec![(0..n).collect(), (0..n).rev().collect(), (0..n).map(|i| (i + n / 3) % n).collect(), (0..n).step_by(2).chain((1..n).step_by(2)).collect()];
        check_program(p, &listings, key, cx);
    }
    fn render(&self, case: &(usize, Program)) -> Value {
        json!({"shape": LONG_SHAPES[case.0], "instances": case.1.insts.len()})
    }
    fn guards(&self, _t: Tier, stats: &Stats, _d: u64) -> Result<(), String> {
        require_tags(stats, &["long:chain", "long:star-on-the-first", "long:binary-tree", "long:chain-closed-into-a-ring"])?;
        require_outcomes(stats, &["ok", "err-cyclic"])
    }
}

pub fn driver() -> Box<dyn Driver> {
    Box::new(Multi {
        id: "C09",
        parts: vec![
            ("pair", Box::new(ByCase(Pair))),
            ("graph", Box::new(ByCase(Graph { nmin: 1, nmax: 3, bound_quick: 3, bound_thorough: 4, tagp: "" }))),
            ("graph4", Box::new(ByCase(Graph { nmin: 4, nmax: 4, bound_quick: 1, bound_thorough: 3, tagp: "g4-" }))),
            ("array", Box::new(ByCase(Arr))),
            ("long", Box::new(ByCase(Long))),
        ],
    })
}
