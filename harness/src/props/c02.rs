//! C02 — bytes written for a library are a well-formed GDSII stream with that content.
//!
//! The bytes produced by the real writer are handed to the independent stream decoder
//! (`refmodel::gdsstream`, written from the stream-format specification). It must accept them as
//! grammatical, consume them exactly (ENDLIB is the last record, nothing follows) and rebuild a reference
//! value equal, field by field, to the library that was written: big-endian integers, normalised exact
//! excess-64 reals, STRANS bits 15/2/1, one NUL of padding on odd strings only.

use crate::core::*;
use crate::explore::Chooser;
use crate::props::c01::{families, family_tag, kind_ok_tag, ref_self_check, require_families, space_rule, write_lib, F_EVEN_NUL, OK_KIND_TAGS};
use crate::props::gdsgen::*;
use crate::refmodel::gdsstream as gs;
use serde_json::{json, Value};

/// reals compare by value for zero (one zero), by exact bytes otherwise (=> normalised and exact)
pub fn canon_lib(l: &gs::RLib) -> gs::RLib {
    let mut m = l.clone();
    m.units = [canon_real(m.units[0]), canon_real(m.units[1])];
    for s in &mut m.structs {
        for e in &mut s.elems {
            if let Some(st) = &mut e.strans {
                st.mag = st.mag.map(canon_real);
                st.angle = st.angle.map(canon_real);
            }
        }
    }
    m
}

pub struct C02;

impl CaseDriver for C02 {
    type Case = GenCase;
    fn id(&self) -> &'static str {
        "C02"
    }
    fn describe(&self, t: Tier) -> Describe {
        Describe {
            rule: format!("{} Each value is written by the real writer (write to a buffer, and save to a path that already holds a longer file: the file must end up holding the same bytes); the bytes are judged by the independent decoder.", space_rule(t)),
            assumptions: vec![
                "only libraries for which write succeeds are judged (the statement's quantifier)".into(),
                "record-level rules judged: header length even, >= 4 and equal to the bytes present; (record type, data type, payload size) as in the specification's table; element record order per the BNF; ENDLIB last with nothing after it. The number of points of a boundary/path/node XY (spec: >= 4 / >= 2 / >= 1) is not judged: the data model allows any list and the statement does not fix it".into(),
                "a real of value zero may be written with any sign/exponent byte as long as the mantissa is zero; every other real must be the unique normalised encoding whose exact value equals the double".into(),
            ],
            excluded: vec!["libraries outside the generator's families and bounds (see rule)".into()],
            technique: "deviation-bounded exhaustive enumeration of library values; real writer; independent specification-derived stream decoder as oracle".into(),
        }
    }
    fn bound(&self, t: Tier) -> usize {
        t.pick(1, 2)
    }
    fn gen(&self, t: Tier, c: &mut Chooser) -> GenCase {
        gen_lib(t, c, families(t))
    }
    fn check(&self, case: &GenCase, key: &str, cx: &mut Cx) {
        if !ref_self_check(cx) {
            return;
        }
        let rl = &case.lib;
        cx.state(hash_of(rl), rl.elems().next().is_some());
        for t in tags_of(rl) {
            cx.tag(t);
        }
        cx.tag(family_tag(case.family));
        // the reference itself must round-trip every representable value of the space
        if gs::unrepresentable(rl).is_none() {
            if let Err(e) = gs::roundtrip_check(rl) {
                cx.machinery(format!("reference codec self-check failed at case {key}: {e}"));
                return;
            }
        }
        let lib = to_gds(rl);
        let bytes = match write_lib(&lib) {
            Err(p) => {
                cx.outcome("write-panic");
                cx.fail(key, "write-panic", None, || format!("write {}", p.short()), || json!({"library": render_lib(rl)}));
                return;
            }
            Ok(Err(_)) => {
                let fits = gs::records_to_bytes(&gs::lib_records(rl)).is_ok();
                cx.outcome(if !fits { "write-err:record-too-long" } else { "write-err:other" });
                return;
            }
            Ok(Ok(b)) => b,
        };
        let detail = |bytes: &[u8]| json!({"library": render_lib(rl), "written": render_bytes(bytes, 600)});
        // the other way of producing the bytes: `save` to a path, here one that already holds a longer file
        // (the same stream followed by 64 more bytes); the file must end up holding exactly the stream
        {
            let f = cx.scratch_file("c02.gds");
            let mut stale = bytes.clone();
            stale.extend_from_slice(&[0xEE; 64]);
            if let Err(e) = std::fs::write(&f, &stale) {
                cx.machinery(format!("C02: cannot write scratch file {f}: {e}"));
                return;
            }
            let saved = guard(|| lib.save(&f).map_err(|e| truncate(&format!("{e:?}"), 200)));
            let on_disk = std::fs::read(&f).unwrap_or_default();
            let _ = std::fs::remove_file(&f);
            cx.stats.evaluations += 1;
            match saved {
                Err(p) => {
                    cx.fail(key, "save-panic", None, || format!("save {}", p.short()), || json!({"library": render_lib(rl)}));
                    return;
                }
                Ok(Err(e)) => {
                    cx.fail(key, "save-error", None, || format!("write succeeds but save over an existing file fails: {e}"), || json!({"library": render_lib(rl)}));
                    return;
                }
                Ok(Ok(())) => {
                    if on_disk != bytes {
                        cx.outcome("saved-file-differs");
                        cx.fail(
                            key,
                            "saved-file-differs",
                            None,
                            || format!("save over an existing longer file leaves {} bytes on disk, the stream written by write has {} (first difference at byte {})", on_disk.len(), bytes.len(), on_disk.iter().zip(bytes.iter()).position(|(a, b)| a != b).unwrap_or(on_disk.len().min(bytes.len()))),
                            || detail(&on_disk),
                        );
                        return;
                    }
                    cx.tag("saved-over-a-longer-file");
                }
            }
        }
        let dec = match gs::decode(&bytes) {
            Ok(d) => d,
            Err(e) => {
                cx.outcome("not-grammatical");
                cx.fail(key, "not-grammatical", None, || format!("written bytes are not a well-formed GDSII stream: {e}"), || detail(&bytes));
                return;
            }
        };
        if dec.consumed != bytes.len() {
            cx.outcome("bytes-after-endlib");
            cx.fail(key, "bytes-after-endlib", None, || format!("{} bytes follow the ENDLIB record", bytes.len() - dec.consumed), || detail(&bytes));
            return;
        }
        let (want, got) = (canon_lib(rl), canon_lib(&dec.lib));
        match gs::first_diff(&want, &got) {
            None => {
                cx.outcome("ok");
                for e in rl.elems() {
                    cx.tag(kind_ok_tag(e.kind));
                }
            }
            Some(d) => {
                let f = if has_even_nul_string(rl) && got == canon_lib(&with_even_nul_strings_cut(rl)) { Some(F_EVEN_NUL) } else { None };
                cx.outcome("content-differs");
                cx.fail(key, "content-differs", f, || format!("the stream decodes to different content (library vs decoded): {d}"), || detail(&bytes));
            }
        }
    }
    fn render(&self, case: &GenCase) -> Value {
        json!({"family": case.family, "library": render_lib(&case.lib)})
    }
    fn guards(&self, t: Tier, stats: &Stats, _d: u64) -> Result<(), String> {
        require_tags(stats, REQUIRED_TAGS)?;
        require_tags(stats, OK_KIND_TAGS)?;
        require_families(t, stats)?;
        require_outcomes(stats, &["ok", "write-err:record-too-long"])?;
        let ok = stats.outcomes.get("ok").copied().unwrap_or(0);
        if ok * 2 < stats.executions {
            return Err(format!("vacuity guard: only {ok} of {} written streams decoded to their library", stats.executions));
        }
        Ok(())
    }
    fn unit_target(&self, _t: Tier) -> usize {
        1024
    }
}

pub fn driver() -> Box<dyn Driver> {
    Box::new(ByCase(C02))
}
