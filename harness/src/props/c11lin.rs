//! C11, part L — linear-time evidence for the LEF reader (secondary, bounded): deterministic instruction counts
//! of a stand-alone reader (`l21mc lefread <file>`) under `valgrind --tool=cachegrind --cache-sim=no` on a menu
//! of text shape families at sizes N, 2N, 4N. I(4N)-I(2N) <= 3 x (I(2N)-I(N)) (linear => 2, quadratic => 4).
//! Every text also goes through the ordinary "returns, no panic" oracle in-process.

use crate::core::*;
use lef21::LefLibrary;
use serde_json::{json, Value};

pub const FAMILIES: [&str; 27] = [
    "many-macros", "many-pins", "long-point-list", "long-comment-line", "beginext-words-on-one-line", "beginext-words-on-many-lines", "error-after-a-long-line",
    // one family per repeated list of the grammar that the first seven do not stretch
    "many-macro-properties", "many-pin-properties", "many-ports", "many-obs-layers", "many-rects", "many-layer-vias", "many-propdefs", "many-sites", "many-vias", "many-density-rects",
    "many-antenna-attrs", "many-extensions",
    // the same lists with the shortest possible items (many more items per KiB: per-item scans over the list show)
    "many-minimal-macros", "many-minimal-pins", "many-minimal-ports", "many-minimal-obs-layers",
    // half the text one of those lists, the other half the words of an extension block after it (what one statement
    // kind leaves behind in the reader must not make another one slower)
    "minimal-macros-then-extension", "minimal-pins-then-extension", "minimal-ports-then-extension", "minimal-obs-layers-then-extension",
];

pub fn sizes(t: Tier) -> [usize; 3] {
    t.pick([16, 32, 64], [64, 128, 256])
}

/// A LEF text of the family of roughly `kib` KiB.
pub fn text(family: &str, kib: usize) -> String {
    let target = kib * 1024;
    let mut s = String::with_capacity(target + 4096);
    s.push_str("VERSION 5.8 ;\nBUSBITCHARS \"[]\" ;\nDIVIDERCHAR \"/\" ;\n");
    match family {
        "many-macros" => {
            let mut i = 0;
            while s.len() < target {
                s.push_str(&format!("MACRO m{i}\n  CLASS CORE ;\n  SIZE 1.5 BY 2.75 ;\n  PIN a\n    DIRECTION INPUT ;\n    PORT\n      LAYER met1 ;\n        RECT 0.1 0.2 0.3 0.4 ;\n    END\n  END a\nEND m{i}\n"));
                i += 1;
            }
        }
        "many-pins" => {
            s.push_str("MACRO big\n  SIZE 10 BY 20 ;\n");
            let mut i = 0;
            while s.len() < target {
                s.push_str(&format!("  PIN p{i}\n    USE SIGNAL ;\n    PORT\n      LAYER met2 ;\n        RECT 0.1 0.2 0.3 0.4 ;\n    END\n  END p{i}\n"));
                i += 1;
            }
            s.push_str("END big\n");
        }
        "long-point-list" => {
            s.push_str("MACRO poly\n  SIZE 10 BY 20 ;\n  OBS\n    LAYER met1 ;\n      POLYGON");
            let mut i = 0;
            while s.len() < target {
                s.push_str(&format!(" {}.{} -{}.5", i % 977, i % 10, i % 313));
                i += 1;
            }
            s.push_str(" ;\n  END\nEND poly\n");
        }
        "long-comment-line" => {
            s.push_str("# ");
            while s.len() < target {
                s.push_str("comment words on one very long line ");
            }
            s.push_str("\nMACRO after\n  SIZE 1 BY 2 ;\nEND after\n");
        }
        "beginext-words-on-one-line" | "beginext-words-on-many-lines" => {
            s.push_str("BEGINEXT \"tag\"\n");
            let mut i = 0;
            while s.len() < target {
                s.push_str(&format!("w{} ", i % 97));
                i += 1;
                if family.ends_with("many-lines") && i % 12 == 0 {
                    s.push('\n');
                }
            }
            s.push_str("\nENDEXT\nMACRO after\n  SIZE 1 BY 2 ;\nEND after\n");
        }
        "many-macro-properties" | "many-pin-properties" | "many-ports" | "many-antenna-attrs" => {
            s.push_str("MACRO big\n  SIZE 10 BY 20 ;\n");
            if family != "many-macro-properties" {
                s.push_str("  PIN a\n    DIRECTION INPUT ;\n");
            }
            let mut i = 0;
            while s.len() < target {
                match family {
                    "many-macro-properties" => s.push_str(&format!("  PROPERTY prop{i} {i} ;\n")),
                    "many-pin-properties" => s.push_str(&format!("    PROPERTY prop{i} \"v {i}\" ;\n")),
                    "many-antenna-attrs" => s.push_str(&format!("    ANTENNAGATEAREA {}.5 LAYER met{} ;\n", i % 97, i % 5)),
                    _ => s.push_str("    PORT\n      LAYER met1 ;\n        RECT 0.1 0.2 0.3 0.4 ;\n    END\n"),
                }
                i += 1;
            }
            if family != "many-macro-properties" {
                if family != "many-ports" {
                    s.push_str("    PORT\n      LAYER met1 ;\n        RECT 0.1 0.2 0.3 0.4 ;\n    END\n");
                }
                s.push_str("  END a\n");
            }
            s.push_str("END big\n");
        }
        "many-obs-layers" | "many-rects" | "many-layer-vias" => {
            s.push_str("MACRO big\n  SIZE 10 BY 20 ;\n  OBS\n    LAYER met1 ;\n");
            let mut i = 0;
            while s.len() < target {
                match family {
                    "many-obs-layers" => s.push_str(&format!("    LAYER met{} ;\n      RECT 0.1 0.2 0.3 0.4 ;\n", i % 7)),
                    "many-rects" => s.push_str(&format!("      RECT {}.1 0.2 {}.3 0.4 ;\n", i % 89, i % 89)),
                    _ => s.push_str(&format!("      VIA {}.5 0.25 via12 ;\n", i % 89)),
                }
                i += 1;
            }
            s.push_str("  END\nEND big\n");
        }
        "many-minimal-macros" => {
            let mut i = 0;
            while s.len() < target {
                s.push_str(&format!("MACRO m{i}\nEND m{i}\n"));
                i += 1;
            }
        }
        "many-minimal-pins" | "many-minimal-ports" | "many-minimal-obs-layers" => {
            s.push_str("MACRO big\n");
            match family {
                "many-minimal-ports" => s.push_str("PIN a\n"),
                "many-minimal-obs-layers" => s.push_str("OBS\n"),
                _ => {}
            }
            let mut i = 0;
            while s.len() < target {
                match family {
                    "many-minimal-pins" => s.push_str(&format!("PIN p{i}\nEND p{i}\n")),
                    "many-minimal-ports" => s.push_str("PORT\nEND\n"),
                    _ => s.push_str(&format!("LAYER m{} ;\n", i % 9)),
                }
                i += 1;
            }
            match family {
                "many-minimal-ports" => s.push_str("END a\n"),
                "many-minimal-obs-layers" => s.push_str("END\n"),
                _ => {}
            }
            s.push_str("END big\n");
        }
        "minimal-macros-then-extension" | "minimal-pins-then-extension" | "minimal-ports-then-extension" | "minimal-obs-layers-then-extension" => {
            let first = match family {
                "minimal-macros-then-extension" => "many-minimal-macros",
                "minimal-pins-then-extension" => "many-minimal-pins",
                "minimal-ports-then-extension" => "many-minimal-ports",
                _ => "many-minimal-obs-layers",
            };
            // (the list half is built by the family of that name at half the size; its header is not repeated)
            let half = text(first, (kib / 2).max(1));
            s.clear();
            s.push_str(half.strip_suffix("END LIBRARY\n").unwrap_or(&half));
            s.push_str("BEGINEXT \"tag\"\n");
            let mut i = 0;
            while s.len() < target {
                s.push_str(&format!("w{} ", i % 97));
                i += 1;
                if i % 12 == 0 {
                    s.push('\n');
                }
            }
            s.push_str("\nENDEXT\n");
        }
        "many-propdefs" => {
            s.push_str("PROPERTYDEFINITIONS\n");
            let mut i = 0;
            while s.len() < target {
                s.push_str(&format!("  MACRO def{i} STRING ;\n  PIN num{i} REAL RANGE 0 10 ;\n"));
                i += 1;
            }
            s.push_str("END PROPERTYDEFINITIONS\n");
        }
        "many-sites" => {
            let mut i = 0;
            while s.len() < target {
                s.push_str(&format!("SITE s{i}\n  CLASS CORE ;\n  SYMMETRY X Y ;\n  SIZE 0.46 BY 2.72 ;\nEND s{i}\n"));
                i += 1;
            }
        }
        "many-vias" => {
            let mut i = 0;
            while s.len() < target {
                s.push_str(&format!("VIA v{i} DEFAULT\n  LAYER met1 ;\n    RECT -0.1 -0.1 0.1 0.1 ;\n  LAYER via1 ;\n    RECT -0.05 -0.05 0.05 0.05 ;\nEND v{i}\n"));
                i += 1;
            }
        }
        "many-density-rects" => {
            s.push_str("MACRO big\n  SIZE 10 BY 20 ;\n  DENSITY\n    LAYER met1 ;\n");
            let mut i = 0;
            while s.len() < target {
                s.push_str(&format!("      RECT 0 0 {}.5 10 46.6 ;\n", i % 89));
                i += 1;
            }
            s.push_str("  END\nEND big\n");
        }
        "many-extensions" => {
            let mut i = 0;
            while s.len() < target {
                s.push_str(&format!("BEGINEXT \"tag{i}\"\n  CREATOR \"tool {i}\"\nENDEXT\n"));
                i += 1;
            }
        }
        "error-after-a-long-line" => {
            s.push_str("MACRO poly\n  SIZE 10 BY 20 ;\n  OBS\n    LAYER met1 ;\n      PATH");
            let mut i = 0;
            while s.len() < target {
                s.push_str(&format!(" {}.25 {}", i % 977, i % 313));
                i += 1;
            }
            // an odd number of coordinates followed by a keyword: the error report is built at the end of the long line
            s.push_str(" 7 MACRO ;\n");
        }
        _ => panic!("MACHINERY: unknown C11 linear-time family {family}"),
    }
    if family != "error-after-a-long-line" {
        s.push_str("END LIBRARY\n");
    }
    s
}

/// `l21mc lefread <file>`: the stand-alone reader run under cachegrind.
pub fn lefread_main(path: &str) -> i32 {
    match LefLibrary::open(path) {
        Ok(l) => {
            std::hint::black_box(&l);
            0
        }
        Err(e) => {
            std::hint::black_box(&e);
            0
        }
    }
}

fn cachegrind_instructions(file: &str) -> Result<u64, String> {
    let exe = std::env::current_exe().map_err(|e| e.to_string())?;
    let out = std::process::Command::new("valgrind")
        .args(["--tool=cachegrind", "--cache-sim=no", "--cachegrind-out-file=/dev/null"])
        .arg(exe)
        .args(["lefread", file])
        .stdin(std::process::Stdio::null())
        .stdout(std::process::Stdio::null())
        .stderr(std::process::Stdio::piped())
        .output()
        .map_err(|e| format!("cannot run valgrind: {e}"))?;
    let err = String::from_utf8_lossy(&out.stderr);
    for line in err.lines() {
        if let Some(i) = line.find("I   refs:") {
            let digits: String = line[i + 9..].chars().filter(|c| c.is_ascii_digit()).collect();
            return digits.parse::<u64>().map_err(|e| e.to_string());
        }
    }
    Err(format!("no instruction count in cachegrind output (exit {:?}): {}", out.status.code(), truncate(&err, 300)))
}

/// Deep inputs for the stack-depth part: valid texts whose *shape* (not size alone) would drive a recursive
/// lexer / parser deep: long runs of token-less lines, very many statements, one huge line.
pub const DEEP: [&str; 6] = ["blank-lines", "comment-lines", "many-macros", "many-pins", "one-huge-line", "beginext-many-words"];
pub fn deep_text(family: &str, n: usize) -> String {
    let mut s = String::from("VERSION 5.8 ;\n");
    match family {
        "blank-lines" => s.push_str(&"\n".repeat(n)),
        "comment-lines" => {
            for i in 0..n {
                s.push_str(&format!("# commented-out line {i}\n"));
            }
        }
        "many-macros" => return text("many-macros", n / 40),
        "many-pins" => return text("many-pins", n / 40),
        "one-huge-line" => return text("long-point-list", n / 40),
        "beginext-many-words" => return text("beginext-words-on-many-lines", n / 40),
        _ => panic!("MACHINERY: unknown deep family {family}"),
    }
    s.push_str("MACRO after\n  SIZE 1 BY 2 ;\nEND after\nEND LIBRARY\n");
    s
}

pub struct C11Lin;

impl C11Lin {
    fn family(&self, family: &str, cx: &mut Cx) {
        let key = format!("lin:{family}");
        // (the two-part families are measured at eight times the size: what a list leaves behind costs little per item)
        let sizes = if family.ends_with("-then-extension") { sizes(cx.tier).map(|k| 8 * k) } else { sizes(cx.tier) };
        let mut counts = [0u64; 3];
        for (i, kib) in sizes.iter().enumerate() {
            if !cx.enter(&key) {
                return;
            }
            let t = text(family, *kib);
            let file = cx.scratch_file(&format!("lin-{family}-{kib}.lef"));
            if let Err(e) = std::fs::write(&file, &t) {
                cx.machinery(format!("cannot write {file}: {e}"));
                return;
            }
            cx.stats.executions += 1;
            cx.stats.transitions += 1;
            cx.state(hash_bytes(t.as_bytes()), true);
            // ordinary oracle in-process: returns without panic; expected outcome class per family
            match guard(|| LefLibrary::open(&file).is_ok()) {
                Err(p) => {
                    cx.fail(&format!("{key}:{kib}"), "open-panic", None, || format!("family {family} at {kib} KiB: {}", p.short()), || Value::Null);
                    let _ = std::fs::remove_file(&file);
                    return;
                }
                Ok(ok) => {
                    cx.outcome(if ok { "lin-text-ok" } else { "lin-text-err" });
                    if ok == (family == "error-after-a-long-line") {
                        cx.machinery(format!("C11 linear-time family {family}: unexpected parse outcome ok={ok} (the family text is not what it is meant to be)"));
                        let _ = std::fs::remove_file(&file);
                        return;
                    }
                }
            }
            cx.enter(&key);
            match cachegrind_instructions(&file) {
                Ok(n) => counts[i] = n,
                Err(_) => {
                    cx.cap("cachegrind-unavailable");
                    cx.tag("linear-time:skipped");
                    let _ = std::fs::remove_file(&file);
                    return;
                }
            }
            let _ = std::fs::remove_file(&file);
            cx.tag_n(&format!("instructions:{family}:{kib}KiB"), counts[i]);
        }
        cx.tag("part:linear-time");
        cx.stats.evaluations += 1;
        let (d1, d2) = (counts[1].saturating_sub(counts[0]), counts[2].saturating_sub(counts[1]));
        // second criterion: four times the text may cost at most six times the instructions (linear => 4, quadratic => 16)
        if (d2 > 3 * d1 && d2 > counts[0] / 10) || counts[2] > 6 * counts[0] {
            cx.outcome("linear-time:superlinear");
            cx.fail(
                &key,
                "superlinear",
                None,
                || format!("family {family}: instructions {} / {} / {} for {} / {} / {} KiB; I(4N)-I(2N) = {d2} against 3 x (I(2N)-I(N)) = {}, I(4N) against 6 x I(N) = {}", counts[0], counts[1], counts[2], sizes[0], sizes[1], sizes[2], 3 * d1, 6 * counts[0]),
                || json!({"family": family, "instructions": counts}),
            );
        } else {
            cx.outcome("linear-time:ok");
        }
    }
}

impl C11Lin {
    /// stack-depth part: the stand-alone reader built in cargo's default dev profile (no inlining / tail-call
    /// elimination) reads each deep text under the 8 MiB stack limit; it must exit normally.
    fn deep(&self, family: &str, cx: &mut Cx) {
        let key = format!("deep:{family}");
        if !cx.enter(&key) {
            return;
        }
        let Ok(bin) = std::env::var("L21_DEBUG_BIN") else {
            cx.cap("debug-binary-unavailable");
            return;
        };
        if !std::path::Path::new(&bin).exists() {
            cx.cap("debug-binary-unavailable");
            return;
        }
        let n = cx.tier.pick(100_000, 400_000);
        let t = deep_text(family, n);
        let file = cx.scratch_file(&format!("deep-{family}.lef"));
        if let Err(e) = std::fs::write(&file, &t) {
            cx.machinery(format!("cannot write {file}: {e}"));
            return;
        }
        cx.stats.executions += 1;
        cx.stats.transitions += 1;
        cx.stats.evaluations += 1;
        cx.state(hash_bytes(t.as_bytes()), true);
        use std::os::unix::process::{CommandExt, ExitStatusExt};
        let mut cmd = std::process::Command::new(&bin);
        cmd.args(["lefread", &file]).stdin(std::process::Stdio::null()).stdout(std::process::Stdio::null()).stderr(std::process::Stdio::null());
        unsafe {
            cmd.pre_exec(crate::sandbox::set_limits);
        }
        let status = cmd.status();
        let _ = std::fs::remove_file(&file);
        match status {
            Err(e) => cx.machinery(format!("cannot run {bin}: {e}")),
            Ok(st) if st.success() => {
                cx.outcome("deep-read-returned");
                cx.tag("part:deep");
            }
            Ok(st) => {
                cx.outcome("deep-read-crashed");
                cx.fail(
                    &key,
                    "deep-input-crash",
                    None,
                    || format!("the reader built in the default dev profile died (signal {:?}, code {:?}) on the valid text of family {family} ({} lines / {} bytes) under an 8 MiB stack", st.signal(), st.code(), t.lines().count(), t.len()),
                    || json!({"family": family, "lines": t.lines().count(), "bytes": t.len()}),
                );
            }
        }
    }
}

impl Driver for C11Lin {
    fn id(&self) -> &'static str {
        "C11"
    }
    fn describe(&self, tier: Tier) -> Describe {
        let s = sizes(tier);
        Describe {
            rule: format!(
                "linear-time evidence: for the text families {FAMILIES:?} at {} / {} / {} KiB (the list-then-extension families at eight times that) the stand-alone reader (`l21mc lefread`) runs under `valgrind --tool=cachegrind --cache-sim=no`; the deterministic instruction counts must satisfy I(4N)-I(2N) <= 3 x (I(2N)-I(N)) (linear => 2, quadratic => 4; differences below 10 % of I(N) count as noise) and I(4N) <= 6 x I(N); counts echoed under alphabet_use as instructions:<family>:<size>. Each text also passes the in-process no-panic oracle. Stack depth: six deep-shaped valid texts ({} lines / statements: blank lines, comment lines, many macros, many pins, one huge line, BEGINEXT words) are read by the same stand-alone reader built in cargo's default dev profile under an 8 MiB stack; it must exit normally (the optimised harness build can hide recursion that the profile users test with does not).",
                s[0], s[1], s[2], tier.pick(100_000, 400_000)
            ),
            assumptions: vec!["time proportional to the input length is decided as 'terminates under the watchdog on every explored input' plus this bounded instruction-count test on the listed shape families; evidence of linear behaviour on those families up to that size, not a complexity proof. If valgrind cannot be run the part is skipped and reported as cap 'cachegrind-unavailable'".into()],
            excluded: vec![],
            technique: "deterministic instruction counting of the real reader at N, 2N, 4N on a finite menu of input shape families".into(),
        }
    }
    fn units(&self, _tier: Tier) -> Vec<String> {
        FAMILIES.iter().map(|f| f.to_string()).chain(DEEP.iter().map(|f| format!("deep:{f}"))).collect()
    }
    fn run_unit(&self, unit: &str, cx: &mut Cx) {
        if let Some(f) = unit.strip_prefix("deep:") {
            return self.deep(f, cx);
        }
        self.family(unit, cx);
    }
    fn run_case(&self, key: &str, cx: &mut Cx) {
        if let Some(f) = key.strip_prefix("deep:") {
            return self.deep(f, cx);
        }
        let f = key.strip_prefix("lin:").unwrap_or(key);
        let f = f.split(':').next().unwrap_or(f);
        self.family(f, cx);
    }
    fn render_case(&self, tier: Tier, key: &str) -> Value {
        json!({"family": key, "sizes_kib": sizes(tier)})
    }
    fn guards(&self, _tier: Tier, stats: &Stats, _d: u64) -> Result<(), String> {
        if !stats.caps_hit.contains("debug-binary-unavailable") {
            require_tags(stats, &["part:deep"])?;
        }
        if stats.caps_hit.contains("cachegrind-unavailable") {
            return Ok(());
        }
        require_tags(stats, &["part:linear-time"])?;
        require_outcomes(stats, &["linear-time:ok", "lin-text-ok", "lin-text-err"])
    }
    fn exhaustive(&self, _t: Tier) -> bool {
        true
    }
}
