//! C20 — conversions are deterministic: same input, same output, in any process.
//!
//! Configurations = hash-map iteration orders. For each input the harness rebuilds (or re-imports) the
//! input repeatedly — every rebuild creates fresh `HashMap`s with fresh per-map seeds — *reads the
//! iteration order of the very map objects the exporter is about to walk*, converts, and compares an
//! order-preserving rendering of the output with the first one, until every one of the k! orders of every
//! map has been observed (cap on rebuilds; coverage measured). Plus fresh OS processes per input.

use crate::core::*;
use crate::explore::Chooser;
use layout21protos as proto;
use layout21raw as raw;
use layout21raw::utils::Ptr;
use raw::{Abstract, AbstractPort, Cell, Element, Instance, Layer, LayerKey, LayerPurpose, Layers, Layout, Library, Point, Polygon, Rect, Shape, TextElement, Units};
use serde_json::{json, Value};
use std::collections::{BTreeMap, BTreeSet, HashMap};

pub struct C20;

thread_local! {
    /// alternates between rebuilds: decides the allocation order of the cells in the pointer-order part of tetris->raw
    static REBUILD_PARITY: std::cell::Cell<bool> = std::cell::Cell::new(false);
    /// scratch file of this worker for conversions that start from a file (set by `check`; a fresh process uses its pid)
    static SCRATCH: std::cell::RefCell<Option<String>> = std::cell::RefCell::new(None);
}

pub const CONVS: [&str; 12] = ["raw->gds", "raw->proto", "raw->lef", "lef->raw->lef", "proto->raw->proto", "gds->raw", "raw->gds->raw", "tetris->raw", "gds->raw:error", "raw->proto:error", "tetris->raw:error", "lef-text->raw->lef"];

#[derive(Clone, Debug)]
pub struct Case {
    pub conv: usize,
    pub port_layers: usize,  // 1..=3
    pub block_layers: usize, // 0, 2, 3
    pub two_ports: bool,
    pub two_shapes: bool,
    /// insertion order of the layers into each map
    pub perm: usize,
    pub two_cells: bool,
    /// two of the three layers share one layer number (legal in the raw model: layers are keyed, not numbered)
    pub dup_layer_nums: bool,
}

const PERMS3: [[usize; 3]; 6] = [[0, 1, 2], [0, 2, 1], [1, 0, 2], [1, 2, 0], [2, 0, 1], [2, 1, 0]];
const LAYER_NUMS: [i16; 3] = [10, 20, 30];
const LAYER_NAMES: [&str; 3] = ["la", "lb", "lc"];

fn layers(dup: bool) -> (Layers, Vec<LayerKey>) {
    let mut l = Layers::default();
    let mut keys = vec![];
    for i in 0..3 {
        let num = if dup && i == 1 { LAYER_NUMS[0] } else { LAYER_NUMS[i] };
        let mut layer = Layer::new(num, LAYER_NAMES[i])
            .add_pairs(&[(0, LayerPurpose::Drawing), (1, LayerPurpose::Pin), (2, LayerPurpose::Label), (3, LayerPurpose::Obstruction)])
            .expect("MACHINERY: layer pairs");
        if dup {
            // ... and every layer defines an outline purpose: nothing may depend on which of them a map yields first
            layer = layer.add_pairs(&[(6, LayerPurpose::Outline)]).expect("MACHINERY: layer pairs");
        }
        if dup && i != 1 {
            // the same purposes under a second number each (the later number is the one a purpose exports to)
            layer = layer.add_pairs(&[(44, LayerPurpose::Drawing), (45, LayerPurpose::Pin), (47, LayerPurpose::Obstruction)]).expect("MACHINERY: layer pairs");
        }
        keys.push(l.add(layer));
    }
    (l, keys)
}

fn shape(seed: isize, poly: bool) -> Shape {
    if poly {
        Shape::Polygon(Polygon { points: vec![Point::new(seed, 0), Point::new(seed + 40, 0), Point::new(seed + 40, 20), Point::new(seed + 20, 20), Point::new(seed + 20, 40), Point::new(seed, 40)] })
    } else {
        Shape::Rect(Rect { p0: Point::new(seed, seed + 1), p1: Point::new(seed + 30, seed + 50) })
    }
}

fn layer_map(keys: &[LayerKey], n: usize, perm: usize, two_shapes: bool, seed: isize) -> HashMap<LayerKey, Vec<Shape>> {
    let mut m = HashMap::new();
    let order: Vec<usize> = PERMS3[perm % 6].iter().cloned().filter(|i| *i < n).collect();
    for i in order {
        let mut v = vec![shape(seed + 100 * i as isize, false)];
        if two_shapes {
            v.push(shape(seed + 100 * i as isize + 7, true));
        }
        m.insert(keys[i], v);
    }
    m
}

/// A fresh raw library (fresh maps => fresh hash seeds).
pub fn build_raw(case: &Case) -> Library {
    let (l, keys) = layers(case.dup_layer_nums);
    let mut lib = Library::new("lib", Units::Nano);
    let ncells = if case.two_cells { 2 } else { 1 };
    for c in 0..ncells {
        let outline = Polygon { points: vec![Point::new(0, 0), Point::new(500, 0), Point::new(500, 300), Point::new(0, 300)] };
        let mut abs = Abstract::new(format!("A{c}"), outline);
        let nports = if case.two_ports { 2 } else { 1 };
        for p in 0..nports {
            let mut port = AbstractPort::new(format!("net{p}"));
            port.shapes = layer_map(&keys, case.port_layers, case.perm + p, case.two_shapes, 1000 * (p as isize + 1));
            abs.ports.push(port);
        }
        abs.blockages = layer_map(&keys, case.block_layers, case.perm + 3, case.two_shapes, 5000);
        lib.cells.push(Ptr::new(Cell::from(abs)));
    }
    // one layout cell with elements on several layers x purposes, an annotation and an instance
    let mut lay = Layout { name: "L".into(), insts: vec![], elems: vec![], annotations: vec![TextElement { string: "note".into(), loc: Point::new(3, 4) }] };
    for (i, k) in keys.iter().enumerate() {
        for (j, purp) in [LayerPurpose::Drawing, LayerPurpose::Pin].iter().enumerate() {
            lay.elems.push(Element { net: if j == 0 { Some(format!("n{i}")) } else { None }, layer: *k, purpose: purp.clone(), inner: shape(10 * (i as isize) + j as isize, j == 1) });
        }
    }
    let leaf = Ptr::new(Cell::from(Layout { name: "leaf".into(), insts: vec![], elems: vec![Element { net: None, layer: keys[0], purpose: LayerPurpose::Drawing, inner: shape(1, false) }], annotations: vec![] }));
    lay.insts.push(Instance { inst_name: "i0".into(), cell: leaf.clone(), loc: Point::new(11, 22), reflect_vert: true, angle: Some(90.0) });
    lib.cells.push(leaf);
    lib.cells.push(Ptr::new(Cell::from(lay)));
    lib.layers = Ptr::new(l);
    lib
}

/// iteration-order signatures of every unordered map of the abstracts of `lib`, as layer numbers
fn map_orders(lib: &Library) -> Vec<(String, Vec<i16>)> {
    let layers = lib.layers.read().unwrap();
    // signature by layer *name* (numbers may repeat), mapped to a small integer
    let num = |k: &LayerKey| -> i16 {
        // (layers without a name: by their position in the layer set, which is what tells them apart)
        layers.get(*k).map(|l| l.name.as_ref().and_then(|n| LAYER_NAMES.iter().position(|x| x == n)).map(|p| p as i16 + 1).unwrap_or_else(|| 100 + layers.slots.keys().position(|x| x == *k).unwrap_or(99) as i16)).unwrap_or(-1)
    };
    let mut out = vec![];
    for (ci, c) in lib.cells.iter().enumerate() {
        let c = c.read().unwrap();
        if let Some(a) = &c.abs {
            for (pi, p) in a.ports.iter().enumerate() {
                out.push((format!("cell{ci}.port{pi}"), p.shapes.keys().map(num).collect()));
            }
            out.push((format!("cell{ci}.blockages"), a.blockages.keys().map(num).collect()));
        }
    }
    out
}

/// Canonical, order-preserving dump of a raw library (maps of the data model are rendered sorted by layer
/// number: a map has no order; everything stored in a Vec / PtrList / SlotMap keeps its stored order).
pub fn dump_raw(lib: &Library) -> String {
    let layers = lib.layers.read().unwrap();
    let num = |k: &LayerKey| layers.get(*k).map(|l| l.layernum).unwrap_or(-1);
    let mut s = format!("lib {} {:?}\n", lib.name, lib.units);
    for (k, l) in layers.slots.iter() {
        let _ = k;
        let mut purps: Vec<(i16, String)> = (0..=300i16).filter_map(|n| l.purpose(n).map(|p| (n, format!("{p:?}")))).collect();
        purps.sort();
        s.push_str(&format!("layer {} {:?} {:?}\n", l.layernum, l.name, purps));
    }
    for c in lib.cells.iter() {
        let c = c.read().unwrap();
        s.push_str(&format!("cell {}\n", c.name));
        if let Some(l) = &c.layout {
            for e in &l.elems {
                s.push_str(&format!(" elem {} {:?} {:?} {:?}\n", num(&e.layer), e.purpose, e.net, e.inner));
            }
            for i in &l.insts {
                s.push_str(&format!(" inst {} {} {:?} {} {:?}\n", i.inst_name, i.cell.read().unwrap().name, i.loc, i.reflect_vert, i.angle));
            }
            for a in &l.annotations {
                s.push_str(&format!(" text {:?}\n", a));
            }
        }
        if let Some(a) = &c.abs {
            s.push_str(&format!(" abs {} {:?}\n", a.name, a.outline));
            for p in &a.ports {
                let m: BTreeMap<(i16, Option<String>), &Vec<Shape>> = p.shapes.iter().map(|(k, v)| ((num(k), layers.get_name(*k).cloned()), v)).collect();
                s.push_str(&format!("  port {} {:?}\n", p.net, m));
            }
            let m: BTreeMap<(i16, Option<String>), &Vec<Shape>> = a.blockages.iter().map(|(k, v)| ((num(k), layers.get_name(*k).cloned()), v)).collect();
            s.push_str(&format!("  blockages {:?}\n", m));
        }
    }
    s
}

fn fixed_dates(mut g: gds21::GdsLibrary) -> gds21::GdsLibrary {
    g.set_all_dates(gds21::GdsDateTime { year: 101, month: 2, day: 3, hour: 4, minute: 5, second: 6 });
    g
}
fn gds_bytes(g: &gds21::GdsLibrary) -> Result<String, String> {
    let mut buf = Vec::new();
    g.write(&mut buf).map_err(|e| format!("{e:?}"))?;
    Ok(buf.iter().map(|b| format!("{b:02x}")).collect())
}

fn sorted_proto(mut p: proto::raw::Library) -> proto::raw::Library {
    for c in p.cells.iter_mut() {
        if let Some(a) = c.r#abstract.as_mut() {
            let key = |ls: &proto::raw::LayerShapes| ls.layer.as_ref().map(|l| (l.number, l.purpose)).unwrap_or((-1, -1));
            a.blockages.sort_by_key(key);
            for port in a.ports.iter_mut() {
                port.shapes.sort_by_key(key);
            }
        }
    }
    p
}

/// One conversion of one freshly built input. Returns (map-order signatures, output rendering).
pub fn convert_once(case: &Case) -> Result<(Vec<(String, Vec<i16>)>, String), String> {
    let e = |x: raw::LayoutError| format!("{x:?}");
    match case.conv {
        0 => {
            let lib = build_raw(case);
            if case.two_cells {
                // the layout cell also instantiates three cells that are not members of the library's own cell list
                let top = lib.cells.last().unwrap().clone();
                let mut top = top.write().map_err(|_| "lock".to_string())?;
                for k in 0..3 {
                    let ext = Ptr::new(Cell::from(Layout { name: format!("outside{k}"), insts: vec![], elems: vec![], annotations: vec![] }));
                    top.layout.as_mut().unwrap().insts.push(Instance { inst_name: format!("io{k}"), cell: ext, loc: Point::new(50 * k, 7), reflect_vert: false, angle: None });
                }
            }
            if case.dup_layer_nums && case.two_shapes {
                // layers without names (as GDSII import creates them): the element order may not lean on names
                let mut layers = lib.layers.write().map_err(|_| "lock".to_string())?;
                for (_, l) in layers.slots.iter_mut() {
                    l.name = None;
                }
            }
            let sig = map_orders(&lib);
            let g = fixed_dates(lib.to_gds().map_err(e)?);
            Ok((sig, gds_bytes(&g)?))
        }
        1 => {
            let mut lib = build_raw(case);
            if case.two_cells {
                // the layout cell is listed first and instantiates three further cells that are listed after it
                let top = lib.cells.pop().unwrap();
                let mut kids = vec![];
                for k in 0..3 {
                    let kid = Ptr::new(Cell::from(Layout { name: format!("later{k}"), insts: vec![], elems: vec![], annotations: vec![] }));
                    top.write().map_err(|_| "lock".to_string())?.layout.as_mut().unwrap().insts.push(Instance { inst_name: format!("il{k}"), cell: kid.clone(), loc: Point::new(60 * k, 9), reflect_vert: false, angle: None });
                    kids.push(kid);
                }
                let rest: Vec<Ptr<Cell>> = lib.cells.iter().cloned().collect();
                let mut reordered = raw::utils::PtrList::new();
                reordered.push(top);
                for c in rest.into_iter().chain(kids) {
                    reordered.push(c);
                }
                lib.cells = reordered;
            }
            let sig = map_orders(&lib);
            let p = lib.to_proto().map_err(e)?;
            let bytes = proto::conv::to_bytes(&p);
            Ok((sig, bytes.iter().map(|b| format!("{b:02x}")).collect()))
        }
        2 => {
            let lib = build_raw(case);
            let sig = map_orders(&lib);
            let l = raw::lef::LefExporter::export(&lib).map_err(e)?;
            Ok((sig, serde_json::to_string(&l).map_err(|x| x.to_string())?))
        }
        3 => {
            // fixed LEF input: derived from the raw library through the exporter, then put in a fixed order
            let lib0 = build_raw(case);
            let mut l0 = raw::lef::LefExporter::export(&lib0).map_err(e)?;
            for m in l0.macros.iter_mut() {
                // the LEF exporter does not write SIZE; the importer requires it
                m.size = Some((lef21::LefDecimal::new(5, 1), lef21::LefDecimal::new(3, 1)));
                m.obs.sort_by(|a, b| a.layer_name.cmp(&b.layer_name));
                for p in m.pins.iter_mut() {
                    for po in p.ports.iter_mut() {
                        po.layers.sort_by(|a, b| a.layer_name.cmp(&b.layer_name));
                    }
                    // a pin whose geometry sits on several layers is written as two PORTs (LEF allows several per pin)
                    if p.ports.len() == 1 && p.ports[0].layers.len() >= 2 {
                        let rest = p.ports[0].layers.split_off(1);
                        let mut second = p.ports[0].clone();
                        second.layers = rest;
                        // the second port repeats the first layer as well, so both ports introduce layers
                        second.layers.push(p.ports[0].layers[0].clone());
                        p.ports.push(second);
                    }
                }
            }
            // raw units are nanometres here; LEF import scales microns by 1e4, values stay integral
            // with dup_layer_nums the caller supplies a layer set that knows none of the LEF's layer names and whose
            // numbering has gaps (0, 1, 5, 9 in use): the numbers given to the new layers must not depend on a hash order
            let supplied = if case.dup_layer_nums {
                let mut ls = Layers::default();
                for (n, name) in [(5i16, "x5"), (0, "x0"), (9, "x9"), (1, "x1")] {
                    ls.add(Layer::new(n, name));
                }
                Some(Ptr::new(ls))
            } else {
                None
            };
            let lib = raw::lef::LefImporter::import(&l0, supplied).map_err(e)?;
            let sig = map_orders(&lib);
            let l = raw::lef::LefExporter::export(&lib).map_err(e)?;
            Ok((sig, format!("{}\n{}", dump_raw(&lib), serde_json::to_string(&l).map_err(|x| x.to_string())?)))
        }
        4 => {
            let lib0 = build_raw(case);
            let p0 = sorted_proto(lib0.to_proto().map_err(e)?);
            let lib = Library::from_proto(p0, Some(lib0.layers.clone())).map_err(e)?;
            let sig = map_orders(&lib);
            let p = lib.to_proto().map_err(e)?;
            let bytes = proto::conv::to_bytes(&p);
            Ok((sig, format!("{}\n{}", dump_raw(&lib), bytes.iter().map(|b| format!("{b:02x}")).collect::<String>())))
        }
        5 => {
            // gds -> raw: fixed GDS input built directly
            use gds21::*;
            let mut g = GdsLibrary::new("glib");
            g.units = GdsUnits::new(1e-3, 1e-9);
            let mut leaves: Vec<GdsStruct> = ["leafA", "leafB", "leafC"].iter().map(|n| GdsStruct::new(*n)).collect();
            let mut top = GdsStruct::new("top");
            let nl = case.port_layers.max(1);
            for i in 0..nl {
                for dt in 0..2i16 {
                    let x = 100 * i as i32 + 10 * dt as i32;
                    for (li, leaf) in leaves.iter_mut().enumerate() {
                        let x = x + 1000 * li as i32;
                        leaf.elems.push(GdsElement::GdsBoundary(GdsBoundary { layer: LAYER_NUMS[i], datatype: dt, xy: GdsPoint::vec(&[(x, 0), (x + 50, 0), (x + 50, 20), (x, 20), (x, 0)]), ..Default::default() }));
                    }
                    top.elems.push(GdsElement::GdsBoundary(GdsBoundary { layer: LAYER_NUMS[i], datatype: dt, xy: GdsPoint::vec(&[(x, 0), (x + 30, 0), (x + 30, 30), (x + 10, 40), (x, 0)]), ..Default::default() }));
                    top.elems.push(GdsElement::GdsTextElem(GdsTextElem { string: format!("N{i}{dt}"), layer: LAYER_NUMS[i], texttype: dt, xy: GdsPoint::new(x + 5, 5), ..Default::default() }));
                }
                top.elems.push(GdsElement::GdsPath(GdsPath { layer: LAYER_NUMS[i], datatype: 0, xy: GdsPoint::vec(&[(0, 100 + 10 * i as i32), (70, 100 + 10 * i as i32)]), width: Some(4), ..Default::default() }));
            }
            // labels on three layers that carry no geometry anywhere (the importer has to create those layers)
            for (k, l) in [47i16, 41, 45].iter().enumerate() {
                top.elems.push(GdsElement::GdsTextElem(GdsTextElem { string: format!("note{k}"), layer: *l, texttype: k as i16, xy: GdsPoint::new(900 + k as i32, 900), ..Default::default() }));
            }
            // the top struct references three distinct children (and one of them twice)
            for (li, n) in ["leafB", "leafC", "leafA"].iter().enumerate() {
                top.elems.push(GdsElement::GdsStructRef(GdsStructRef { name: n.to_string(), xy: GdsPoint::new(7 + li as i32, 8), strans: Some(GdsStrans { reflected: li == 0, angle: Some(90.0 * li as f64), ..Default::default() }), ..Default::default() }));
            }
            top.elems.push(GdsElement::GdsArrayRef(GdsArrayRef { name: "leafA".into(), xy: [GdsPoint::new(0, 0), GdsPoint::new(400, 0), GdsPoint::new(0, 90)], cols: 2, rows: 3, ..Default::default() }));
            // arrays of two more cells (and of the first one again), in an order that is neither alphabetical nor the listing order
            for (k, n) in ["leafC", "leafA", "leafB"].iter().enumerate() {
                top.elems.push(GdsElement::GdsArrayRef(GdsArrayRef { name: n.to_string(), xy: [GdsPoint::new(0, 500 + 100 * k as i32), GdsPoint::new(200, 500 + 100 * k as i32), GdsPoint::new(0, 560 + 100 * k as i32)], cols: 2, rows: 2, ..Default::default() }));
            }
            if case.two_cells {
                // top-cell-first listing
                g.structs.push(top);
                g.structs.extend(leaves);
            } else {
                g.structs.extend(leaves);
                g.structs.push(top);
            }
            let lib = Library::from_gds(&g, None).map_err(e)?;
            Ok((vec![], dump_raw(&lib)))
        }
        8 => {
            // GDSII -> raw on an ill-formed hierarchy: the result is an error, and the error is part of the result.
            // A ring of 2..=4 structs (closed by an SREF or an AREF), entered from a top struct, listed in ring
            // order or reversed; plus a second, unrelated ring.
            use gds21::*;
            if case.dup_layer_nums {
                // no ring, but a struct name defined twice among four or five structs that only partly refer to each
                // other: whatever the importer makes of it (a library or an error), it makes the same of it every time
                let mk = |name: &str, k: i32, refs: &[&str]| {
                    let mut st = GdsStruct::new(name);
                    st.elems.push(GdsElement::GdsBoundary(GdsBoundary { layer: 1 + k as i16, datatype: 0, xy: GdsPoint::vec(&[(0, 0), (5 + k, 0), (5 + k, 5), (0, 5), (0, 0)]), ..Default::default() }));
                    for r in refs {
                        st.elems.push(GdsElement::GdsStructRef(GdsStructRef { name: r.to_string(), xy: GdsPoint::new(k, 2), ..Default::default() }));
                    }
                    st
                };
                let mut structs = vec![mk("dup_a", 0, &[]), mk("dup_b", 1, &[]), mk("dup_c", 2, &["dup_a"]), mk("dup_d", 3, &[])];
                let again = ["dup_a", "dup_b", "dup_d"][case.perm % 3];
                structs.push(mk(again, 4, &[]));
                if case.two_ports {
                    structs.push(mk("dup_e", 5, &["dup_b", "dup_d"]));
                }
                if case.two_shapes {
                    // a reference that names no struct exactly but two of them up to letter case
                    structs.push(mk("inv", 6, &[]));
                    structs.push(mk("Inv", 7, &[]));
                    structs.push(mk("user", 8, &["INV"]));
                }
                if case.two_cells {
                    structs.reverse();
                }
                let mut g = GdsLibrary::new("dupnames");
                g.units = GdsUnits::new(1e-3, 1e-9);
                g.structs = structs;
                return match Library::from_gds(&g, None) {
                    Ok(lib) => Ok((vec![], format!("accepted (not judged here): {}", dump_raw(&lib)))),
                    Err(x) => Ok((vec![], format!("Err: {x:?} / {x}"))),
                };
            }
            let n = 1 + case.port_layers.max(1);
            let names: Vec<String> = (0..n).map(|i| format!("ring_{}", (b'a' + i as u8) as char)).collect();
            let mut structs: Vec<GdsStruct> = vec![];
            for i in 0..n {
                let mut st = GdsStruct::new(names[i].clone());
                st.elems.push(GdsElement::GdsBoundary(GdsBoundary { layer: 1, datatype: 0, xy: GdsPoint::vec(&[(0, 0), (5, 0), (5, 5), (0, 5), (0, 0)]), ..Default::default() }));
                let next = names[(i + 1) % n].clone();
                if i + 1 == n && case.two_shapes {
                    st.elems.push(GdsElement::GdsArrayRef(GdsArrayRef { name: next, xy: [GdsPoint::new(0, 0), GdsPoint::new(40, 0), GdsPoint::new(0, 40)], cols: 2, rows: 2, ..Default::default() }));
                } else {
                    st.elems.push(GdsElement::GdsStructRef(GdsStructRef { name: next, xy: GdsPoint::new(1, 2), ..Default::default() }));
                }
                structs.push(st);
            }
            let mut top = GdsStruct::new("top");
            top.elems.push(GdsElement::GdsStructRef(GdsStructRef { name: names[case.perm % n].clone(), xy: GdsPoint::new(0, 0), ..Default::default() }));
            if case.two_ports {
                let mut x = GdsStruct::new("other_x");
                let mut y = GdsStruct::new("other_y");
                x.elems.push(GdsElement::GdsStructRef(GdsStructRef { name: "other_y".into(), xy: GdsPoint::new(0, 0), ..Default::default() }));
                y.elems.push(GdsElement::GdsStructRef(GdsStructRef { name: "other_x".into(), xy: GdsPoint::new(0, 0), ..Default::default() }));
                top.elems.push(GdsElement::GdsStructRef(GdsStructRef { name: "other_x".into(), xy: GdsPoint::new(9, 9), ..Default::default() }));
                structs.push(x);
                structs.push(y);
            }
            if case.two_cells {
                structs.reverse();
                structs.push(top);
            } else {
                structs.insert(0, top);
            }
            let mut g = GdsLibrary::new("cyclic");
            g.units = GdsUnits::new(1e-3, 1e-9);
            g.structs = structs;
            match Library::from_gds(&g, None) {
                Ok(lib) => Ok((vec![], format!("accepted (not judged here, see C06 / C17): {}", dump_raw(&lib)))),
                Err(x) => Ok((vec![], format!("Err: {x:?} / {x}"))),
            }
        }
        10 => {
            // gridded layout -> raw on a cell whose cut lies under an instance (or, with two_shapes, whose two cuts
            // overlap): the conversion reports an error, and that error is the result
            use crate::props::c08::{run_convert, CaseD};
            use crate::refmodel::tiling::{stack_family, CellIn, ChildD, CrossD, InstIn};
            let fam = stack_family();
            let si = [1usize, 9, 10][(case.port_layers + case.perm) % 3];
            let cell = CellIn {
                metals: 2,
                size: (6, 6),
                // two_ports: instead of a failing cut, an assignment that lands on a cut of a track an instance blocks too
                cuts: if case.two_ports { vec![CrossD(0, 0, 1, 0)] } else if case.two_shapes { vec![CrossD(0, 0, 1, 1), CrossD(0, 0, 1, 1)] } else { vec![CrossD(0, 0, 1, 2)] },
                assigns: if case.two_ports { vec![("n".to_string(), CrossD(0, 0, 1, 0))] } else { vec![] },
                insts: vec![InstIn { child: 0, loc: (4, 0), rh: false, rv: false }],
            };
            let cd = CaseD { stack: si, cell, children: vec![ChildD { metals: 1, size: (2, 6) }] };
            match run_convert(&fam[si], &cd)? {
                Ok(cells) => Ok((vec![], format!("accepted (not judged here, see C08): {cells:?}"))),
                Err(e) => Ok((vec![], format!("Err: {e}"))),
            }
        }
        9 if case.block_layers == 0 && case.two_ports => {
            // raw -> GDSII of an abstract whose port has shapes on several layers none of which defines a purpose (what
            // the LEF importer produces): which layer the error names must not depend on a hash order
            let mut ls = Layers::default();
            let keys: Vec<LayerKey> = (0..4).map(|i| ls.add(Layer::new(10 + i as i16, format!("met{i}")))).collect();
            let mut lib = Library::new("nopurposes", Units::Nano);
            let outline = Polygon { points: vec![Point::new(0, 0), Point::new(50, 0), Point::new(50, 30), Point::new(0, 30)] };
            let mut abs = Abstract::new("A", outline);
            let mut port = AbstractPort::new("p");
            let n = 2 + case.port_layers.min(2);
            for k in 0..n {
                port.shapes.insert(keys[(k + case.perm) % 4], vec![shape(10 * k as isize, false)]);
            }
            abs.ports.push(port);
            lib.cells.push(Ptr::new(Cell::from(abs)));
            lib.layers = Ptr::new(ls);
            match lib.to_gds() {
                Ok(_) => Ok((vec![], "accepted layers without purposes (not judged here)".to_string())),
                Err(x) => Ok((vec![], format!("Err: {x:?} / {x}"))),
            }
        }
        9 if case.block_layers != 3 => {
            // raw -> GDSII (block_layers 0) / raw -> protobuf (block_layers 2) of an element whose layer does not
            // define the element's purpose: the error is the result
            let mut lib = build_raw(case);
            let key = lib.layers.read().map_err(|_| "lock".to_string())?.slots.keys().next().ok_or("no layer")?;
            let lay = Layout { name: "undefined_purpose".into(), insts: vec![], elems: vec![Element { net: None, layer: key, purpose: LayerPurpose::Other(77), inner: shape(5, false) }], annotations: vec![] };
            lib.cells.push(Ptr::new(Cell::from(lay)));
            let r = if case.block_layers == 0 { lib.to_gds().map(|_| ()) } else { lib.to_proto().map(|_| ()) };
            match r {
                Ok(()) => Ok((vec![], "accepted an undefined purpose (not judged here)".to_string())),
                Err(x) => Ok((vec![], format!("Err: {x:?} / {x}"))),
            }
        }
        9 if case.block_layers == 3 && case.dup_layer_nums => {
            // LEF -> raw -> LEF where the supplied layer set holds a layer without a name of its own (as GDSII import
            // makes them) that the name index lists under two or three spellings, all of which the LEF uses: whatever
            // the exporter answers (a library or an error) must not depend on the order of the name index
            let spellings = ["met1", "metal1", "M1"];
            let n = 2 + (case.port_layers % 2);
            let mut ls = Layers::default();
            let key = ls.add(Layer::from_pairs(68, &[(20, LayerPurpose::Drawing), (16, LayerPurpose::Pin)]).map_err(e)?);
            for k in 0..n {
                ls.names.insert(spellings[(k + case.perm) % 3].to_string(), key);
            }
            use lef21::{LefDbuPerMicron, LefDecimal, LefGeometry, LefLayerGeometries, LefLibrary, LefMacro, LefPin, LefPoint, LefPort, LefShape, LefUnits};
            let rect = |name: &str, x: i64, y: i64| LefLayerGeometries {
                layer_name: name.to_string(),
                geometries: vec![LefGeometry::Shape(LefShape::Rect(None, LefPoint::new(LefDecimal::new(10 * x + 1, 1), LefDecimal::new(10 * y + 1, 1)), LefPoint::new(LefDecimal::new(10 * x + 5, 1), LefDecimal::new(10 * y + 5, 1))))],
                ..Default::default()
            };
            let mut l0 = LefLibrary::default();
            l0.units = Some(LefUnits { database_microns: Some(LefDbuPerMicron(2000)), ..Default::default() });
            let mut m = LefMacro::new("buf");
            m.size = Some((LefDecimal::new(40, 1), LefDecimal::new(30, 1)));
            for k in 0..n {
                let mut pin = LefPin::default();
                pin.name = format!("p{k}");
                let mut port = LefPort::default();
                port.layers = vec![rect(spellings[(k + case.perm) % 3], k as i64, 0)];
                pin.ports.push(port);
                m.pins.push(pin);
            }
            if case.two_shapes {
                m.obs = vec![rect(spellings[case.perm % 3], 0, 1)];
            }
            l0.macros.push(m);
            let lib = match raw::lef::LefImporter::import(&l0, Some(Ptr::new(ls))) {
                Ok(l) => l,
                Err(x) => return Ok((vec![], format!("import Err: {x:?} / {x}"))),
            };
            let mut sig = map_orders(&lib);
            {
                // the name index is a map the exporter may walk: its iteration order is part of the configuration
                let layers = lib.layers.read().map_err(|_| "lock".to_string())?;
                let order: Vec<i16> = layers.names.keys().filter_map(|k| spellings.iter().position(|x| x == k)).map(|p| p as i16).collect();
                sig.push(("layers.names".to_string(), order));
            }
            match raw::lef::LefExporter::export(&lib) {
                Ok(l) => Ok((sig, format!("{}\n{}", dump_raw(&lib), serde_json::to_string(&l).map_err(|x| x.to_string())?))),
                Err(x) => Ok((sig, format!("{}\nexport Err: {x:?} / {x}", dump_raw(&lib)))),
            }
        }
        9 if case.two_cells => {
            // raw -> protobuf of an instance without a name whose rotation is not a whole number of degrees (the schema
            // stores whole degrees): the error is the result
            let mut lib = build_raw(case);
            let leaf = lib.cells[0].clone();
            let lay = Layout { name: "fractional_angle".into(), insts: vec![Instance { inst_name: String::new(), cell: leaf, loc: Point::new(1, 2), reflect_vert: false, angle: Some(22.5) }], elems: vec![], annotations: vec![] };
            lib.cells.push(Ptr::new(Cell::from(lay)));
            match lib.to_proto() {
                Ok(_) => Ok((vec![], "accepted a fractional angle (not judged here)".to_string())),
                Err(x) => Ok((vec![], format!("Err: {x:?} / {x}"))),
            }
        }
        9 => {
            // raw -> protobuf on a library whose cells instantiate each other in a ring: the error is the result
            let n = 1 + case.port_layers.max(1);
            let cells: Vec<Ptr<Cell>> = (0..n).map(|i| Ptr::new(Cell::from(Layout { name: format!("ring{i}"), insts: vec![], elems: vec![], annotations: vec![] }))).collect();
            for i in 0..n {
                let target = cells[(i + 1) % n].clone();
                cells[i].write().unwrap().layout.as_mut().unwrap().insts.push(Instance { inst_name: format!("i{i}"), cell: target, loc: Point::new(i as isize, 0), reflect_vert: false, angle: None });
            }
            let mut lib = Library::new("cyclic", Units::Nano);
            let k = case.perm % n;
            for i in 0..n {
                lib.cells.push(cells[(i + k) % n].clone());
            }
            let r = lib.to_proto();
            // break the reference cycle so that the cells are freed
            for c in &cells {
                if let Ok(mut c) = c.write() {
                    c.layout = None;
                }
            }
            match r {
                Ok(p) => Ok((vec![], format!("accepted (not judged here, see C17): {} cells", p.cells.len()))),
                Err(x) => Ok((vec![], format!("Err: {x:?} / {x}"))),
            }
        }
        7 => {
            // gridded layout -> raw. Part (a): a two-metal cell with cuts, an assignment and an instance on one of the
            // stacks of the C08 family, converted by the real RawExporter. Part (b): a parent listed *before* the two
            // different cells it instantiates, the cells being allocated in an order that alternates between rebuilds
            // (so their heap addresses swap): the order of the exported cells must not follow pointer values.
            use crate::props::c08::{build_stack, run_convert, CaseD};
            use crate::refmodel::tiling::{stack_family, CellIn, ChildD, CrossD, InstIn};
            let fam = stack_family();
            let si = [1usize, 9, 10][(case.port_layers + case.perm) % 3];
            let cell = CellIn {
                metals: 2,
                size: (6, 6),
                // (with two instances the crossings over layer-1 track 1 lie under the second one: cut at track 0)
                cuts: {
                    let x = if case.two_ports && !case.two_cells { 0 } else { 1 };
                    if case.two_shapes { vec![CrossD(0, 0, 1, x), CrossD(0, 2, 1, x)] } else { vec![CrossD(0, 0, 1, x)] }
                },
                assigns: vec![("n".to_string(), CrossD(1, 0, 0, 1))],
                // two instances abutting along the tracks of layer 0 (same periods); with two_cells only one of them
                insts: match (case.two_ports, case.two_cells) {
                    (false, _) => vec![],
                    (true, true) => vec![InstIn { child: 0, loc: (4, 0), rh: false, rv: false }],
                    // (the two abutting instances are of cells with different metal counts where the stack is high enough)
                    (true, false) => vec![InstIn { child: 0, loc: (4, 0), rh: false, rv: false }, InstIn { child: if fam[si].layers.len() >= 3 { 1 } else { 0 }, loc: (2, 0), rh: false, rv: false }],
                },
            };
            let mut cell = cell;
            if fam[si].layers.len() >= 3 {
                cell.metals = 3;
            }
            let cd = CaseD { stack: si, cell, children: vec![ChildD { metals: 1, size: (2, 6) }, ChildD { metals: 2, size: (2, 6) }] };
            let a = match run_convert(&fam[si], &cd)? {
                Ok(cells) => format!("{cells:?}"),
                Err(e) => return Err(format!("tetris->raw conversion failed on a well-formed cell: {e}")),
            };
            let b = {
                use layout21tetris as tetris;
                use tetris::{cell::Cell, instance::Instance, layout::Layout, library::Library as TLib, outline::Outline};
                let flip = REBUILD_PARITY.with(|p| {
                    let v = p.get();
                    p.set(!v);
                    v
                });
                let mk = |n: &str, w: isize| Ptr::new(Cell::from(Layout::new(n, 0, Outline::rect(w, 6).unwrap())));
                // allocation order alternates; names, listing order and instance order stay the same
                let (alpha, beta) = if flip {
                    let b = mk("beta", 4);
                    let pad: Vec<Box<[u8; 64]>> = (0..3).map(|_| Box::new([0u8; 64])).collect();
                    let a = mk("alpha", 2);
                    drop(pad);
                    (a, b)
                } else {
                    let a = mk("alpha", 2);
                    let b = mk("beta", 4);
                    (a, b)
                };
                let mut top = Layout::new("top", 0, Outline::rect(12, 6).unwrap());
                top.instances.add(Instance { inst_name: "ia".into(), cell: alpha.clone(), loc: (0, 0).into(), reflect_horiz: false, reflect_vert: false });
                top.instances.add(Instance { inst_name: "ib".into(), cell: beta.clone(), loc: (4, 0).into(), reflect_horiz: false, reflect_vert: false });
                // five more cells that wrap a raw layout (of a raw library that is not registered with the gridded one),
                // instantiated by the top cell, allocated in alternating order as well
                let mut wrapped: Vec<Ptr<Cell>> = vec![];
                if case.two_ports {
                    let order: Vec<usize> = if flip { (0..5).rev().collect() } else { (0..5).collect() };
                    let mut slots: Vec<Option<Ptr<Cell>>> = vec![None; 5];
                    for k in order {
                        let rawlay = raw::Layout { name: format!("prim{k}"), insts: vec![], elems: vec![], annotations: vec![] };
                        let rl = tetris::cell::RawLayoutPtr {
                            outline: Outline::rect(1, 6).unwrap(),
                            metals: 0,
                            lib: Ptr::new(raw::Library::new("unregistered", raw::Units::Nano)),
                            cell: Ptr::new(raw::Cell::from(rawlay)),
                        };
                        slots[k] = Some(Ptr::new(Cell::from(rl)));
                    }
                    wrapped = slots.into_iter().map(|x| x.unwrap()).collect();
                    for (k, w) in wrapped.iter().enumerate() {
                        top.instances.add(Instance { inst_name: format!("iw{k}"), cell: w.clone(), loc: (6 + k as isize, 0).into(), reflect_horiz: false, reflect_vert: false });
                    }
                }
                // and several array instances (rows of three alphas), named in an order that is not alphabetical
                for (k, name) in ["row_c", "row_a", "row_e", "row_b", "row_d"].iter().enumerate() {
                    use tetris::array::{Array, ArrayInstance, Arrayable};
                    use tetris::placement::{Placeable, SepBy, Separation};
                    top.places.push(Placeable::Array(Ptr::new(ArrayInstance {
                        name: name.to_string(),
                        loc: (0, 6 + k as isize).into(),
                        reflect_vert: false,
                        reflect_horiz: false,
                        array: Ptr::new(Array { name: "row".into(), unit: Arrayable::Instance(alpha.clone()), count: 3, sep: Separation::x(SepBy::UnitSpeced(tetris::coords::PrimPitches::x(4).into())) }),
                    })));
                }
                let mut lib = TLib::new("tlib");
                lib.cells.push(Ptr::new(Cell::from(top)));
                lib.cells.push(alpha);
                lib.cells.push(beta);
                for w in wrapped {
                    lib.cells.push(w);
                }
                let bs = build_stack(&fam[si])?;
                match tetris::conv::raw::RawExporter::convert(lib, bs.stack) {
                    Err(e) => return Err(format!("tetris->raw conversion of a parent-first library failed: {e:?}")),
                    Ok(p) => {
                        let rl = p.read().map_err(|_| "lock".to_string())?;
                        // cell names in order, and for each cell its instances in order
                        let names: Vec<String> = rl
                            .cells
                            .iter()
                            .map(|c| {
                                c.read()
                                    .map(|c| {
                                        let insts: Vec<String> = c.layout.as_ref().map(|l| l.insts.iter().map(|i| format!("{}@{:?}", i.inst_name, (i.loc.x, i.loc.y))).collect()).unwrap_or_default();
                                        format!("{} {:?}", c.name, insts)
                                    })
                                    .unwrap_or_default()
                            })
                            .collect();
                        format!("{names:?}")
                    }
                }
            };
            // Part (c): two instances of a cell with a z-top port, and one port-relative net assignment per instance,
            // both coming down on the same track of the layer above; which of two heap allocations holds which
            // instance alternates between rebuilds. The hand-over order of the assignments must not follow addresses.
            let c3 = {
                use layout21tetris as tetris;
                use tetris::placement::{Align, Placeable, RelAssign, RelativePlace, Separation, Side};
                use tetris::stack::{FlipMode, MetalLayer, PrimitiveLayer, PrimitiveMode, RelZ, Stack, ViaLayer};
                use tetris::tracks::{TrackEntry, TrackSpec};
                use tetris::{abs, cell::Cell, instance::Instance, layout::Layout, library::Library as TLib, outline::Outline};
                let te = |x: raw::LayoutError| format!("setup: {x:?}");
                let mut rawlayers = Layers::default();
                let purps = [(255, LayerPurpose::Obstruction), (20, LayerPurpose::Drawing), (5, LayerPurpose::Label), (16, LayerPurpose::Pin)];
                let vpurps = [(255, LayerPurpose::Obstruction), (44, LayerPurpose::Drawing), (5, LayerPurpose::Label), (16, LayerPurpose::Pin)];
                let boundary = rawlayers.add(Layer::from_pairs(236, &[(0, LayerPurpose::Outline)]).map_err(te)?);
                let m: Vec<LayerKey> = (0..3).map(|i| Layer::from_pairs(68 + i, &purps).map(|l| rawlayers.add(l))).collect::<Result<_, _>>().map_err(te)?;
                let v: Vec<LayerKey> = (0..2).map(|i| Layer::from_pairs(168 + i, &vpurps).map(|l| rawlayers.add(l))).collect::<Result<_, _>>().map_err(te)?;
                let horiz = |name: &str, key: LayerKey, prim: PrimitiveMode| MetalLayer {
                    name: name.into(),
                    entries: vec![TrackSpec::gnd(480), TrackSpec::repeat(vec![TrackEntry::gap(200), TrackEntry::sig(140)], 6), TrackSpec::gap(200), TrackSpec::pwr(480)],
                    dir: raw::Dir::Horiz,
                    offset: (-240).into(),
                    cutsize: (250).into(),
                    overlap: (480).into(),
                    raw: Some(key),
                    flip: FlipMode::EveryOther,
                    prim,
                };
                let stack = Stack {
                    units: Units::Nano,
                    boundary_layer: Some(boundary),
                    prim: PrimitiveLayer { pitches: (460, 2720).into() },
                    metals: vec![
                        horiz("met1", m[0], PrimitiveMode::Split),
                        MetalLayer { name: "met2".into(), entries: vec![TrackSpec::sig(140), TrackSpec::gap(320)], dir: raw::Dir::Vert, cutsize: (250).into(), offset: (-70).into(), overlap: (0).into(), raw: Some(m[1]), flip: FlipMode::None, prim: PrimitiveMode::Stack },
                        horiz("met3", m[2], PrimitiveMode::Stack),
                    ],
                    vias: vec![
                        ViaLayer { name: "via1".into(), size: (240, 240).into(), bot: 0.into(), top: 1.into(), raw: Some(v[0]) },
                        ViaLayer { name: "via2".into(), size: (240, 240).into(), bot: 1.into(), top: 2.into(), raw: Some(v[1]) },
                    ],
                    rawlayers: Some(Ptr::new(rawlayers)),
                }
                .validate()
                .map_err(te)?;
                let mut lib = TLib::new("portassign");
                let mut lil = Cell::new("lil");
                lil.layout = Some(Layout::new("lil", 1, Outline::rect(2, 1).map_err(te)?));
                let mut lil_abs = abs::Abstract::new("lil", 1, Outline::rect(2, 1).map_err(te)?);
                lil_abs.ports.push(abs::Port { name: "PPP".into(), kind: abs::PortKind::ZTopEdge { track: 0, side: abs::Side::BottomOrLeft, into: (2, RelZ::Above) } });
                lil.abs = Some(lil_abs);
                let lil = lib.cells.add(lil);
                let blank = || Instance { inst_name: String::new(), cell: lil.clone(), loc: (0, 0).into(), reflect_horiz: false, reflect_vert: false };
                let (a, b) = (Ptr::new(blank()), Ptr::new(blank()));
                let addr = |p: &Ptr<Instance>| std::sync::Arc::as_ptr(&**p) as *const u8 as usize;
                let (lo, hi) = if addr(&a) < addr(&b) { (a, b) } else { (b, a) };
                let flip = REBUILD_PARITY.with(|p| p.get());
                let (i1, i2) = if flip { (hi, lo) } else { (lo, hi) };
                {
                    let mut i = i1.write().map_err(|_| "lock".to_string())?;
                    i.inst_name = "i1".into();
                    i.loc = (0, 0).into();
                }
                {
                    let mut i = i2.write().map_err(|_| "lock".to_string())?;
                    i.inst_name = "i2".into();
                    i.loc = (0, 1).into();
                }
                let mut parent = Layout::new("parent", 3, Outline::rect(40, 35).map_err(te)?);
                parent.instances.push(i1.clone());
                parent.instances.push(i2.clone());
                for (net, inst) in [("NET1", &i1), ("NET2", &i2)] {
                    parent.places.push(Placeable::Assign(Ptr::new(RelAssign { net: net.into(), loc: RelativePlace { to: Placeable::Port { inst: inst.clone(), port: "PPP".into() }, align: Align::Center, side: Side::Left, sep: Separation::z(2) } })));
                }
                lib.cells.add(parent);
                match tetris::conv::raw::RawExporter::convert(lib, stack) {
                    Err(e) => return Err(format!("tetris->raw conversion of port-relative assignments failed: {e:?}")),
                    Ok(p) => {
                        let rl = p.read().map_err(|_| "lock".to_string())?;
                        let mut s = String::new();
                        for c in rl.cells.iter() {
                            let c = c.read().map_err(|_| "lock".to_string())?;
                            if let Some(l) = &c.layout {
                                s.push_str(&format!("{} {:?}\n", c.name, l.elems.iter().map(|e| (e.net.clone(), format!("{:?}", e.inner))).collect::<Vec<_>>()));
                            }
                        }
                        s
                    }
                }
            };
            Ok((vec![], format!("{a}\n{b}\n{c3}")))
        }
        11 => {
            // LEF *text* -> lef21 -> raw -> lef21: the text optionally states no VERSION / 5.8 / 5.4, optionally ends
            // without END LIBRARY (legal from 5.6 on) or carries statements that only versions <= 5.4 allow. Whatever
            // the reader answers for a text (a library or an error) is the result, and is the same every time.
            let mut text = String::new();
            match case.port_layers {
                2 => text.push_str("VERSION 5.8 ;\n"),
                1 => text.push_str("VERSION 5.4 ;\n"),
                _ => {}
            }
            if case.block_layers == 0 {
                text.push_str("NAMESCASESENSITIVE ON ;\n");
            }
            text.push_str("UNITS DATABASE MICRONS 2000 ; END UNITS\n");
            let nm = if case.two_cells { 2 } else { 1 };
            for m in 0..nm {
                text.push_str(&format!("MACRO cell{m}\n CLASS BLOCK ;\n"));
                if case.two_ports {
                    text.push_str(" SOURCE USER ;\n");
                }
                text.push_str(" SIZE 2.0 BY 3.0 ;\n PIN a\n  DIRECTION INPUT ;\n  PORT\n   LAYER met1 ;\n    RECT 0.1 0.1 0.5 0.5 ;\n   LAYER met2 ;\n    RECT 0.2 0.2 0.6 0.6 ;\n  END\n END a\n");
                if case.two_shapes {
                    text.push_str(" OBS\n  LAYER met1 ;\n   RECT 1.0 1.0 1.5 1.5 ;\n END\n");
                }
                text.push_str(&format!("END cell{m}\n"));
            }
            if case.block_layers != 2 {
                text.push_str("END LIBRARY\n");
            }
            let path = SCRATCH.with(|s| s.borrow().clone()).unwrap_or_else(|| format!("/dev/shm/l21mc-c20-{}.lef", std::process::id()));
            std::fs::write(&path, text.as_bytes()).map_err(|x| format!("MACHINERY: scratch file {path}: {x}"))?;
            let parsed = lef21::LefLibrary::open(&path);
            let _ = std::fs::remove_file(&path);
            let l0 = match parsed {
                Ok(l) => l,
                Err(x) => return Ok((vec![], format!("read Err: {x}"))),
            };
            let lib = match raw::lef::LefImporter::import(&l0, None) {
                Ok(l) => l,
                Err(x) => return Ok((vec![], format!("import Err: {x:?} / {x}"))),
            };
            match raw::lef::LefExporter::export(&lib) {
                Ok(l) => Ok((vec![], format!("{}\n{}", dump_raw(&lib), serde_json::to_string(&l).map_err(|x| x.to_string())?))),
                Err(x) => Ok((vec![], format!("{}\nexport Err: {x:?} / {x}", dump_raw(&lib)))),
            }
        }
        _ => {
            // raw -> gds -> raw
            let lib0 = build_raw(case);
            let sig = map_orders(&lib0);
            let g = lib0.to_gds().map_err(e)?;
            let lib = Library::from_gds(&g, None).map_err(e)?;
            Ok((sig, dump_raw(&lib)))
        }
    }
}

fn case_from_args(args: &[String]) -> Case {
    let v: Vec<usize> = args.iter().map(|a| a.parse().expect("MACHINERY: aux arg")).collect();
    Case { conv: v[0], port_layers: v[1], block_layers: v[2], two_ports: v[3] == 1, two_shapes: v[4] == 1, perm: v[5], two_cells: v[6] == 1, dup_layer_nums: v[7] == 1 }
}
fn case_args(c: &Case) -> Vec<String> {
    vec![c.conv, c.port_layers, c.block_layers, c.two_ports as usize, c.two_shapes as usize, c.perm, c.two_cells as usize, c.dup_layer_nums as usize].iter().map(|x| x.to_string()).collect()
}

/// fresh-process entry: one conversion, print the hash of the output
pub fn aux(args: &[String]) -> String {
    let case = case_from_args(args);
    match guard(|| convert_once(&case)) {
        Ok(Ok((_, out))) => format!("ok {:016x}", hash_bytes(out.as_bytes())),
        Ok(Err(e)) => format!("err {}", truncate(&e, 100)),
        Err(p) => format!("panic {}", p.short()),
    }
}

fn factorial(n: usize) -> usize {
    (1..=n).product::<usize>().max(1)
}

impl CaseDriver for C20 {
    type Case = Case;
    fn id(&self) -> &'static str {
        "C20"
    }
    fn describe(&self, _tier: Tier) -> Describe {
        Describe {
            rule: "inputs: raw libraries with 1-2 abstract cells whose 1-2 ports carry shapes on 1-3 layers and whose blockages sit on 0/2/3 layers (unordered maps with 1-3 keys, every insertion order), 1-2 shapes per layer, plus a layout cell with elements on 3 layers x 2 purposes, an annotation and a reflected+rotated instance; LEF / protobuf / GDSII inputs derived from them in a fixed order. Conversions: raw->GDSII (bytes, dates pinned), raw->protobuf (prost bytes), raw->LEF (serde_json), LEF->raw->LEF, protobuf->raw->protobuf, GDSII->raw, raw->GDSII->raw, LEF text (no VERSION / 5.8 / 5.4, with or without END LIBRARY, with or without statements only versions <= 5.4 allow; a reader error is a result like any other)->raw->LEF, gridded layout->raw (raw results as an order-preserving dump; the gridded cell optionally holds two instances abutting along the tracks; a parent-first library whose top cell also holds five array instances; and a cell with two port-relative net assignments on instances whose heap addresses swap between rebuilds), and two conversions whose result is an error - GDSII->raw on struct rings of 2..4 closed by SREF / AREF (optionally a second ring, either listing order) or on four to nine structs one of whose names is defined twice (optionally with a reference that matches two structs only up to letter case), raw->protobuf on cell rings, raw->GDSII / raw->protobuf of an element whose layer does not define its purpose, raw->protobuf of an unnamed instance rotated by 22.5 degrees, LEF->raw->LEF with a supplied layer that has no name of its own and is indexed under 2..3 names the LEF uses, and gridded layout->raw of a cut lying under an instance / of two overlapping cuts - where the rendered error is the compared output. Configurations: every input is rebuilt / re-imported with fresh HashMaps until each of the k! iteration orders of every map the exporter walks has been observed on the very map objects (minimum 32, cap 4096 rebuilds; coverage measured and reported as tags), plus fresh OS processes, plus the same input once more after each of three *other* inputs went through the same conversion in the same process (no state carried from one library to the next); conversions that expose no map (GDSII->raw) are repeated 32 times - unordered containers internal to a converter cannot be enumerated, only exercised. Two of the three layers may share a layer number, and then the other layers also define each purpose under two numbers and every layer defines an outline purpose; raw->GDSII also with all layers unnamed. A state is (input, conversion); non-trivial = some map has >= 2 keys.".into(),
            assumptions: vec!["an unordered map in the raw data model itself is rendered sorted (a map has no order); every ordered container must keep its order".into()],
            excluded: vec!["gridded layout -> raw is exercised on three stacks x a few cells only (the C08 alphabet is not re-enumerated here)".into()],
            technique: "exhaustive enumeration of hash-map iteration orders (observed on the real map objects) x inputs x conversions; outputs compared byte-for-byte within and across processes".into(),
        }
    }
    fn bound(&self, tier: Tier) -> usize {
        tier.pick(2, 7)
    }
    fn gen(&self, _tier: Tier, c: &mut Chooser) -> Case {
        let conv = c.free(CONVS.len(), "conversion");
        let port_layers = [3, 2, 1][c.cost(3, "port-layers")];
        let block_layers = [3, 2, 0][c.cost(3, "block-layers")];
        let two_ports = c.cost(2, "two-ports") == 1;
        let two_shapes = c.cost(2, "two-shapes") == 1;
        let perm = c.cost(6, "insertion-order");
        let two_cells = c.cost(2, "two-cells") == 1;
        let dup_layer_nums = c.cost(2, "duplicate-layer-numbers") == 1;
        Case { conv, port_layers, block_layers, two_ports, two_shapes, perm, two_cells, dup_layer_nums }
    }
    fn check(&self, case: &Case, key: &str, cx: &mut Cx) {
        let nontrivial = case.port_layers >= 2 || case.block_layers >= 2;
        cx.state(hash_debug(case), nontrivial);
        cx.tag(CONVS[case.conv]);
        SCRATCH.with(|s| *s.borrow_mut() = Some(cx.scratch_file("c20.lef")));
        let cap = 4096usize;
        let mut first: Option<String> = None;
        let mut seen: BTreeMap<String, BTreeSet<Vec<i16>>> = BTreeMap::new();
        let mut rebuilds = 0usize;
        let mut complete = false;
        while rebuilds < cap {
            rebuilds += 1;
            cx.stats.evaluations += 1;
            let r = guard(|| convert_once(case));
            let (sig, out) = match r {
                Err(p) => {
                    cx.outcome("panic");
                    cx.fail(key, "conversion-panic", None, || format!("{}: {}", CONVS[case.conv], p.short()), || json!(format!("{case:?}")));
                    return;
                }
                Ok(Err(e)) => {
                    cx.outcome("conversion-error");
                    cx.fail(key, "conversion-error", None, || format!("{}: conversion of a well-formed input failed: {}", CONVS[case.conv], truncate(&e, 200)), || json!(format!("{case:?}")));
                    return;
                }
                Ok(Ok(x)) => x,
            };
            for (name, order) in &sig {
                seen.entry(name.clone()).or_default().insert(order.clone());
            }
            match &first {
                None => first = Some(out),
                Some(f) => {
                    if *f != out {
                        cx.outcome("differs-within-process");
                        let pos = f.bytes().zip(out.bytes()).position(|(a, b)| a != b).unwrap_or(f.len().min(out.len()));
                        cx.fail(
                            key,
                            &format!("nondeterministic:{}", CONVS[case.conv]),
                            None,
                            || format!("{}: rebuild {} of the same input (map iteration orders {:?}) gives a different output (first difference at offset {pos})", CONVS[case.conv], rebuilds, sig),
                            || json!({"case": format!("{case:?}"), "map_orders": format!("{sig:?}"), "first": truncate(f, 600), "other": truncate(&out, 600)}),
                        );
                        return;
                    }
                }
            }
            complete = seen.iter().all(|(_, s)| {
                let k = s.iter().next().map(|o| o.len()).unwrap_or(0);
                s.len() >= factorial(k)
            });
            // conversions that walk no map visible through the API may still use unordered containers
            // internally: those cannot be enumerated, only exercised (32 rebuilds + fresh processes)
            let min_rebuilds = 32;
            if complete && rebuilds >= min_rebuilds {
                break;
            }
        }
        // the same input again after *other* inputs went through the same conversion in this process (a converter
        // must not carry state from one library to the next)
        {
            let others = [
                Case { dup_layer_nums: !case.dup_layer_nums, ..case.clone() },
                Case { perm: (case.perm + 1) % 6, port_layers: 1 + case.port_layers % 3, ..case.clone() },
                Case { two_ports: !case.two_ports, two_shapes: !case.two_shapes, ..case.clone() },
            ];
            for o in &others {
                cx.stats.evaluations += 2;
                let _ = guard(|| convert_once(o));
                match guard(|| convert_once(case)) {
                    Ok(Ok((_, out))) => {
                        if Some(&out) != first.as_ref() {
                            cx.outcome("differs-after-another-input");
                            cx.fail(
                                key,
                                &format!("state-carried-over:{}", CONVS[case.conv]),
                                None,
                                || format!("{}: converting this input again after another input ({o:?}) was converted gives a different output", CONVS[case.conv]),
                                || json!({"case": format!("{case:?}"), "other": format!("{o:?}"), "first": truncate(first.as_ref().unwrap(), 600), "again": truncate(&out, 600)}),
                            );
                            return;
                        }
                    }
                    Ok(Err(e)) => {
                        cx.fail(key, "conversion-error", None, || format!("{}: conversion failed when repeated after another input: {}", CONVS[case.conv], truncate(&e, 200)), || json!(format!("{case:?}")));
                        return;
                    }
                    Err(p) => {
                        cx.fail(key, "conversion-panic", None, || format!("{}: {}", CONVS[case.conv], p.short()), || json!(format!("{case:?}")));
                        return;
                    }
                }
            }
            cx.tag("interleaved-with-other-inputs");
        }
        if !complete {
            cx.tag("order-coverage-incomplete");
            cx.machinery(format!("C20: could not observe all map iteration orders within {cap} rebuilds for {case:?}"));
        } else {
            cx.tag("order-coverage-complete");
        }
        let maxk = seen.values().filter_map(|s| s.iter().next().map(|o| o.len())).max().unwrap_or(0);
        cx.tag(&format!("maps-with-up-to-{maxk}-keys"));
        cx.tag_n("rebuilds", rebuilds as u64);
        // fresh OS processes
        let nproc = cx.tier.pick(2, 4);
        let want = format!("ok {:016x}", hash_bytes(first.as_ref().unwrap().as_bytes()));
        for _ in 0..nproc {
            cx.stats.evaluations += 1;
            match crate::sandbox::run_aux("C20", &case_args(case)) {
                Ok(got) => {
                    if got != want {
                        cx.outcome("differs-across-processes");
                        cx.fail(
                            key,
                            &format!("nondeterministic-across-processes:{}", CONVS[case.conv]),
                            None,
                            || format!("{}: a fresh process produced {got}, this process {want}", CONVS[case.conv]),
                            || json!(format!("{case:?}")),
                        );
                        return;
                    }
                }
                Err(e) => {
                    cx.machinery(format!("C20 aux process failed: {e}"));
                    return;
                }
            }
        }
        cx.tag("cross-process");
        cx.outcome("identical");
    }
    fn render(&self, case: &Case) -> Value {
        json!({"conversion": CONVS[case.conv], "port_layers": case.port_layers, "blockage_layers": case.block_layers, "two_ports": case.two_ports, "two_shapes_per_layer": case.two_shapes, "layer_insertion_order": PERMS3[case.perm % 6], "two_abstract_cells_or_top_first": case.two_cells, "two_layers_share_a_number": case.dup_layer_nums})
    }
    fn guards(&self, _tier: Tier, stats: &Stats, _d: u64) -> Result<(), String> {
        require_tags(stats, &CONVS)?;
        require_tags(stats, &["order-coverage-complete", "maps-with-up-to-3-keys", "cross-process", "interleaved-with-other-inputs"])?;
        if stats.tags.get("order-coverage-incomplete").copied().unwrap_or(0) > 0 {
            return Err("map-order coverage incomplete for some input".into());
        }
        Ok(())
    }
    fn unit_target(&self, _t: Tier) -> usize {
        256
    }
}

pub fn driver() -> Box<dyn Driver> {
    Box::new(ByCase(C20))
}
