//! C16 — importing LEF into the raw model keeps every coordinate in place.
//!
//! Choice-driven: `LefLibrary` values built directly (independent of the LEF reader); every coordinate a
//! `Decimal::new(mantissa, scale)` with x != y everywhere; oracle scales the decimal digits exactly.

use crate::core::*;
use crate::explore::Chooser;
use layout21raw as raw;
use lef21::{LefDecimal, LefGeometry, LefLayerGeometries, LefLibrary, LefMacro, LefPin, LefPoint, LefPort, LefShape};
use serde_json::{json, Value};

pub struct C16;

/// A decimal given by its digits; `want` is value * 10^4 when that is an integer.
#[derive(Clone, Debug)]
pub struct Dec {
    pub mant: i64,
    pub scale: u32,
}
impl Dec {
    fn lef(&self) -> LefDecimal {
        LefDecimal::new(self.mant, self.scale)
    }
    /// exact value * 10^4, on the digits
    fn scaled(&self) -> Option<i64> {
        if self.scale <= 4 {
            Some(self.mant * 10i64.pow(4 - self.scale))
        } else {
            let d = 10i64.pow(self.scale - 4);
            if self.mant % d == 0 {
                Some(self.mant / d)
            } else {
                None
            }
        }
    }
    fn text(&self) -> String {
        self.lef().to_string()
    }
}

#[derive(Clone, Debug)]
pub enum GShape {
    Rect(Dec, Dec, Dec, Dec),
    Polygon(Vec<(Dec, Dec)>),
    Path(Vec<(Dec, Dec)>),
}
#[derive(Clone, Debug)]
pub struct GLayer {
    pub layer: String,
    pub width: Option<Dec>,
    pub shapes: Vec<GShape>,
    /// the block also holds a `VIA x y name ;` placement (which the importer leaves out, with a warning)
    pub via: bool,
}
#[derive(Clone, Debug)]
pub struct GPin {
    pub name: String,
    pub ports: Vec<Vec<GLayer>>,
}
#[derive(Clone, Debug)]
pub struct GMacro {
    pub name: String,
    pub size: (Dec, Dec),
    /// ORIGIN statement of the macro (whole raw units); it does not move the pin / obstruction coordinates
    pub origin: Option<(Dec, Dec)>,
    pub pins: Vec<GPin>,
    pub obs: Vec<GLayer>,
}
#[derive(Clone, Debug)]
pub struct Case {
    pub macros: Vec<GMacro>,
    /// UNITS DATABASE MICRONS value, if the library states one
    pub dbu: Option<u32>,
    /// the caller supplies a layer set: it already knows `m1` and `via` (sharing layer number 68), `M1` (69) and a
    /// layer `other`; the LEF's remaining layer names are new to it
    pub supplied_layers: bool,
    /// MANUFACTURINGGRID statement of the library (mantissa, scale), if any: it does not change what a raw unit is
    pub grid: Option<(i64, u32)>,
}

const LAYERS: [&str; 5] = ["m1", "M1", "via", "boundary", "\u{e9}"];

struct Gen<'a> {
    c: &'a mut Chooser,
    site: i64,
}
impl<'a> Gen<'a> {
    /// one coordinate site: witness values differ from every other site (so x != y everywhere and
    /// crossed / dropped coordinates are visible)
    fn coord(&mut self, allow_neg: bool) -> Dec {
        self.site += 1;
        let k = self.site;
        let alt = self.c.cost(18, "coord");
        match alt {
            0 => Dec { mant: 15 + 10 * k, scale: 1 },          // 1.5 + k
            1 => Dec { mant: 2 + k, scale: 0 },                // integer
            2 => Dec { mant: (15 + 10 * k) * 10, scale: 2 },   // trailing zero: 2.50
            3 => Dec { mant: 12345 + k, scale: 4 },            // four places
            4 => {
                if allow_neg {
                    Dec { mant: -(25 + 10 * k), scale: 1 }     // negative
                } else {
                    Dec { mant: 35 + 10 * k, scale: 1 }
                }
            }
            5 => Dec { mant: 30000 + 10 * k, scale: 5 },       // 0.30000 + : five places, representable
            6 => Dec { mant: 1_500_000 + 100 * k, scale: 6 },  // six places, representable
            7 => Dec { mant: 1 + 10 * k, scale: 5 },           // 0.00001: not a whole number of 1e-4 um
            8 => Dec { mant: 15 + 100 * k, scale: 6 },         // 0.000015: not representable
            9 => Dec { mant: 0, scale: 0 },
            10 => Dec { mant: 0, scale: 3 },                   // 0.000
            11 => {
                // negative and not a whole number of raw units (sign-dependent remainder handling)
                if allow_neg {
                    Dec { mant: -(1 + 10 * k), scale: 5 }
                } else {
                    Dec { mant: 3 + 10 * k, scale: 5 }
                }
            }
            // beyond 2^31 raw units (214748.3648 um and more): whole numbers of units all the same
            16 => Dec { mant: 2_147_483_648 + 10 * k, scale: 4 },
            17 => {
                if allow_neg {
                    Dec { mant: -(3_000_005 + 10 * k), scale: 1 }
                } else {
                    Dec { mant: 3_000_005 + 10 * k, scale: 1 }
                }
            }
            // non-zero but smaller than one raw unit (nothing left after truncation): still not a whole number of units
            14 => Dec { mant: 5, scale: 5 },
            15 => {
                if allow_neg {
                    Dec { mant: -99, scale: 6 }
                } else {
                    Dec { mant: 99, scale: 6 }
                }
            }
            13 => {
                // strictly between -1 and 0 (no integer part to carry the sign), a whole number of raw units
                if allow_neg {
                    Dec { mant: -(1000 + 7 * k), scale: 4 }
                } else {
                    Dec { mant: 1000 + 7 * k, scale: 4 }
                }
            }
            _ => {
                if allow_neg {
                    Dec { mant: -(1_234_567 + 1000 * k), scale: 6 } // -1.234567: negative, fraction beyond 1e-4
                } else {
                    Dec { mant: 1_234_567 + 1000 * k, scale: 6 }
                }
            }
        }
    }
    fn shape(&mut self, kind: usize) -> GShape {
        match kind {
            0 => GShape::Rect(self.coord(true), self.coord(true), self.coord(true), self.coord(true)),
            1 => {
                // four-point polygons whose points share coordinates (everywhere else all sites differ): a right
                // trapezoid listed vertical edge first / horizontal edge first (three axis-parallel edges, the closing
                // one oblique), an axis-parallel rectangle listed either way - all stay four-point polygons
                let form = self.c.cost(5, "polygon-shares-coordinates");
                if form > 0 {
                    let (a, b, x3) = (self.coord(true), self.coord(true), self.coord(true));
                    let (c0, d, e) = (self.coord(true), self.coord(true), self.coord(true));
                    let v = match form {
                        1 => vec![(a.clone(), c0), (a, d.clone()), (b.clone(), d), (b, e)],
                        2 => vec![(a, c0.clone()), (b.clone(), c0), (b, d.clone()), (x3, d)],
                        3 => vec![(a.clone(), c0.clone()), (a, d.clone()), (b.clone(), d), (b, c0)],
                        _ => vec![(a.clone(), c0.clone()), (b.clone(), c0), (b, d.clone()), (a, d)],
                    };
                    return GShape::Polygon(v);
                }
                let n = 3 + self.c.cost(3, "poly-extra-points");
                let mut v: Vec<(Dec, Dec)> = (0..n).map(|_| (self.coord(true), self.coord(true))).collect();
                // an explicitly closed polygon repeats its first point at the end
                if self.c.cost(2, "polygon-explicitly-closed") == 1 {
                    v.push(v[0].clone());
                }
                GShape::Polygon(v)
            }
            _ => {
                let n = 2 + self.c.cost(3, "path-extra-points");
                let mut v: Vec<(Dec, Dec)> = (0..n).map(|_| (self.coord(true), self.coord(true))).collect();
                // a ring path returns to its first point (out-and-back stub for 2 points)
                // or states a point twice in a row: the first one digit for digit, or the last one with one more
                // trailing zero on both numbers (a path keeps every point it is given)
                match self.c.cost(4, "path-returns-to-start") {
                    1 => v.push(v[0].clone()),
                    2 => v.insert(1, v[0].clone()),
                    3 => {
                        let l = v[v.len() - 1].clone();
                        v.push((Dec { mant: l.0.mant * 10, scale: l.0.scale + 1 }, Dec { mant: l.1.mant * 10, scale: l.1.scale + 1 }));
                    }
                    _ => {}
                }
                GShape::Path(v)
            }
        }
    }
    fn layer(&mut self, first_kind: Option<usize>) -> GLayer {
        let layer = LAYERS[self.c.cost(LAYERS.len(), "layer-name")].to_string();
        let mut shapes = vec![];
        let k0 = match first_kind {
            Some(k) => k,
            None => self.c.cost(3, "shape-kind"),
        };
        shapes.push(self.shape(k0));
        match self.c.cost(5, "second-shape") {
            0 => {}
            1 => {
                let k = self.c.cost(3, "shape-kind");
                shapes.push(self.shape(k));
            }
            // the first shape stated a second time: digit for digit / with one more trailing zero everywhere / with
            // the same digits and the decimal point one place further left (a tenth of every value: other numbers
            // that happen to share their digit strings with earlier ones)
            alt => {
                let again = |d: &Dec| match alt {
                    2 => d.clone(),
                    3 => Dec { mant: d.mant * 10, scale: d.scale + 1 },
                    _ => Dec { mant: d.mant, scale: d.scale + 1 },
                };
                let twin = match &shapes[0] {
                    GShape::Rect(a, b, c, d) => GShape::Rect(again(a), again(b), again(c), again(d)),
                    GShape::Polygon(v) => GShape::Polygon(v.iter().map(|(x, y)| (again(x), again(y))).collect()),
                    GShape::Path(v) => GShape::Path(v.iter().map(|(x, y)| (again(x), again(y))).collect()),
                };
                shapes.push(twin);
            }
        }
        let has_path = shapes.iter().any(|s| matches!(s, GShape::Path(_)));
        let width = if has_path { Some(self.coord(false)) } else { None };
        let via = self.c.cost(2, "layer-via-placement") == 1;
        GLayer { layer, width, shapes, via }
    }
    fn pin(&mut self, idx: usize, first_kind: Option<usize>) -> GPin {
        let mut ports = vec![];
        let nports = 1 + self.c.cost(2, "second-port");
        for p in 0..nports {
            let mut layers = vec![];
            let nl = 1 + self.c.cost(2, "second-port-layer");
            for l in 0..nl {
                layers.push(self.layer(if p == 0 && l == 0 { first_kind } else { None }));
            }
            ports.push(layers);
        }
        GPin { name: format!("P{idx}"), ports }
    }
    fn makro(&mut self, idx: usize, first_kind: Option<usize>) -> GMacro {
        let size = (self.coord(false), self.coord(false));
        let npins = match self.c.cost(3, "pins") {
            0 => 1,
            1 => 0,
            _ => 2,
        };
        let mut pins = vec![];
        for p in 0..npins {
            pins.push(self.pin(p, if p == 0 { first_kind } else { None }));
        }
        let nobs = self.c.cost(3, "obs-layers");
        let mut obs = vec![];
        for o in 0..nobs {
            let mut l = self.layer(None);
            if o == 1 && self.c.cost(2, "obs-same-layer") == 1 {
                l.layer = obs[0_usize..1].iter().map(|x: &GLayer| x.layer.clone()).next().unwrap();
            }
            obs.push(l);
        }
        let origin = match self.c.cost(3, "macro-origin") {
            0 => None,
            1 => Some((Dec { mant: 5, scale: 1 }, Dec { mant: 125, scale: 2 })),
            _ => Some((Dec { mant: -2, scale: 0 }, Dec { mant: 0, scale: 0 })),
        };
        GMacro { name: format!("MAC{idx}"), size, origin, pins, obs }
    }
}

fn lef_shape(s: &GShape) -> LefShape {
    match s {
        GShape::Rect(a, b, c, d) => LefShape::Rect(None, LefPoint::new(a.lef(), b.lef()), LefPoint::new(c.lef(), d.lef())),
        GShape::Polygon(p) => LefShape::Polygon(None, p.iter().map(|(x, y)| LefPoint::new(x.lef(), y.lef())).collect()),
        GShape::Path(p) => LefShape::Path(None, p.iter().map(|(x, y)| LefPoint::new(x.lef(), y.lef())).collect()),
    }
}
fn lef_layer(l: &GLayer) -> LefLayerGeometries {
    LefLayerGeometries {
        layer_name: l.layer.clone(),
        geometries: l.shapes.iter().map(|s| LefGeometry::Shape(lef_shape(s))).collect(),
        width: l.width.as_ref().map(|w| w.lef()),
        vias: if l.via { vec![lef21::LefVia { via_name: "M1M2".into(), pt: LefPoint::new(LefDecimal::new(5, 1), LefDecimal::new(5, 1)) }] } else { vec![] },
        ..Default::default()
    }
}
pub fn to_lef(case: &Case) -> LefLibrary {
    let mut lib = LefLibrary::default();
    if let Some(d) = case.dbu {
        lib.units = Some(lef21::LefUnits { database_microns: Some(lef21::LefDbuPerMicron(d)), ..Default::default() });
    }
    if let Some((m, sc)) = case.grid {
        lib.manufacturing_grid = Some(LefDecimal::new(m, sc));
    }
    for m in &case.macros {
        let mut lm = LefMacro::new(m.name.clone());
        lm.size = Some((m.size.0.lef(), m.size.1.lef()));
        lm.origin = m.origin.as_ref().map(|(x, y)| LefPoint::new(x.lef(), y.lef()));
        for p in &m.pins {
            let mut lp = LefPin::default();
            lp.name = p.name.clone();
            for port in &p.ports {
                let mut lport = LefPort::default();
                lport.layers = port.iter().map(lef_layer).collect();
                lp.ports.push(lport);
            }
            lm.pins.push(lp);
        }
        lm.obs = m.obs.iter().map(lef_layer).collect();
        lib.macros.push(lm);
    }
    lib
}

/// canonical expected shape: kind, points, width
#[derive(Clone, Debug, PartialEq, Eq, PartialOrd, Ord)]
pub struct XShape {
    kind: u8,
    pts: Vec<(i64, i64)>,
    width: i64,
}
/// None => some coordinate is not a whole number of raw units (Err expected)
fn expect_shape(s: &GShape, width: &Option<Dec>) -> Option<XShape> {
    let p = |x: &Dec, y: &Dec| -> Option<(i64, i64)> { Some((x.scaled()?, y.scaled()?)) };
    Some(match s {
        GShape::Rect(a, b, c, d) => XShape { kind: 0, pts: vec![p(a, b)?, p(c, d)?], width: 0 },
        GShape::Polygon(v) => XShape { kind: 1, pts: v.iter().map(|(x, y)| p(x, y)).collect::<Option<Vec<_>>>()?, width: 0 },
        GShape::Path(v) => XShape { kind: 2, pts: v.iter().map(|(x, y)| p(x, y)).collect::<Option<Vec<_>>>()?, width: width.as_ref()?.scaled()? },
    })
}
fn got_shape(s: &raw::Shape) -> XShape {
    let q = |p: &raw::Point| (p.x as i64, p.y as i64);
    match s {
        raw::Shape::Rect(r) => XShape { kind: 0, pts: vec![q(&r.p0), q(&r.p1)], width: 0 },
        raw::Shape::Polygon(p) => XShape { kind: 1, pts: p.points.iter().map(q).collect(), width: 0 },
        raw::Shape::Path(p) => XShape { kind: 2, pts: p.points.iter().map(q).collect(), width: p.width as i64 },
    }
}

/// expected per-layer-name shape lists, in LEF order; None if an Err is required
fn expect_layers(layers: &[&GLayer]) -> Option<Vec<(String, Vec<XShape>)>> {
    let mut out: Vec<(String, Vec<XShape>)> = vec![];
    for l in layers {
        let mut shapes = vec![];
        for s in &l.shapes {
            shapes.push(expect_shape(s, &l.width)?);
        }
        if let Some(e) = out.iter_mut().find(|(n, _)| *n == l.layer) {
            e.1.extend(shapes);
        } else {
            out.push((l.layer.clone(), shapes));
        }
    }
    out.sort();
    Some(out)
}

fn got_layers(map: &std::collections::HashMap<raw::LayerKey, Vec<raw::Shape>>, layers: &raw::Layers) -> Vec<(String, Vec<XShape>)> {
    let mut out: Vec<(String, Vec<XShape>)> = map
        .iter()
        .map(|(k, v)| (layers.get_name(*k).cloned().unwrap_or_else(|| "<unnamed layer>".into()), v.iter().map(got_shape).collect()))
        .collect();
    out.sort();
    out
}

fn class_of(case: &Case) -> (&'static str, bool) {
    // (input class used for finding predicates, any non-representable)
    let mut unrep = false;
    let mut visit = |d: &Dec| {
        if d.scaled().is_none() {
            unrep = true;
        }
    };
    for m in &case.macros {
        visit(&m.size.0);
        visit(&m.size.1);
        let all: Vec<&GLayer> = m.pins.iter().flat_map(|p| p.ports.iter().flatten()).chain(m.obs.iter()).collect();
        for l in all {
            if let Some(w) = &l.width {
                visit(w);
            }
            for s in &l.shapes {
                match s {
                    GShape::Rect(a, b, c, d) => {
                        visit(a);
                        visit(b);
                        visit(c);
                        visit(d);
                    }
                    GShape::Polygon(v) | GShape::Path(v) => {
                        for (x, y) in v {
                            visit(x);
                            visit(y);
                        }
                    }
                }
            }
        }
    }
    ("lef", unrep)
}

impl CaseDriver for C16 {
    type Case = Case;
    fn id(&self) -> &'static str {
        "C16"
    }
    fn describe(&self, tier: Tier) -> Describe {
        Describe {
            rule: format!(
                "LefLibrary values built directly: 1-2 macros with SIZE, 0-2 pins x 1-2 ports x 1-2 layer geometries, 0-2 obstruction layers (second optionally on the same layer => merged), 1-2 geometries per layer of kind RECT / POLYGON (3-5 points) / PATH (2-3 points, layer WIDTH), the second one optionally the first one stated again (digit for digit, with one more trailing zero on every number, or with the same digits and the decimal point moved one place: still two shapes), layer names from {{m1, M1, via, boundary, e-acute}}, a layer block optionally holding a VIA placement next to its shapes, the import optionally given a layer set that already knows m1 and via (sharing number 68), M1 and an unrelated layer; polygons optionally closed explicitly, or of four points sharing coordinates (right trapezoid listed vertical or horizontal edge first, axis-parallel rectangle listed either way), and paths optionally returning to their first point or stating a point twice in a row (digit for digit, or with one more trailing zero); UNITS DATABASE MICRONS absent / 1000 / 100 / 2000 / 10000 / 20000 (raw units stay 1e-4 um: the import declares Angstrom); the library optionally states MANUFACTURINGGRID 0.005 / 0.00005 / 1 (which does not change what a raw unit is); the macro optionally has an ORIGIN statement ((0.5, 1.25) / (-2, 0)), which must not move any coordinate; every coordinate site takes one of 18 decimals Decimal::new(mantissa, scale) built from the site counter (so all sites differ: x != y everywhere): scale 0,1,2,4,5,6, negative, negative between -1 and 0, trailing zeros, zero spelled 0 and 0.000, four values (two positive, two negative) that are not a whole number of 1e-4 um, two non-zero values smaller than one such unit (0.00005, -0.000099), and two values beyond 2^31 raw units (214748.3648.., -300000.5..). Free: kind of the first shape and second macro; all other choices cost one deviation; all choice sequences with <= {} deviations. A state is one library value; non-trivial = at least one deviation. Oracle: value*10^4 computed on the decimal digits.",
                self.bound(tier)
            ),
            assumptions: vec!["WIDTH is only generated on layers that hold a PATH (an unused non-representable WIDTH is not a coordinate of any shape)".into()],
            excluded: vec!["statements the importer documents as unsupported (EXCEPTPGNET, non-zero SPACING, ITERATE) and macros without SIZE; VIA placements inside a layer block are left out by the importer, the block's shapes are still required".into()],
            technique: "deviation-bounded exhaustive enumeration of LEF library values on the real LefImporter vs exact decimal-digit scaling".into(),
        }
    }
    fn bound(&self, tier: Tier) -> usize {
        tier.pick(2, 3)
    }
    fn gen(&self, _tier: Tier, c: &mut Chooser) -> Case {
        let first_kind = c.free(3, "first-shape-kind");
        let two = c.free(2, "second-macro") == 1;
        let dbu = [None, Some(1000u32), Some(100), Some(2000), Some(10_000), Some(20_000)][c.cost(6, "units-database-microns")];
        let mut g = Gen { c, site: 0 };
        let mut macros = vec![g.makro(0, Some(first_kind))];
        if two {
            macros.push(g.makro(1, None));
        }
        let supplied_layers = g.c.cost(2, "caller-supplied-layers") == 1;
        let grid = [None, Some((5, 3)), Some((5, 5)), Some((1, 0))][g.c.cost(4, "manufacturing-grid")];
        Case { macros, dbu, supplied_layers, grid }
    }
    fn check(&self, case: &Case, key: &str, cx: &mut Cx) {
        let (_, unrep) = class_of(case);
        let leflib = to_lef(case);
        cx.state(hash_debug(case), key.contains(|c: char| c != '0' && c != '.'));
        for m in &case.macros {
            for l in m.pins.iter().flat_map(|p| p.ports.iter().flatten()).chain(m.obs.iter()) {
                cx.tag(&format!("layer:{}", l.layer));
                for s in &l.shapes {
                    cx.tag(match s {
                        GShape::Rect(..) => "rect",
                        GShape::Polygon(_) => "polygon",
                        GShape::Path(_) => "path",
                    });
                }
            }
            if m.obs.len() == 2 && m.obs[0].layer == m.obs[1].layer {
                cx.tag("obs-merged");
            }
            if m.pins.iter().any(|p| p.ports.len() == 2) {
                cx.tag("two-ports");
            }
        }
        let supplied = if case.supplied_layers {
            let mut ls = raw::Layers::default();
            for (n, name) in [(68i16, "m1"), (68, "via"), (69, "M1"), (3, "other")] {
                ls.add(raw::Layer::new(n, name));
            }
            cx.tag("caller-supplied-layers");
            Some(raw::utils::Ptr::new(ls))
        } else {
            None
        };
        let res = guard(|| raw::lef::LefImporter::import(&leflib, supplied).map_err(|e| format!("{e:?}")));
        let render = || json!({"macros": format!("{:?}", case.macros)});
        match res {
            Err(p) => {
                cx.outcome("panic");
                cx.fail(key, "import-panic", None, || p.short(), render)
            }
            Ok(Err(e)) => {
                if unrep {
                    cx.outcome("err-not-whole-units");
                } else {
                    cx.outcome("spurious-error");
                    cx.fail(key, "import-spurious-error", None, || format!("import failed although every coordinate is a whole number of raw units: {}", truncate(&e, 200)), render);
                }
            }
            Ok(Ok(lib)) => {
                if unrep {
                    cx.outcome("rounded-instead-of-error");
                    cx.fail(key, "import-accepts-fractional-units", None, || "a coordinate that is not a whole number of 1e-4 um was imported instead of being reported as an error".into(), render);
                    return;
                }
                let layers = lib.layers.read().unwrap();
                let mut why: Option<(String, String)> = None;
                if lib.units != raw::Units::Angstrom {
                    why = Some(("units".into(), format!("units {:?}", lib.units)));
                }
                if lib.cells.len() != case.macros.len() {
                    why = Some(("cell-count".into(), format!("{} cells for {} macros", lib.cells.len(), case.macros.len())));
                }
                if why.is_none() {
                    for (i, m) in case.macros.iter().enumerate() {
                        let cell = lib.cells[i].read().unwrap();
                        let abs = match &cell.abs {
                            Some(a) => a,
                            None => {
                                why = Some(("no-abstract".into(), format!("cell {} has no abstract", cell.name)));
                                break;
                            }
                        };
                        if cell.name != m.name || abs.name != m.name {
                            why = Some(("name".into(), format!("cell named {} for macro {}", cell.name, m.name)));
                            break;
                        }
                        let (sx, sy) = (m.size.0.scaled().unwrap(), m.size.1.scaled().unwrap());
                        let want_outline = vec![(0, 0), (sx, 0), (sx, sy), (0, sy)];
                        let got_outline: Vec<(i64, i64)> = abs.outline.points.iter().map(|p| (p.x as i64, p.y as i64)).collect();
                        if got_outline != want_outline {
                            why = Some(("outline".into(), format!("macro {} SIZE {} BY {}: outline {:?}, want {:?}", m.name, m.size.0.text(), m.size.1.text(), got_outline, want_outline)));
                            break;
                        }
                        if abs.ports.len() != m.pins.len() {
                            why = Some(("port-count".into(), format!("{} ports for {} pins", abs.ports.len(), m.pins.len())));
                            break;
                        }
                        for (pi, pin) in m.pins.iter().enumerate() {
                            let port = &abs.ports[pi];
                            let ls: Vec<&GLayer> = pin.ports.iter().flatten().collect();
                            let want = expect_layers(&ls).unwrap();
                            let got = got_layers(&port.shapes, &layers);
                            if port.net != pin.name {
                                why = Some(("pin-name".into(), format!("port net {} for pin {}", port.net, pin.name)));
                            } else if got != want {
                                why = Some(("pin-shapes".into(), format!("pin {} of {}: got {:?}, want {:?}", pin.name, m.name, got, want)));
                            }
                        }
                        if why.is_some() {
                            break;
                        }
                        let ls: Vec<&GLayer> = m.obs.iter().collect();
                        let want = expect_layers(&ls).unwrap();
                        let got = got_layers(&abs.blockages, &layers);
                        if got != want {
                            why = Some(("obs-shapes".into(), format!("obstructions of {}: got {:?}, want {:?}", m.name, got, want)));
                            break;
                        }
                    }
                }
                match why {
                    None => cx.outcome("ok"),
                    Some((sig, text)) => {
                        cx.outcome("mismatch");
                        cx.fail(key, &format!("import-{sig}"), None, || truncate(&text, 500), render)
                    }
                }
            }
        }
    }
    fn render(&self, case: &Case) -> Value {
        let mut ms = vec![json!({"units_database_microns": case.dbu})];
        for m in &case.macros {
            let layer = |l: &GLayer| {
                json!({"layer": l.layer, "width": l.width.as_ref().map(|w| w.text()), "shapes": l.shapes.iter().map(|s| match s {
                    GShape::Rect(a,b,c,d) => format!("RECT {} {} {} {}", a.text(), b.text(), c.text(), d.text()),
                    GShape::Polygon(v) => format!("POLYGON {}", v.iter().map(|(x,y)| format!("{} {}", x.text(), y.text())).collect::<Vec<_>>().join(" ")),
                    GShape::Path(v) => format!("PATH {}", v.iter().map(|(x,y)| format!("{} {}", x.text(), y.text())).collect::<Vec<_>>().join(" ")),
                }).collect::<Vec<_>>()})
            };
            ms.push(json!({
                "macro": m.name, "size": [m.size.0.text(), m.size.1.text()],
                "pins": m.pins.iter().map(|p| json!({"name": p.name, "ports": p.ports.iter().map(|po| po.iter().map(layer).collect::<Vec<_>>()).collect::<Vec<_>>()})).collect::<Vec<_>>(),
                "obs": m.obs.iter().map(layer).collect::<Vec<_>>(),
            }));
        }
        json!(ms)
    }
    fn guards(&self, _tier: Tier, stats: &Stats, _d: u64) -> Result<(), String> {
        require_tags(stats, &["rect", "polygon", "path", "obs-merged", "two-ports", "layer:m1", "layer:M1", "layer:via", "layer:boundary", "layer:\u{e9}"])?;
        require_outcomes(stats, &["ok", "err-not-whole-units"])
    }
    fn unit_target(&self, t: Tier) -> usize {
        t.pick(1024, 16384)
    }
}

pub fn driver() -> Box<dyn Driver> {
    Box::new(ByCase(C16))
}
