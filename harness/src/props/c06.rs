//! C06 — importing GDSII into the raw model preserves the flattened geometry.
//!
//! Parts (one property, several sub-spaces):
//!  * `hier`  hierarchies of 1..3 levels, structs listed in every order, SREF/AREF in all 8 Manhattan orientations,
//!            array sizes / lattices / large arrays, every leaf content kind;
//!  * `deep`  (thorough) the same with 4 levels;
//!  * `label` one cell: shape kind x label position x same/other layer x second shape x second label;
//!  * `grid`  one shape and one label at every point of the lattice of the shape's vertex coordinates;
//!  * `mal`   malformed libraries (dangling / cyclic references, zero rows/cols, empty xy, ...): must be `Err`.
//!
//! Oracle: `refmodel::gdsflat` (exact integer GDSII flattener + exact label-to-net reference).

use crate::core::*;
use crate::explore::Chooser;
use crate::props::rawview;
use crate::refmodel::gdsflat::{self, bag_add, bag_diff, bag_len, Bag, CShape, CellRef, Key, Quirks, Verdict};
use crate::refmodel::geom::P;
use gds21::{GdsArrayRef, GdsBoundary, GdsBox, GdsElement, GdsLibrary, GdsPath, GdsPoint, GdsStrans, GdsStruct, GdsStructRef, GdsTextElem};
use layout21raw::Library;
use serde_json::{json, Value};
use std::collections::BTreeMap;

#[derive(Clone, Copy, Debug, PartialEq, Eq)]
pub enum Part {
    Hier,
    Deep,
    Label,
    Grid,
    Mal,
}
#[derive(Clone, Copy, Debug, PartialEq, Eq)]
pub enum Intent {
    WellFormed,
    MustError,
    MayError,
}
pub struct Case {
    pub gds: GdsLibrary,
    pub intent: Intent,
    pub tags: Vec<&'static str>,
}
pub struct C06 {
    part: Part,
}

// ---------------------------------------------------------------------------------------------------
// alphabet
// ---------------------------------------------------------------------------------------------------

pub const KINDS: [&str; 7] = ["cw-rect", "ccw-rect", "L", "triangle", "box", "path", "right-trapezoid"];
const KIND_TAGS: [&str; 14] = ["kind:cw-rect", "kind:ccw-rect", "kind:L", "kind:triangle", "kind:box", "kind:path", "kind:right-trapezoid", "kind:all", "kind:diagonal-path", "kind:path-width-3", "kind:path-width-1", "kind:path-diagonal-then-straight", "kind:path-straight-diagonal-straight", "kind:path-closed-ring"];
const ORIENT_TAGS_S: [&str; 8] = ["sref:R0", "sref:R90", "sref:R180", "sref:R270", "sref:MX", "sref:MX-R90", "sref:MX-R180", "sref:MX-R270"];
const ORIENT_TAGS_A: [&str; 8] = ["aref:R0", "aref:R90", "aref:R180", "aref:R270", "aref:MX", "aref:MX-R90", "aref:MX-R180", "aref:MX-R270"];
const LATTICE_TAGS: [&str; 5] = ["lattice:axis", "lattice:rotated-with-angle", "lattice:negative-pitch", "lattice:skew", "lattice:cols-along-y"];
const BIG_TAGS: [&str; 5] = ["array:small", "array:181x181", "array:200x200", "array:1x32767", "array:32767x1"];
const SPELL_TAGS: [&str; 5] = ["strans:minimal", "strans:explicit-angle", "strans:present-default", "strans:negative-angle", "strans:angle-over-360"];
const LOCS: [(i32, i32); 4] = [(300, -200), (0, 0), (-7, 1000), (100000, -100000)];
const POS_TAGS: [&str; 5] = ["label:inside", "label:on-edge", "label:on-vertex", "label:just-outside", "label:far-outside"];
const LEVEL_NAMES: [&str; 4] = ["s0_top", "s1", "s2", "s3"];

fn gp(p: (i32, i32)) -> GdsPoint {
    GdsPoint::new(p.0, p.1)
}
fn closed(pts: &[(i32, i32)], off: (i32, i32)) -> Vec<GdsPoint> {
    let mut v: Vec<GdsPoint> = pts.iter().map(|p| gp((p.0 + off.0, p.1 + off.1))).collect();
    v.push(v[0].clone());
    v
}

/// leaf shape `kind` (index into KINDS; 8 = diagonal path) on (layer, datatype), shifted by `off`
fn shape_elem(kind: usize, layer: i16, dt: i16, off: (i32, i32)) -> GdsElement {
    match kind {
        0 => GdsBoundary { layer, datatype: dt, xy: closed(&[(10, 5), (10, 25), (40, 25), (40, 5)], off), ..Default::default() }.into(),
        1 => GdsBoundary { layer, datatype: dt, xy: closed(&[(10, 5), (40, 5), (40, 25), (10, 25)], off), ..Default::default() }.into(),
        2 => GdsBoundary { layer, datatype: dt, xy: closed(&[(10, 5), (70, 5), (70, 25), (30, 25), (30, 55), (10, 55)], off), ..Default::default() }.into(),
        3 => GdsBoundary { layer, datatype: dt, xy: closed(&[(10, 5), (70, 5), (10, 45)], off), ..Default::default() }.into(),
        4 => {
            let v = closed(&[(10, 5), (40, 5), (40, 25), (10, 25)], off);
            GdsBox { layer, boxtype: dt, xy: [v[0].clone(), v[1].clone(), v[2].clone(), v[3].clone(), v[4].clone()], ..Default::default() }.into()
        }
        5 => GdsPath { layer, datatype: dt, width: Some(4), xy: [(10, 5), (50, 5), (50, 35)].iter().map(|p| gp((p.0 + off.0, p.1 + off.1))).collect(), ..Default::default() }.into(),
        // a 4-vertex boundary that is NOT a rectangle: three of its four sides are axis-parallel
        6 => GdsBoundary { layer, datatype: dt, xy: closed(&[(10, 5), (40, 5), (40, 25), (20, 25)], off), ..Default::default() }.into(),
        9 => GdsPath { layer, datatype: dt, width: Some(3), xy: [(10, 5), (50, 5), (50, 35), (20, 35)].iter().map(|p| gp((p.0 + off.0, p.1 + off.1))).collect(), ..Default::default() }.into(),
        10 => GdsPath { layer, datatype: dt, width: Some(1), xy: [(10, 5), (10, 45), (40, 45)].iter().map(|p| gp((p.0 + off.0, p.1 + off.1))).collect(), ..Default::default() }.into(),
        // paths with a diagonal segment before / between axis-parallel ones (membership is fixed on the latter)
        11 => GdsPath { layer, datatype: dt, width: Some(4), xy: [(10, 5), (40, 35), (90, 35)].iter().map(|p| gp((p.0 + off.0, p.1 + off.1))).collect(), ..Default::default() }.into(),
        // a path that returns to its first point (it keeps all five points)
        13 => GdsPath { layer, datatype: dt, width: Some(4), xy: [(10, 5), (60, 5), (60, 45), (10, 45), (10, 5)].iter().map(|p| gp((p.0 + off.0, p.1 + off.1))).collect(), ..Default::default() }.into(),
        12 => GdsPath { layer, datatype: dt, width: Some(4), xy: [(10, 5), (10, 45), (40, 75), (90, 75)].iter().map(|p| gp((p.0 + off.0, p.1 + off.1))).collect(), ..Default::default() }.into(),
        8 => GdsPath { layer, datatype: dt, width: Some(4), xy: [(10, 5), (40, 35)].iter().map(|p| gp((p.0 + off.0, p.1 + off.1))).collect(), ..Default::default() }.into(),
        _ => panic!("MACHINERY: C06 bad shape kind {kind}"),
    }
}
/// witness label points of a leaf shape: inside, on an edge, on a vertex, just outside, far outside
fn label_points(kind: usize) -> [(i32, i32); 5] {
    match kind {
        0 | 1 | 4 => [(20, 10), (10, 15), (40, 25), (41, 15), (1000, 1000)],
        // L: inside the vertical arm (the bbox centre (40,30) is outside); the reflex vertex; the notch
        2 => [(20, 40), (30, 40), (30, 25), (31, 26), (1000, 1000)],
        // triangle: (40,25) is on the hypotenuse, (41,25) one unit beyond it
        3 => [(20, 15), (40, 25), (70, 5), (41, 25), (1000, 1000)],
        // path width 4: centre line; side of the first segment; corner of the first segment's rectangle; w/2+1 off
        5 => [(30, 5), (30, 7), (10, 3), (30, 8), (1000, 1000)],
        // right trapezoid: (15,15) is on the slanted side from (20,25) to (10,5), (14,15) one unit left of it
        6 => [(30, 15), (15, 15), (20, 25), (14, 15), (1000, 1000)],
        _ => panic!("MACHINERY: C06 no label points for kind {kind}"),
    }
}
/// The same shape written differently: closed vertex lists start at vertex `start` (mod n) and run in the
/// opposite direction if `reverse`; paths are drawn from their other end if `reverse`.
fn respell(e: GdsElement, start: usize, reverse: bool) -> GdsElement {
    fn cycle(xy: &[GdsPoint], start: usize, reverse: bool) -> Vec<GdsPoint> {
        let mut open: Vec<GdsPoint> = xy[..xy.len() - 1].to_vec();
        if reverse {
            open.reverse();
        }
        let n = open.len();
        let mut v: Vec<GdsPoint> = (0..n).map(|i| open[(i + start) % n].clone()).collect();
        v.push(v[0].clone());
        v
    }
    match e {
        GdsElement::GdsBoundary(mut b) => {
            b.xy = cycle(&b.xy, start, reverse);
            b.into()
        }
        GdsElement::GdsBox(mut b) => {
            let v = cycle(&b.xy, start, reverse);
            b.xy = [v[0].clone(), v[1].clone(), v[2].clone(), v[3].clone(), v[4].clone()];
            b.into()
        }
        GdsElement::GdsPath(mut p) => {
            if reverse {
                p.xy.reverse();
            }
            p.into()
        }
        other => other,
    }
}
fn text(layer: i16, s: &str, at: (i32, i32)) -> GdsElement {
    GdsTextElem { layer, texttype: 9, string: s.into(), xy: gp(at), ..Default::default() }.into()
}

/// STRANS for (reflect, quarter) in one of its spellings
fn strans(reflect: bool, quarter: u8, spell: usize) -> Option<GdsStrans> {
    match spell {
        0 => gdsflat::strans_of(reflect, quarter),
        1 => Some(GdsStrans { reflected: reflect, angle: Some(90.0 * quarter as f64), ..Default::default() }),
        _ => Some(GdsStrans { reflected: reflect, angle: if quarter == 0 { None } else { Some(90.0 * quarter as f64) }, ..Default::default() }),
    }
}
fn n_spellings(reflect: bool, quarter: u8) -> usize {
    if quarter != 0 {
        1
    } else if reflect {
        2
    } else {
        3
    }
}
fn rot(v: (i32, i32), quarter: u8) -> (i32, i32) {
    let mut r = v;
    for _ in 0..quarter {
        r = (-r.1, r.0);
    }
    r
}

fn fact(n: usize) -> usize {
    (1..=n).product::<usize>().max(1)
}
/// idx-th permutation of 0..n (lexicographic)
pub fn perm(n: usize, mut idx: usize) -> Vec<usize> {
    let mut items: Vec<usize> = (0..n).collect();
    let mut out = vec![];
    for k in (1..=n).rev() {
        let f = fact(k - 1);
        out.push(items.remove(idx / f));
        idx %= f;
    }
    out
}
fn lib_of(structs: Vec<GdsStruct>, order: &[usize]) -> GdsLibrary {
    let mut slots: Vec<Option<GdsStruct>> = structs.into_iter().map(Some).collect();
    let listed: Vec<GdsStruct> = order.iter().map(|&i| slots[i].take().unwrap()).collect();
    let mut lib = GdsLibrary { name: "lib".into(), version: 3, structs: listed, ..Default::default() };
    // gds21 defaults every date to now(): pin them, the generator must be deterministic
    lib.set_all_dates(&[100i16, 1, 2, 3, 4, 5]);
    lib
}

/// one reference element chosen through the chooser
fn gen_ref(c: &mut Chooser, target: &str, allow_big: bool, tags: &mut Vec<&'static str>) -> GdsElement {
    let is_aref = c.free(2, "ref-kind") == 1;
    let o = c.free(8, "orientation");
    let (reflect, quarter) = (o >= 4, (o % 4) as u8);
    let ns = n_spellings(reflect, quarter);
    // after the `ns` spellings of the angle within one turn: the same rotation written as a negative angle
    // (90q - 360) and as an angle beyond one turn (90q + 360)
    let spell = c.cost(ns + 2, "strans-spelling");
    tags.push(if spell < ns { SPELL_TAGS[spell] } else { SPELL_TAGS[3 + spell - ns] });
    let loc = c.cost_of(&LOCS, "ref-loc");
    let st = if spell < ns {
        strans(reflect, quarter, spell)
    } else {
        let turn = if spell == ns { -360.0 } else { 360.0 };
        Some(GdsStrans { reflected: reflect, angle: Some(90.0 * quarter as f64 + turn), ..Default::default() })
    };
    if !is_aref {
        tags.push(ORIENT_TAGS_S[o]);
        return GdsStructRef { name: target.into(), xy: gp(loc), strans: st, ..Default::default() }.into();
    }
    tags.push(ORIENT_TAGS_A[o]);
    // every pair of {1,2,3}^2 as one choice (a single placement 1 x 1 included)
    let (mut cols, mut rows) = c.cost_of(&[(2i16, 3i16), (1, 3), (3, 3), (2, 1), (2, 2), (1, 1), (1, 2), (3, 1), (3, 2)], "cols-rows");
    let lattice = c.cost(5, "lattice");
    tags.push(LATTICE_TAGS[lattice]);
    let big = if allow_big { c.cost(5, "large-array") } else { 0 };
    tags.push(BIG_TAGS[big]);
    let (mut dx, mut dy) = (100, 70);
    match big {
        1 => (cols, rows) = (181, 181),
        2 => (cols, rows) = (200, 200),
        3 => (cols, rows, dy) = (1, 32767, 3),
        4 => (cols, rows, dx) = (32767, 1, 3),
        _ => {}
    }
    let (dc, dr) = match lattice {
        0 => ((dx, 0), (0, dy)),
        1 => (rot((dx, 0), quarter), rot((0, if reflect { -dy } else { dy }), quarter)),
        2 => ((-dx, 0), (0, -dy)),
        3 => ((dx, 5), (0, dy)),
        _ => ((0, dx), (dy, 0)),
    };
    let p1 = (loc.0 + cols as i32 * dc.0, loc.1 + cols as i32 * dc.1);
    let p2 = (loc.0 + rows as i32 * dr.0, loc.1 + rows as i32 * dr.1);
    GdsArrayRef { name: target.into(), xy: [gp(loc), gp(p1), gp(p2)], cols, rows, strans: st, ..Default::default() }.into()
}

fn leaf_content(content: usize, elems: &mut Vec<GdsElement>) {
    if content == 7 {
        for k in 0..7 {
            elems.push(shape_elem(k, 1 + k as i16, 11 + k as i16, (200 * k as i32, 0)));
        }
    } else {
        elems.push(shape_elem(content, 7, 3, (0, 0)));
    }
}

impl C06 {
    fn gen_hier(&self, _t: Tier, c: &mut Chooser, deep: bool) -> Case {
        let mut tags: Vec<&'static str> = vec![];
        let d = if deep { 4 } else { 1 + c.free(3, "levels") };
        let order = perm(d, c.free(fact(d), "listing-order"));
        tags.push(["levels:1", "levels:2", "levels:3", "levels:4"][d - 1]);
        // costed: the structs below the top go by names that differ only in letter case (they stay different structs)
        let names: [&str; 4] = if d >= 3 && c.cost(2, "struct-names-differ-only-in-case") == 1 {
            tags.push("hier:names-differ-only-in-case");
            ["s0_top", "Sub", "SUB", "sub"]
        } else {
            LEVEL_NAMES
        };
        let mut structs: Vec<GdsStruct> = vec![];
        for k in 0..d {
            let mut s = GdsStruct::new(names[k]);
            if k + 1 < d {
                // own geometry of a non-leaf level: an asymmetric rectangle on its own layer/datatype - or (costed)
                // none at all: a pure wrapper level holding nothing but its reference
                let (x0, y0) = (3 + k as i32, 2);
                let wrapper = c.cost(2, "level-without-own-shapes") == 1;
                if wrapper {
                    tags.push("hier:wrapper-level");
                    // such a level still carries a label: it lies in no shape and must survive as an annotation
                    s.elems.push(text(20 + k as i16, "chip", (1, 2 + k as i32)));
                }
                if !wrapper {
                    s.elems.push(GdsBoundary { layer: 20 + k as i16, datatype: 1 + k as i16, xy: closed(&[(x0, y0), (x0 + 6, y0), (x0 + 6, y0 + 4 + 2 * k as i32), (x0, y0 + 4 + 2 * k as i32)], (0, 0)), ..Default::default() }.into());
                }
                let allow_big = d == 2;
                s.elems.push(gen_ref(c, names[k + 1], allow_big, &mut tags));
            }
            structs.push(s);
        }
        // leaf content; a large array always holds the single CW rectangle (tens of thousands of placements)
        let large = tags.iter().any(|t| t.starts_with("array:") && *t != "array:small");
        let content = if large {
            0
        } else if deep {
            [0usize, 2][c.free(2, "leaf-content")]
        } else {
            c.free(8, "leaf-content")
        };
        tags.push(KIND_TAGS[content]);
        leaf_content(content, &mut structs[d - 1].elems);
        // data types beyond one byte next to small ones ((1,0) / (1,256), (3,44) / (2,300), (0,256)): every pair stays
        // on its own (layer, datatype)
        if !large && c.cost(2, "datatypes-beyond-255") == 1 {
            tags.push("hier:datatypes-beyond-255");
            for (k, (l, dt)) in [(1i16, 0i16), (1, 256), (3, 44), (2, 300), (0, 256), (1, -1)].iter().enumerate() {
                structs[d - 1].elems.push(shape_elem(k % 2, *l, *dt, (3000 + 100 * k as i32, 0)));
            }
        }
        // leaf shapes millions and billions of units away from the struct's origin (rotations must stay exact there)
        if !large && c.cost(2, "leaf-far-from-origin") == 1 {
            tags.push("hier:leaf-far-from-origin");
            for (k, off) in [(6_000_001, -7_000_003), (-48_000_005, 50_000_007), (1_500_000_007, -1_900_000_009), (-2_000_000_011, -13)].iter().enumerate() {
                structs[d - 1].elems.push(shape_elem([0, 3, 2, 5][k], 9, 40 + k as i16, *off));
            }
        }
        // optional label inside the leaf's shape (nets are judged per un-flattened cell)
        if content < 7 && c.cost(2, "leaf-label") == 1 {
            structs[d - 1].elems.push(text(7, "LeafNet", label_points(content)[0]));
            tags.push("hier:leaf-label");
        }
        if d == 3 && c.free(2, "shared-leaf") == 1 {
            // the top also places the leaf directly (a DAG, not a chain)
            structs[0].elems.push(GdsStructRef { name: names[2].into(), xy: gp((5000, 7000)), strans: gdsflat::strans_of(false, 3), ..Default::default() }.into());
            tags.push("hier:shared-leaf");
        }
        Case { gds: lib_of(structs, &order), intent: Intent::WellFormed, tags }
    }

    fn gen_label(&self, _t: Tier, c: &mut Chooser) -> Case {
        let mut tags: Vec<&'static str> = vec![];
        let kind = c.free(7, "shape-kind");
        tags.push(KIND_TAGS[kind]);
        let pos = c.free(5, "label-position");
        tags.push(POS_TAGS[pos]);
        // the same shape listed from another start vertex / in the other direction (paths: drawn backwards)
        let start_vertex = c.free(4, "start-vertex");
        let reverse = c.free(2, "reverse-direction") == 1;
        tags.push(["start:v0", "start:v1", "start:v2", "start:v3"][start_vertex]);
        tags.push(if reverse { "direction:reversed" } else { "direction:as-listed" });
        let other_layer = c.free(2, "label-layer") == 1;
        tags.push(if other_layer { "label:other-layer" } else { "label:same-layer" });
        let second_shape = c.free(4, "second-shape");
        tags.push(["shape2:none", "shape2:same-layer-overlapping", "shape2:other-layer", "shape2:same-layer-other-datatype"][second_shape]);
        let second_label = c.free(4, "second-label");
        tags.push(["label2:none", "label2:same-point-listed-before", "label2:same-point-listed-after", "label2:inside-other-string"][second_label]);
        let strings = c.cost_of(&[("Net1", "OTHER"), ("VDD", "vss"), ("a", "A")], "label-strings");
        let arrangement = c.cost(3, "element-order");
        tags.push(["order:shapes-first", "order:labels-first", "order:interleaved"][arrangement]);
        let diag = c.cost(2, "diagonal-path-on-layer") == 1;
        let pts = label_points(kind);
        let (shape_layer, label_layer) = (7i16, if other_layer { 8 } else { 7 });
        let mut shapes: Vec<GdsElement> = vec![respell(shape_elem(kind, shape_layer, 3, (0, 0)), start_vertex, reverse)];
        match second_shape {
            // a big rectangle on the same layer/datatype containing every near label point
            1 => shapes.push(GdsBoundary { layer: 7, datatype: 3, xy: closed(&[(0, 0), (100, 0), (100, 100), (0, 100)], (0, 0)), ..Default::default() }.into()),
            2 => shapes.push(shape_elem(1, 8, 3, (0, 0))),
            3 => shapes.push(shape_elem(0, 7, 4, (0, 0))),
            _ => {}
        }
        if diag {
            // a diagonal path far away from every label, on the labels' layer
            shapes.push(shape_elem(8, label_layer, 5, (5000, 5000)));
            tags.push(KIND_TAGS[8]);
        }
        let main = text(label_layer, strings.0, pts[pos]);
        let mut labels: Vec<GdsElement> = vec![];
        match second_label {
            1 => {
                labels.push(text(label_layer, strings.1, pts[pos]));
                labels.push(main);
            }
            2 => {
                labels.push(main);
                labels.push(text(label_layer, strings.1, pts[pos]));
            }
            3 => {
                labels.push(main);
                labels.push(text(label_layer, strings.1, pts[0]));
            }
            _ => labels.push(main),
        }
        let elems: Vec<GdsElement> = match arrangement {
            0 => shapes.into_iter().chain(labels).collect(),
            1 => labels.into_iter().chain(shapes).collect(),
            _ => {
                let mut v = vec![];
                let (mut a, mut b) = (shapes.into_iter(), labels.into_iter());
                loop {
                    let (x, y) = (b.next(), a.next());
                    if x.is_none() && y.is_none() {
                        break;
                    }
                    v.extend(x);
                    v.extend(y);
                }
                v
            }
        };
        let mut s = GdsStruct::new("cell");
        s.elems = elems;
        Case { gds: lib_of(vec![s], &[0]), intent: Intent::WellFormed, tags }
    }

    /// One shape and one same-layer label at every point of the lattice spanned by the shape's vertex
    /// coordinates (each coordinate and its neighbours at -3..=3, the midpoints between consecutive ones):
    /// on, next to and far from every edge and every *extended* edge line, inside and outside the bounding box.
    fn gen_grid(&self, _t: Tier, c: &mut Chooser) -> Case {
        // the seven kinds of the label part plus paths of odd width (3, three segments) and of width 1
        let kind = [0usize, 1, 2, 3, 4, 5, 6, 9, 10, 11, 12, 13][c.free(12, "shape-kind")];
        let start_vertex = c.free(4, "start-vertex");
        let reverse = c.free(2, "reverse-direction") == 1;
        let e = shape_elem(kind, 7, 3, (0, 0));
        let (verts, width): (Vec<(i64, i64)>, Option<i64>) = match &e {
            GdsElement::GdsBoundary(b) => (b.xy.iter().map(|p| (p.x as i64, p.y as i64)).collect(), None),
            GdsElement::GdsBox(b) => (b.xy.iter().map(|p| (p.x as i64, p.y as i64)).collect(), None),
            GdsElement::GdsPath(p) => (p.xy.iter().map(|p| (p.x as i64, p.y as i64)).collect(), Some(p.width.unwrap_or(0) as i64)),
            _ => panic!("MACHINERY: C06 grid: shape kind {kind}"),
        };
        let axis = |sel: fn(&(i64, i64)) -> i64| -> Vec<i64> {
            let mut base: Vec<i64> = verts.iter().map(sel).collect();
            base.sort();
            base.dedup();
            let mut v = vec![];
            for (i, b) in base.iter().enumerate() {
                for d in -3..=3 {
                    v.push(b + d);
                }
                if i + 1 < base.len() {
                    v.push((b + base[i + 1]) / 2);
                }
            }
            v.sort();
            v.dedup();
            v
        };
        let (xs, ys) = (axis(|p| p.0), axis(|p| p.1));
        let mut pts: Vec<(i64, i64)> = vec![];
        for x in &xs {
            for y in &ys {
                // paths: only where the statement fixes membership
                if let Some(w) = width {
                    if gdsflat::path_region(&verts, w, (*x, *y)) == gdsflat::In::DontCare {
                        continue;
                    }
                }
                pts.push((*x, *y));
            }
        }
        let at = pts[c.free(pts.len(), "lattice-point")];
        let mut s = GdsStruct::new("cell");
        s.elems = vec![respell(e, start_vertex, reverse), text(7, "Net1", (at.0 as i32, at.1 as i32))];
        Case { gds: lib_of(vec![s], &[0]), intent: Intent::WellFormed, tags: vec![KIND_TAGS[kind], "grid:label"] }
    }

    fn gen_mal(&self, t: Tier, c: &mut Chooser) -> Case {
        const MAL: [&str; 14] = [
            "mal:dangling-sref",
            "mal:dangling-aref",
            "mal:self-sref",
            "mal:self-aref",
            "mal:cycle-2",
            "mal:cycle-3",
            "mal:cols-0",
            "mal:rows-0",
            "mal:empty-xy-boundary",
            "mal:empty-xy-path",
            "may:boundary-not-closed",
            "may:path-without-width",
            "may:sref-abs-mag",
            "may:aref-abs-angle",
        ];
        let kind = c.free(MAL.len(), "malformation");
        let nested = c.free(2, "where") == 1;
        let mut tags = vec![MAL[kind], if nested { "mal:in-leaf-of-2-levels" } else { "mal:in-top" }];
        let aref = |name: &str, cols: i16, rows: i16, st: Option<GdsStrans>| -> GdsElement {
            GdsArrayRef { name: name.into(), xy: [gp((0, 0)), gp((200, 0)), gp((0, 210))], cols, rows, strans: st, ..Default::default() }.into()
        };
        let sref = |name: &str, st: Option<GdsStrans>| -> GdsElement { GdsStructRef { name: name.into(), xy: gp((50, 60)), strans: st, ..Default::default() }.into() };
        // the struct that carries the malformation is "a"; helper structs "b", "c", a good leaf "good"
        let mut a = GdsStruct::new("a");
        a.elems.push(shape_elem(1, 7, 3, (0, 0)));
        let mut extra: Vec<GdsStruct> = vec![];
        let good = || {
            let mut g = GdsStruct::new("good");
            g.elems.push(shape_elem(0, 7, 3, (0, 0)));
            g
        };
        let mut cyclic = false;
        match kind {
            0 => a.elems.push(sref("nowhere", None)),
            1 => a.elems.push(aref("nowhere", 2, 3, None)),
            2 => {
                a.elems.push(sref("a", None));
                cyclic = true;
            }
            3 => {
                a.elems.push(aref("a", 2, 3, None));
                cyclic = true;
            }
            4 => {
                a.elems.push(sref("b", None));
                let mut b = GdsStruct::new("b");
                b.elems.push(sref("a", gdsflat::strans_of(false, 1)));
                extra.push(b);
                cyclic = true;
            }
            5 => {
                a.elems.push(sref("b", None));
                let mut b = GdsStruct::new("b");
                b.elems.push(aref("c", 1, 2, None));
                let mut cc = GdsStruct::new("c");
                cc.elems.push(sref("a", None));
                extra.push(b);
                extra.push(cc);
                cyclic = true;
            }
            6 => {
                a.elems.push(aref("good", 0, 3, None));
                extra.push(good());
            }
            7 => {
                a.elems.push(aref("good", 2, 0, None));
                extra.push(good());
            }
            8 => a.elems.push(GdsBoundary { layer: 7, datatype: 3, xy: vec![], ..Default::default() }.into()),
            9 => a.elems.push(GdsPath { layer: 7, datatype: 3, width: Some(4), xy: vec![], ..Default::default() }.into()),
            10 => a.elems.push(GdsBoundary { layer: 7, datatype: 3, xy: GdsPoint::vec(&[(0, 0), (9, 0), (9, 7), (0, 7)]), ..Default::default() }.into()),
            11 => a.elems.push(GdsPath { layer: 7, datatype: 3, width: None, xy: GdsPoint::vec(&[(0, 0), (9, 0)]), ..Default::default() }.into()),
            12 => {
                a.elems.push(sref("good", Some(GdsStrans { abs_mag: true, ..Default::default() })));
                extra.push(good());
            }
            _ => {
                a.elems.push(aref("good", 2, 3, Some(GdsStrans { abs_angle: true, ..Default::default() })));
                extra.push(good());
            }
        }
        let mut structs = vec![];
        if nested {
            let mut top = GdsStruct::new("top");
            top.elems.push(shape_elem(1, 21, 1, (0, 0)));
            top.elems.push(sref("a", gdsflat::strans_of(true, 2)));
            structs.push(top);
        }
        structs.push(a);
        structs.extend(extra);
        let n = structs.len();
        // process-killing cases are expensive (each is confirmed twice in fresh processes): quick lists
        // cyclic libraries in every rotation only, everything else (and thorough) in every order
        let order = if cyclic && !t.is_thorough() {
            let r = c.free(n, "listing-rotation");
            (0..n).map(|i| (i + r) % n).collect::<Vec<_>>()
        } else {
            perm(n, c.free(fact(n), "listing-order"))
        };
        if n > 1 && order[0] != 0 {
            tags.push("mal:user-listed-after-dependency");
        }
        let intent = if kind >= 10 { Intent::MayError } else { Intent::MustError };
        Case { gds: lib_of(structs, &order), intent, tags }
    }
}

// ---------------------------------------------------------------------------------------------------
// input predicates (known-finding classes are predicates over the input plus the failure mode)
// ---------------------------------------------------------------------------------------------------

fn arefs(g: &GdsLibrary) -> impl Iterator<Item = &GdsArrayRef> {
    g.structs.iter().flat_map(|s| s.elems.iter()).filter_map(|e| match e {
        GdsElement::GdsArrayRef(a) => Some(a),
        _ => None,
    })
}
fn ref_strans(g: &GdsLibrary) -> impl Iterator<Item = &Option<GdsStrans>> {
    g.structs.iter().flat_map(|s| s.elems.iter()).filter_map(|e| match e {
        GdsElement::GdsArrayRef(a) => Some(&a.strans),
        GdsElement::GdsStructRef(a) => Some(&a.strans),
        _ => None,
    })
}
fn has_reflected_quarter(g: &GdsLibrary) -> bool {
    ref_strans(g).any(|s| matches!(gdsflat::orient_of(s), Ok(o) if o.reflect && o.quarter % 2 == 1))
}
fn has_non_axis_aref(g: &GdsLibrary) -> bool {
    arefs(g).any(|a| !gdsflat::aref_is_axis(a))
}
fn has_angled_axis_aref(g: &GdsLibrary) -> bool {
    arefs(g).any(|a| gdsflat::aref_is_axis(a) && matches!(&a.strans, Some(s) if matches!(s.angle, Some(x) if x != 0.0)))
}
fn has_big_aref(g: &GdsLibrary) -> bool {
    arefs(g).any(|a| gdsflat::aref_is_axis(a) && a.cols as i32 * a.rows as i32 > i16::MAX as i32)
}
fn has_zero_aref(g: &GdsLibrary) -> bool {
    arefs(g).any(|a| a.cols == 0 || a.rows == 0)
}
fn has_dangling(g: &GdsLibrary) -> bool {
    let names: Vec<&str> = g.structs.iter().map(|s| s.name.as_str()).collect();
    g.structs.iter().flat_map(|s| s.elems.iter()).any(|e| match e {
        GdsElement::GdsArrayRef(a) => !names.contains(&a.name.as_str()),
        GdsElement::GdsStructRef(a) => !names.contains(&a.name.as_str()),
        _ => false,
    })
}
fn has_empty_boundary(g: &GdsLibrary) -> bool {
    g.structs.iter().flat_map(|s| s.elems.iter()).any(|e| matches!(e, GdsElement::GdsBoundary(b) if b.xy.is_empty()))
}
fn has_empty_path(g: &GdsLibrary) -> bool {
    g.structs.iter().flat_map(|s| s.elems.iter()).any(|e| matches!(e, GdsElement::GdsPath(b) if b.xy.is_empty()))
}
fn has_label_on_diagonal_path_layer(g: &GdsLibrary) -> bool {
    g.structs.iter().any(|s| {
        s.elems.iter().any(|e| match e {
            GdsElement::GdsPath(p) if p.xy.windows(2).any(|w| w[0].x != w[1].x && w[0].y != w[1].y) => {
                s.elems.iter().any(|t| matches!(t, GdsElement::GdsTextElem(t) if t.layer == p.layer))
            }
            _ => false,
        })
    })
}

// ---------------------------------------------------------------------------------------------------
// running the real code, comparing
// ---------------------------------------------------------------------------------------------------

#[derive(Default)]
struct ObsCell {
    flat: Option<Result<Bag<Key>, String>>,
    /// net names carried by the flattened elements (name -> number of elements)
    flat_nets: Bag<String>,
    shapes: Bag<(i16, i16, CShape, Option<String>)>,
    annotations: Bag<(String, P)>,
    insts: u64,
}
enum Run {
    ImportErr(String),
    Observed(BTreeMap<String, ObsCell>),
    Unreadable(String),
}

fn run_subject(gds: &GdsLibrary) -> Run {
    let lib = match Library::from_gds(gds, None) {
        Ok(l) => l,
        Err(e) => return Run::ImportErr(truncate(&format!("{e:?}"), 200)),
    };
    let layers = match lib.layers.read() {
        Ok(l) => l,
        Err(_) => return Run::Unreadable("layers pointer poisoned".into()),
    };
    let mut out: BTreeMap<String, ObsCell> = BTreeMap::new();
    for c in lib.cells.iter() {
        let Ok(c) = c.read() else { return Run::Unreadable("cell pointer poisoned".into()) };
        let mut oc = ObsCell::default();
        if let Some(l) = &c.layout {
            let v = match rawview::vlayout(l, &layers) {
                Ok(v) => v,
                Err(e) => return Run::Unreadable(e),
            };
            for s in v.shapes {
                bag_add(&mut oc.shapes, (s.layer, s.purpose, s.shape, s.net), 1);
            }
            for a in v.annotations {
                bag_add(&mut oc.annotations, a, 1);
            }
            oc.insts = v.insts.len() as u64;
            oc.flat = Some(match l.flatten() {
                Err(e) => Err(truncate(&format!("{e:?}"), 200)),
                Ok(elems) => {
                    let mut b = Bag::new();
                    let mut err = None;
                    for e in &elems {
                        if let Some(n) = &e.net {
                            bag_add(&mut oc.flat_nets, n.clone(), 1);
                        }
                        match rawview::velem(e, &layers) {
                            Ok(s) => bag_add(&mut b, (s.layer, s.purpose, s.shape), 1),
                            Err(m) => err = Some(m),
                        }
                    }
                    match err {
                        Some(m) => Err(m),
                        None => Ok(b),
                    }
                }
            });
        }
        if out.insert(c.name.clone(), oc).is_some() {
            return Run::Unreadable(format!("two cells named {}", c.name));
        }
    }
    Run::Observed(out)
}

struct Exp {
    flat: BTreeMap<String, Bag<Key>>,
    cells: BTreeMap<String, CellRef>,
    /// per struct: net names carried by its flattened shapes (own named shapes + those of every placement below it)
    flat_nets: BTreeMap<String, Bag<String>>,
}
fn expect(g: &GdsLibrary, q: Quirks) -> Result<Exp, String> {
    let flat = gdsflat::flatten_all(g, q)?;
    let mut cells = BTreeMap::new();
    for s in &g.structs {
        cells.insert(s.name.clone(), gdsflat::cell_ref(s, q)?);
    }
    // a named shape keeps its name wherever its cell is placed: count names down the hierarchy
    let mut flat_nets: BTreeMap<String, Bag<String>> = BTreeMap::new();
    fn nets_of(name: &str, g: &GdsLibrary, cells: &BTreeMap<String, CellRef>, memo: &mut BTreeMap<String, Bag<String>>, depth: usize) -> Option<Bag<String>> {
        if let Some(b) = memo.get(name) {
            return Some(b.clone());
        }
        if depth > 64 {
            return None;
        }
        let s = g.structs.iter().find(|s| s.name == name)?;
        let mut b: Bag<String> = Bag::new();
        for ((_, _, _, net), n) in &cells.get(name)?.shapes {
            if let Some(net) = net {
                bag_add(&mut b, net.clone(), *n);
            }
        }
        for e in &s.elems {
            let (child, mult) = match e {
                GdsElement::GdsStructRef(r) => (r.name.as_str(), 1u64),
                GdsElement::GdsArrayRef(a) => (a.name.as_str(), (a.cols.max(0) as u64) * (a.rows.max(0) as u64)),
                _ => continue,
            };
            let cb = nets_of(child, g, cells, memo, depth + 1)?;
            for (k, n) in &cb {
                bag_add(&mut b, k.clone(), *n * mult);
            }
        }
        memo.insert(name.to_string(), b.clone());
        Some(b)
    }
    for s in &g.structs {
        if let Some(b) = nets_of(&s.name, g, &cells, &mut flat_nets, 0) {
            flat_nets.insert(s.name.clone(), b);
        }
    }
    Ok(Exp { flat, cells, flat_nets })
}

fn show_key(k: &Key) -> String {
    format!("layer {} datatype {} {:?}", k.0, k.1, k.2)
}
/// (signature, description) of every disagreement
fn compare(exp: &Exp, obs: &BTreeMap<String, ObsCell>) -> Vec<(&'static str, String)> {
    let mut out = vec![];
    for (name, want_flat) in &exp.flat {
        let Some(oc) = obs.get(name) else {
            out.push(("cell-missing", format!("struct {name} has no cell in the imported library")));
            continue;
        };
        match &oc.flat {
            None => out.push(("cell-without-layout", format!("cell {name} has no layout"))),
            Some(Err(e)) => out.push(("flatten-error", format!("flatten of {name} failed: {e}"))),
            Some(Ok(got)) => {
                if got != want_flat {
                    let (missing, extra) = bag_diff(want_flat, got, 3);
                    out.push((
                        "flatten-mismatch",
                        format!(
                            "flattened {name}: {} shapes expected, {} found; missing e.g. {:?}; unexpected e.g. {:?}",
                            bag_len(want_flat),
                            bag_len(got),
                            missing.iter().map(|(k, n)| format!("{n} x {}", show_key(k))).collect::<Vec<_>>(),
                            extra.iter().map(|(k, n)| format!("{n} x {}", show_key(k))).collect::<Vec<_>>()
                        ),
                    ));
                }
            }
        }
        if let (Some(Ok(got)), Some(want_nets)) = (&oc.flat, exp.flat_nets.get(name)) {
            if got == want_flat && &oc.flat_nets != want_nets {
                out.push(("flatten-net-mismatch", format!("flattened {name}: its shapes carry the net names {:?} (name -> count); the named shapes of the cells placed below it give {:?}", oc.flat_nets, want_nets)));
            }
        }
        let want = &exp.cells[name];
        if oc.shapes != want.shapes {
            let strip = |b: &Bag<(i16, i16, CShape, Option<String>)>| {
                let mut o: Bag<Key> = Bag::new();
                for ((l, d, s, _), n) in b {
                    bag_add(&mut o, (*l, *d, s.clone()), *n);
                }
                o
            };
            let (missing, extra) = bag_diff(&want.shapes, &oc.shapes, 3);
            let sig = if strip(&oc.shapes) == strip(&want.shapes) { "net-mismatch" } else { "cell-shapes-mismatch" };
            out.push((sig, format!("cell {name}: expected (layer, datatype, shape, net) {:?} but found {:?}", missing, extra)));
        }
        let (missing, _) = bag_diff(&want.annotations, &oc.annotations, 3);
        if !missing.is_empty() {
            out.push(("annotation-missing", format!("cell {name}: label(s) {:?} lie in no shape of their layer but are not among the annotations {:?}", missing, oc.annotations)));
        }
        let (invented, _) = bag_diff(&oc.annotations, &want.labels, 3);
        if !invented.is_empty() {
            out.push(("annotation-invented", format!("cell {name}: annotation(s) {:?} correspond to no label", invented)));
        }
        if oc.insts != want.instances {
            out.push(("instance-count", format!("cell {name}: {} placements expected (srefs + cols*rows), {} instances found", want.instances, oc.insts)));
        }
    }
    out
}

/// multiset of (layer, datatype, kind, vertex count) over all structs: invariant under misplacement
fn signature(flat: &BTreeMap<String, Bag<Key>>) -> Bag<(String, i16, i16, &'static str, usize)> {
    let mut b = Bag::new();
    for (n, bag) in flat {
        for ((l, d, s), k) in bag {
            bag_add(&mut b, (n.clone(), *l, *d, s.kind(), s.npoints()), *k);
        }
    }
    b
}

fn summary(g: &GdsLibrary) -> String {
    let mut v = vec![];
    for s in &g.structs {
        let mut parts = vec![];
        for e in &s.elems {
            parts.push(match e {
                GdsElement::GdsBoundary(b) => format!("boundary L{}/{} {:?}", b.layer, b.datatype, b.xy.iter().map(|p| (p.x, p.y)).collect::<Vec<_>>()),
                GdsElement::GdsBox(b) => format!("box L{}/{} {:?}", b.layer, b.boxtype, b.xy.iter().map(|p| (p.x, p.y)).collect::<Vec<_>>()),
                GdsElement::GdsPath(b) => format!("path L{}/{} w{:?} {:?}", b.layer, b.datatype, b.width, b.xy.iter().map(|p| (p.x, p.y)).collect::<Vec<_>>()),
                GdsElement::GdsTextElem(t) => format!("text L{} {:?} at ({},{})", t.layer, t.string, t.xy.x, t.xy.y),
                GdsElement::GdsStructRef(r) => format!("sref {} at ({},{}) strans {:?}", r.name, r.xy.x, r.xy.y, r.strans.as_ref().map(|s| (s.reflected, s.angle, s.abs_mag, s.abs_angle))),
                GdsElement::GdsArrayRef(r) => format!(
                    "aref {} {}x{} xy {:?} strans {:?}",
                    r.name,
                    r.cols,
                    r.rows,
                    r.xy.iter().map(|p| (p.x, p.y)).collect::<Vec<_>>(),
                    r.strans.as_ref().map(|s| (s.reflected, s.angle, s.abs_mag, s.abs_angle))
                ),
                GdsElement::GdsNode(_) => "node".into(),
            });
        }
        v.push(format!("{}: [{}]", s.name, parts.join("; ")));
    }
    truncate(&v.join(" | "), 900)
}

static SELF_CHECK: std::sync::OnceLock<Result<(), String>> = std::sync::OnceLock::new();

impl CaseDriver for C06 {
    type Case = Case;
    fn id(&self) -> &'static str {
        "C06"
    }
    fn describe(&self, tier: Tier) -> Describe {
        let rule = match self.part {
            Part::Hier => format!(
                "GDS libraries of 1..3 levels (chain top -> ... -> leaf, optionally the top also placing the leaf), structs listed in every order; each reference SREF or AREF x all 8 Manhattan orientations (free); leaf content = one of {KINDS:?} or all seven together (free); costed (deviation bound {}): STRANS spelling (absent / explicit Some(0.0) / present-but-default / the same rotation as a negative angle 90q-360 / beyond one turn 90q+360), offsets {LOCS:?}, array cols x rows in {{1,2,3}}^2, lattice (axis-parallel, rotated with the angle, negative pitch, skewed, columns along y), large arrays 181x181 / 200x200 / 1x32767 / 32767x1 (two-level libraries only), a label inside the leaf shape, a level holding nothing but its reference and a label (no shapes of its own), leaf shapes on (layer, datatype) pairs with data types of 256 / 300 / -1 next to small ones, leaf shapes 6e6 .. 2e9 units away from the origin, struct names that differ only in letter case. Non-trivial = has at least one reference.",
                self.bound(tier)
            ),
            Part::Deep => "4-level chains, structs in every one of the 24 listing orders, every reference SREF or AREF x 8 orientations (free), leaf content CW rectangle or L-polygon; the costed alphabet of [hier] with deviation bound 1.".into(),
            Part::Label => format!(
                "one cell: shape kind (7) x label position {{inside, on an edge, on a vertex, just outside, far outside}} x vertex list started at each of 4 vertices x both directions (paths: drawn from either end) x label on the same / another layer x second shape {{none, same layer overlapping, other layer, same layer other datatype}} x second label {{none, same point listed before, same point listed after, inside with another string}} (all free); costed (bound {}): strings (mixed / upper / single-letter case pairs), element order (shapes first, labels first, interleaved), a diagonal path on the labels' layer. Non-trivial = every case (each has a label).",
                self.bound(tier)
            ),
            Part::Grid => "one cell holding one shape (each of the 7 kinds plus a three-segment path of width 3, a path of width 1, two paths with a diagonal segment before / between axis-parallel ones and a path returning to its first point, vertex list started at each of 4 vertices, both directions) and one same-layer label at every point of the lattice spanned by the shape's vertex coordinates: every vertex x / y and its neighbours at -3..=3, plus the midpoints between consecutive ones - on, next to and away from every edge and every extended edge line, inside and outside the bounding box (paths: the points whose membership the statement fixes). All free (no deviation bound).".into(),
            Part::Mal => "malformed libraries: dangling SREF / AREF, self-reference by SREF / AREF, 2-cycle, 3-cycle (through an AREF), cols = 0, rows = 0, boundary with empty xy, path with empty xy (required outcome: Err), plus boundary not closed, path without width, SREF abs_mag, AREF abs_angle (Err expected and the only outcome judged); each as the whole library and below a well-formed top cell; every listing order (quick: cyclic libraries in every rotation).".into(),
        };
        Describe {
            rule,
            assumptions: vec![
                "the statement allows Err for any input ('either reports an error or ...'): Err on a well-formed library is counted (outcome err-on-wellformed), not a violation; a vacuity guard requires that almost all well-formed libraries import".into(),
                "when several labels lie in one shape the first in element order names the net (DESIGN C06); labels lying in a shape of their layer are not required among the annotations, labels lying in none are; annotations that correspond to no label are rejected".into(),
                "rectangle = its 4-corner polygon; polygons up to rotation/direction of the vertex cycle; paths as exact point list + width; nets compared per un-flattened cell, flattened shapes without nets".into(),
                "path labels are placed only where membership is fixed (inside a segment rectangle, or farther than w/2 from every segment)".into(),
                "boundary-not-closed / path-without-width / abs_mag / abs_angle: Err is accepted, Ok is not judged (the statement does not define their geometry)".into(),
            ],
            excluded: vec!["magnification and non-right angles (C12 covers angles)".into(), "NODE elements, properties, text transforms".into(), "negative rows/cols".into()],
            technique: "bounded-exhaustive enumeration of GDS library values (deviation-bounded choice sequences) run through Library::from_gds + Layout::flatten, judged by an independent exact-integer GDSII flattener and label-to-net reference".into(),
        }
    }
    fn bound(&self, t: Tier) -> usize {
        match self.part {
            Part::Hier | Part::Label => t.pick(1, 2),
            Part::Deep => 1,
            Part::Mal | Part::Grid => 0,
        }
    }
    fn unit_target(&self, _t: Tier) -> usize {
        match self.part {
            // one unit per case: a process-killing case re-runs its whole unit
            Part::Mal => 100_000,
            _ => 6000,
        }
    }
    fn gen(&self, t: Tier, c: &mut Chooser) -> Case {
        match self.part {
            Part::Hier => self.gen_hier(t, c, false),
            Part::Deep => self.gen_hier(t, c, true),
            Part::Label => self.gen_label(t, c),
            Part::Grid => self.gen_grid(t, c),
            Part::Mal => self.gen_mal(t, c),
        }
    }
    fn render(&self, case: &Case) -> Value {
        json!({"intent": format!("{:?}", case.intent), "summary": summary(&case.gds), "gds_library": serde_json::to_value(&case.gds).unwrap_or(Value::Null)})
    }
    fn classify_crash(&self, _t: Tier, case: &Case, death: &Death) -> Option<String> {
        if gdsflat::find_cycle(&case.gds).is_some() && matches!(death, Death::Signal(11) | Death::Signal(6)) {
            return Some("cyclic_reference_overflows_stack".into());
        }
        None
    }
    fn check(&self, case: &Case, key: &str, cx: &mut Cx) {
        if let Err(e) = SELF_CHECK.get_or_init(gdsflat::self_check) {
            cx.machinery(format!("C06 oracle self-check failed: {e}"));
            return;
        }
        let g = &case.gds;
        let verdict = gdsflat::classify(g);
        let consistent = matches!((&verdict, case.intent), (Verdict::WellFormed, Intent::WellFormed) | (Verdict::MustError(_), Intent::MustError) | (Verdict::MayError(_), Intent::MayError));
        if !consistent {
            cx.machinery(format!("C06 generator/reference disagree on case {key}: intent {:?}, reference says {:?}", case.intent, verdict));
            return;
        }
        let nrefs = g.structs.iter().flat_map(|s| s.elems.iter()).filter(|e| matches!(e, GdsElement::GdsArrayRef(_) | GdsElement::GdsStructRef(_))).count();
        let nlabels = g.structs.iter().flat_map(|s| s.elems.iter()).filter(|e| matches!(e, GdsElement::GdsTextElem(_))).count();
        cx.state(hash_debug(g), nrefs + nlabels > 0 || case.intent != Intent::WellFormed);
        for t in &case.tags {
            cx.tag(t);
        }
        let input = || summary(g);
        let run = guard(|| run_subject(g));
        match case.intent {
            Intent::MustError | Intent::MayError => {
                let must = case.intent == Intent::MustError;
                let why = match &verdict {
                    Verdict::MustError(m) | Verdict::MayError(m) => m.clone(),
                    _ => String::new(),
                };
                match run {
                    Ok(Run::ImportErr(_)) => cx.outcome(if must { "err-as-required" } else { "err-as-expected" }),
                    Ok(_) => {
                        if must {
                            let f = if has_empty_path(g) && !has_empty_boundary(g) && !has_dangling(g) && !has_zero_aref(g) && gdsflat::find_cycle(g).is_none() { Some("empty_xy_path_accepted") } else { None };
                            cx.outcome("ok-on-malformed");
                            cx.fail(key, "malformed-accepted", f, || format!("from_gds returned Ok for a malformed library ({why}); input {}", input()), || json!({"reason": why}));
                        } else {
                            cx.outcome("ok-not-judged");
                        }
                    }
                    Err(p) => {
                        let f = if p.msg.contains("Option::unwrap()") && has_dangling(g) {
                            Some("dangling_reference_panics")
                        } else if p.msg.contains("divide by zero") && has_zero_aref(g) {
                            Some("aref_zero_rows_or_cols_panics")
                        } else if p.msg.contains("index out of bounds") && has_empty_boundary(g) {
                            Some("empty_xy_boundary_panics")
                        } else {
                            None
                        };
                        cx.outcome("panic-on-malformed");
                        cx.fail(key, "malformed-panic", f, || format!("from_gds panicked on a malformed library ({why}): {}; input {}", p.short(), input()), || json!({"reason": why, "panic": p.short()}));
                    }
                }
            }
            Intent::WellFormed => match run {
                Ok(Run::ImportErr(e)) => {
                    cx.outcome("err-on-wellformed");
                    let _ = e;
                }
                Ok(Run::Unreadable(m)) => {
                    cx.outcome("unreadable-result");
                    cx.fail(key, "result-unreadable", None, || format!("imported library cannot be read back: {m}; input {}", input()), || Value::Null);
                }
                Err(p) => {
                    let f = if p.msg.contains("multiply with overflow") && has_big_aref(g) {
                        Some("aref_count_overflows_i16")
                    } else if p.msg.contains("Non-Manhattan") && has_label_on_diagonal_path_layer(g) {
                        Some("label_on_diagonal_path_layer_unimplemented")
                    } else {
                        None
                    };
                    cx.outcome("panic");
                    cx.fail(key, "panic", f, || format!("{}; input {}", p.short(), input()), || json!({"panic": p.short()}));
                }
                Ok(Run::Observed(obs)) => {
                    let exp = match expect(g, Quirks::default()) {
                        Ok(e) => e,
                        Err(e) => {
                            cx.machinery(format!("C06 reference failed on case {key}: {e}"));
                            return;
                        }
                    };
                    for c in exp.cells.values() {
                        if c.labels_naming_a_net > 0 {
                            cx.tag("ref:label-names-a-net");
                        }
                        if !c.annotations.is_empty() {
                            cx.tag("ref:label-becomes-annotation");
                        }
                    }
                    let fails = compare(&exp, &obs);
                    if fails.is_empty() {
                        cx.outcome("ok");
                        return;
                    }
                    // is this exactly a recorded defect class? (input predicate + failure mode): the observation
                    // must equal the reference evaluated under the recorded defect's model, or - for rotated
                    // arrays with an axis-parallel lattice - differ from it by misplacement only
                    let mut finding: Option<&'static str> = None;
                    let f1 = has_reflected_quarter(g);
                    let f3 = has_non_axis_aref(g);
                    let angled = has_angled_axis_aref(g);
                    let got: BTreeMap<String, Bag<Key>> = obs.iter().filter_map(|(n, c)| c.flat.as_ref().and_then(|f| f.as_ref().ok()).map(|f| (n.clone(), f.clone()))).collect();
                    let subsets: [(bool, bool); 4] = [(false, false), (true, false), (false, true), (true, true)];
                    for (a, b) in subsets {
                        if (a && !f1) || (b && !f3) {
                            continue;
                        }
                        let q = Quirks { unreflected_quarter_turn: a, drop_non_axis_arrays: b };
                        let Ok(e2) = expect(g, q) else { continue };
                        let f2 = compare(&e2, &obs);
                        if f2.is_empty() {
                            finding = Some(if a { "reflected_quarter_turn_placed_unreflected" } else { "aref_non_axis_lattice_dropped" });
                            break;
                        }
                        if angled && f2.iter().all(|(s, _)| *s == "flatten-mismatch") && signature(&got) == signature(&e2.flat) {
                            finding = Some("aref_angle_mishandled");
                            break;
                        }
                    }
                    cx.outcome(fails[0].0);
                    let sig = fails[0].0;
                    cx.fail(
                        key,
                        sig,
                        finding,
                        || format!("{}; input {}", fails.iter().map(|f| f.1.clone()).collect::<Vec<_>>().join(" // "), input()),
                        || json!({"failures": fails.iter().map(|f| json!({"kind": f.0, "what": f.1})).collect::<Vec<_>>()}),
                    );
                }
            },
        }
    }
    fn guards(&self, tier: Tier, stats: &Stats, _distinct: u64) -> Result<(), String> {
        match self.part {
            Part::Hier => {
                require_tags(stats, &KIND_TAGS[..8])?;
                require_tags(stats, &ORIENT_TAGS_S)?;
                require_tags(stats, &ORIENT_TAGS_A)?;
                require_tags(stats, &LATTICE_TAGS)?;
                require_tags(stats, &BIG_TAGS)?;
                require_tags(stats, &SPELL_TAGS)?;
                require_tags(stats, &["levels:1", "levels:2", "levels:3", "hier:leaf-label", "hier:shared-leaf", "hier:wrapper-level", "hier:datatypes-beyond-255", "hier:leaf-far-from-origin", "hier:names-differ-only-in-case"])?;
                require_outcomes(stats, &["ok"])?;
                let ok = stats.outcomes.get("ok").copied().unwrap_or(0);
                let err = stats.outcomes.get("err-on-wellformed").copied().unwrap_or(0);
                if err * 10 > ok {
                    return Err(format!("vacuity guard: {err} well-formed libraries were refused against {ok} imported correctly"));
                }
            }
            Part::Deep => require_tags(stats, &["levels:4"])?,
            Part::Label => {
                require_tags(stats, &POS_TAGS)?;
                require_tags(stats, &["label:other-layer", "label:same-layer", "shape2:same-layer-overlapping", "label2:same-point-listed-before", "label2:inside-other-string", "order:labels-first", "order:interleaved", "start:v1", "start:v2", "start:v3", "direction:reversed", "ref:label-names-a-net", "ref:label-becomes-annotation", KIND_TAGS[8]])?;
            }
            Part::Grid => {
                require_tags(stats, &KIND_TAGS[..7])?;
                require_tags(stats, &["grid:label", "ref:label-names-a-net", "ref:label-becomes-annotation"])?;
            }
            Part::Mal => {
                require_tags(
                    stats,
                    &["mal:dangling-sref", "mal:dangling-aref", "mal:self-sref", "mal:self-aref", "mal:cycle-2", "mal:cycle-3", "mal:cols-0", "mal:rows-0", "mal:empty-xy-boundary", "mal:empty-xy-path", "may:boundary-not-closed", "may:path-without-width", "may:sref-abs-mag", "may:aref-abs-angle", "mal:in-top", "mal:in-leaf-of-2-levels", "mal:user-listed-after-dependency"],
                )?;
                // both classes observed: an error outcome and a success outcome somewhere in the property
                let errs = ["err-as-required", "err-as-expected"].iter().map(|k| stats.outcomes.get(*k).copied().unwrap_or(0)).sum::<u64>();
                if errs == 0 {
                    return Err("vacuity guard: no malformed input produced Err".into());
                }
            }
        }
        let _ = tier;
        Ok(())
    }
}

pub fn driver() -> Box<dyn Driver> {
    Box::new(C06Multi)
}

/// `Multi` with a tier-dependent part list (the 4-level part only runs in the thorough tier).
struct C06Multi;
fn multi(tier: Tier) -> Multi {
    let mut parts: Vec<(&'static str, Box<dyn Driver>)> = vec![("hier", Box::new(ByCase(C06 { part: Part::Hier }))), ("label", Box::new(ByCase(C06 { part: Part::Label }))), ("grid", Box::new(ByCase(C06 { part: Part::Grid }))), ("mal", Box::new(ByCase(C06 { part: Part::Mal })))];
    if tier.is_thorough() {
        parts.push(("deep", Box::new(ByCase(C06 { part: Part::Deep }))));
    }
    Multi { id: "C06", parts }
}
impl Driver for C06Multi {
    fn id(&self) -> &'static str {
        "C06"
    }
    fn describe(&self, tier: Tier) -> Describe {
        multi(tier).describe(tier)
    }
    fn units(&self, tier: Tier) -> Vec<String> {
        // expensive (process-killing) malformed cases first, so that their confirmation runs overlap the rest
        let mut u = multi(tier).units(tier);
        u.sort_by_key(|s| !s.starts_with("mal|"));
        u
    }
    fn run_unit(&self, unit: &str, cx: &mut Cx) {
        multi(cx.tier).run_unit(unit, cx)
    }
    fn run_case(&self, key: &str, cx: &mut Cx) {
        multi(cx.tier).run_case(key, cx)
    }
    fn classify_crash(&self, tier: Tier, key: &str, death: &Death) -> Option<String> {
        multi(tier).classify_crash(tier, key, death)
    }
    fn render_case(&self, tier: Tier, key: &str) -> Value {
        multi(tier).render_case(tier, key)
    }
    fn guards(&self, tier: Tier, stats: &Stats, distinct: u64) -> Result<(), String> {
        multi(tier).guards(tier, stats, distinct)
    }
    fn exhaustive(&self, tier: Tier) -> bool {
        multi(tier).exhaustive(tier)
    }
    fn deviation_bound(&self, tier: Tier) -> Option<usize> {
        Some(tier.pick(1, 1))
    }
}
