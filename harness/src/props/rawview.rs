//! Neutral, order-preserving view of a `layout21raw::Library` (harness side): layer keys resolved to
//! (layer number, purpose number), cell pointers to cell names, shapes to canonical shapes.
//! Used by C06, C07 and C14 to compare what the code under test produced with a reference.
//! Reading the result only touches public fields and the `Layers`/`Layer` look-ups.

use crate::refmodel::geom::P;
use crate::refmodel::gdsflat::{bag_add, Bag, CShape};
use layout21raw::{Abstract, Element, Layers, Layout, Library, Shape, Units};
use std::collections::BTreeMap;

#[derive(Clone, Debug, PartialEq, Eq, PartialOrd, Ord)]
pub struct VShape {
    pub layer: i16,
    pub purpose: i16,
    pub shape: CShape,
    pub net: Option<String>,
}
#[derive(Clone, Debug, PartialEq)]
pub struct VInst {
    pub name: String,
    pub cell: String,
    pub loc: P,
    pub reflect: bool,
    pub angle: Option<f64>,
}
impl VInst {
    /// angle as whole degrees in 0..360 (None and 0 are the same placement); Err for non-integers
    pub fn degrees(&self) -> Result<i64, String> {
        norm_angle(self.angle)
    }
}
pub fn norm_angle(a: Option<f64>) -> Result<i64, String> {
    match a {
        None => Ok(0),
        Some(a) => {
            if a.is_finite() && a.fract() == 0.0 && a.abs() < 1e9 {
                Ok((a as i64).rem_euclid(360))
            } else {
                Err(format!("angle {a}"))
            }
        }
    }
}
#[derive(Clone, Debug, Default, PartialEq)]
pub struct VLayout {
    pub name: String,
    pub shapes: Vec<VShape>,
    pub insts: Vec<VInst>,
    pub annotations: Vec<(String, P)>,
}
#[derive(Clone, Debug, Default, PartialEq)]
pub struct VPort {
    pub net: String,
    /// layer number -> shapes
    pub shapes: BTreeMap<i16, Bag<CShape>>,
}
#[derive(Clone, Debug, Default, PartialEq)]
pub struct VAbs {
    pub name: String,
    pub outline: Vec<P>,
    pub ports: Vec<VPort>,
    pub blockages: BTreeMap<i16, Bag<CShape>>,
}
#[derive(Clone, Debug, Default, PartialEq)]
pub struct VCell {
    pub name: String,
    pub layout: Option<VLayout>,
    pub abs: Option<VAbs>,
}
#[derive(Clone, Debug, PartialEq)]
pub struct VLib {
    pub name: String,
    pub units: Units,
    pub cells: Vec<VCell>,
}
impl VLib {
    pub fn cell(&self, name: &str) -> Option<&VCell> {
        self.cells.iter().find(|c| c.name == name)
    }
}

pub fn pt(p: &layout21raw::Point) -> P {
    (p.x as i64, p.y as i64)
}
pub fn cshape(s: &Shape) -> CShape {
    match s {
        Shape::Rect(r) => CShape::rect(pt(&r.p0), pt(&r.p1)),
        Shape::Polygon(p) => CShape::poly(&p.points.iter().map(pt).collect::<Vec<_>>()),
        Shape::Path(p) => CShape::Path(p.points.iter().map(pt).collect(), p.width as i64),
    }
}
pub fn velem(e: &Element, layers: &Layers) -> Result<VShape, String> {
    let layer = layers.get(e.layer).ok_or_else(|| "element on a layer key that is not in the library's Layers".to_string())?;
    let purpose = layer.num(&e.purpose).ok_or_else(|| format!("purpose {:?} has no number on layer {}", e.purpose, layer.layernum))?;
    Ok(VShape { layer: layer.layernum, purpose, shape: cshape(&e.inner), net: e.net.clone() })
}
pub fn vlayout(l: &Layout, layers: &Layers) -> Result<VLayout, String> {
    let mut v = VLayout { name: l.name.clone(), ..Default::default() };
    for e in &l.elems {
        v.shapes.push(velem(e, layers)?);
    }
    for i in &l.insts {
        let c = i.cell.read().map_err(|_| "poisoned cell pointer".to_string())?;
        v.insts.push(VInst { name: i.inst_name.clone(), cell: c.name.clone(), loc: pt(&i.loc), reflect: i.reflect_vert, angle: i.angle });
    }
    for a in &l.annotations {
        v.annotations.push((a.string.clone(), pt(&a.loc)));
    }
    Ok(v)
}
fn by_layer(m: &std::collections::HashMap<layout21raw::LayerKey, Vec<Shape>>, layers: &Layers) -> Result<BTreeMap<i16, Bag<CShape>>, String> {
    let mut out: BTreeMap<i16, Bag<CShape>> = BTreeMap::new();
    for (k, shapes) in m {
        let layer = layers.get(*k).ok_or_else(|| "abstract shape on a layer key that is not in the library's Layers".to_string())?;
        let e = out.entry(layer.layernum).or_default();
        for s in shapes {
            bag_add(e, cshape(s), 1);
        }
    }
    Ok(out)
}
pub fn vabs(a: &Abstract, layers: &Layers) -> Result<VAbs, String> {
    let mut v = VAbs { name: a.name.clone(), outline: a.outline.points.iter().map(pt).collect(), ..Default::default() };
    for p in &a.ports {
        v.ports.push(VPort { net: p.net.clone(), shapes: by_layer(&p.shapes, layers)? });
    }
    v.blockages = by_layer(&a.blockages, layers)?;
    Ok(v)
}
pub fn view(lib: &Library) -> Result<VLib, String> {
    let layers = lib.layers.read().map_err(|_| "poisoned layers pointer".to_string())?;
    let mut v = VLib { name: lib.name.clone(), units: lib.units, cells: vec![] };
    for c in lib.cells.iter() {
        let c = c.read().map_err(|_| "poisoned cell pointer".to_string())?;
        let mut vc = VCell { name: c.name.clone(), ..Default::default() };
        if let Some(l) = &c.layout {
            vc.layout = Some(vlayout(l, &layers)?);
        }
        if let Some(a) = &c.abs {
            vc.abs = Some(vabs(a, &layers)?);
        }
        v.cells.push(vc);
    }
    Ok(v)
}
