//! C03 — every grammar-conformant GDSII stream is read to exactly the content it encodes.
//!
//! Streams come from the independent reference ENCODER (`refmodel::gdsstream::encode`), never from the
//! crate's writer. Conformant streams must read to exactly the encoded value (also with arbitrary bytes
//! after ENDLIB); streams that use one of the library-level records documented as unsupported must give
//! `Err` — never `Ok`, never a panic.

use crate::core::*;
use crate::explore::Chooser;
use crate::props::c01::{debug_diff, families, family_tag, is_read_str_len0_panic, kind_ok_tag, read_lib, ref_self_check, require_families, space_rule, F_EMPTY, OK_KIND_TAGS};
use crate::props::gdsgen::*;
use crate::refmodel::gdsstream as gs;
use serde_json::{json, Value};

pub struct C03Case {
    pub lib: gs::RLib,
    pub family: &'static str,
    pub trailing: usize,
    pub extras: usize,
}

pub const TRAIL_NAMES: [&str; 15] = [
    "trail:none", "trail:zero-1", "trail:zero-2", "trail:zero-3", "trail:zero-4", "trail:zero-2044", "trail:zero-2048", "trail:ff-1", "trail:ff-2",
    "trail:ff-3", "trail:ff-2048", "trail:second-endlib", "trail:header-record", "trail:whole-structure", "trail:undefined-record",
];
pub fn trailing_bytes(k: usize) -> Vec<u8> {
    match k {
        0 => vec![],
        1 => vec![0; 1],
        2 => vec![0; 2],
        3 => vec![0; 3],
        4 => vec![0; 4],
        5 => vec![0; 2044],
        6 => vec![0; 2048],
        7 => vec![0xff; 1],
        8 => vec![0xff; 2],
        9 => vec![0xff; 3],
        10 => vec![0xff; 2048],
        11 => gs::records_to_bytes(&[gs::r_none(gs::rt::ENDLIB)]).unwrap(),
        12 => gs::records_to_bytes(&[gs::r_i16(gs::rt::HEADER, &[5])]).unwrap(),
        13 => gs::records_to_bytes(&[gs::r_i16(gs::rt::BGNSTR, &[7; 12]), gs::r_str(gs::rt::STRNAME, b"late"), gs::r_none(gs::rt::ENDSTR)]).unwrap(),
        _ => gs::records_to_bytes(&[gs::Rec::new(0x63, 9, vec![1, 2])]).unwrap(),
    }
}

pub const UNSUP_NAMES: [&str; 9] = [
    "unsup:libdirsize", "unsup:srfname", "unsup:libsecur", "unsup:reflibs", "unsup:fonts", "unsup:attrtable", "unsup:generations", "unsup:format",
    "unsup:format-masks",
];
fn name44(s: &str) -> Vec<u8> {
    let mut v = s.as_bytes().to_vec();
    v.resize(44, 0);
    v
}
/// add the i-th unsupported library-level record (at its grammatical position; the encoder places it)
pub fn add_unsupported(l: &mut gs::RLib, i: usize) {
    match i {
        0 => l.libdirsize = Some(7),
        1 => l.srfname = Some(b"rules.srf".to_vec()),
        2 => l.libsecur = Some(vec![1, 2, 7]),
        3 => {
            let mut v = name44("REFLIB_ONE.DB");
            v.extend(name44("reflib2"));
            l.reflibs = Some(v)
        }
        4 => {
            let mut v = vec![];
            for f in ["FONT0.TX", "font1", "f2", ""] {
                v.extend(name44(f));
            }
            l.fonts = Some(v)
        }
        5 => l.attrtable = Some(b"attrs.at".to_vec()),
        6 => l.generations = Some(3),
        7 => l.format = Some(gs::RFormat { kind: 0, masks: vec![] }),
        _ => l.format = Some(gs::RFormat { kind: 1, masks: vec![b"1 5-7 10".to_vec(), b"0-63".to_vec()] }),
    }
}
/// extras choice: 0 none, 1..=9 singles, then the 28 pairs of the first eight
pub fn apply_extras(l: &mut gs::RLib, k: usize) -> Vec<usize> {
    if k == 0 {
        return vec![];
    }
    if k <= 9 {
        add_unsupported(l, k - 1);
        return vec![k - 1];
    }
    let mut n = k - 10;
    for a in 0..8 {
        for b in (a + 1)..8 {
            if n == 0 {
                add_unsupported(l, a);
                add_unsupported(l, b);
                return vec![a, b];
            }
            n -= 1;
        }
    }
    panic!("MACHINERY: extras index out of range");
}
pub const N_EXTRAS: usize = 1 + 9 + 28;

pub struct C03;

impl CaseDriver for C03 {
    type Case = C03Case;
    fn id(&self) -> &'static str {
        "C03"
    }
    fn describe(&self, t: Tier) -> Describe {
        Describe {
            rule: format!(
                "streams = reference_encoder(value) ++ trailing bytes, for {} Dates deviate over {{witness, all 0, all -1, all MIN, all MAX, calendar, impossible/mixed}}. Trailing bytes after ENDLIB (costed, 14 alternatives): 1/2/3/4/2044/2048 zero bytes, 1/2/3/2048 bytes 0xFF, a second ENDLIB, a HEADER record, a whole structure, an undefined record. Expected-error half (costed, 37 alternatives): each of LIBDIRSIZE, SRFNAME, LIBSECUR, REFLIBS, FONTS, ATTRTABLE, GENERATIONS, FORMAT, FORMAT+MASK..ENDMASKS alone and all 28 pairs of the first eight, each at its grammatical position. The envelope (trailing bytes / unsupported records) is one more costed choice: it combines with every structural shape, and with at most one value deviation (none in the single and triples families). Values the format cannot carry faithfully (even-length strings ending in NUL, records over the length limit) are not streams of the grammar and are skipped (counted as 'skipped-unrepresentable', not as executions).",
                space_rule(t)
            ),
            assumptions: vec![
                "'padded or unpadded strings' = the two forms the format defines (odd length => one NUL, even length => none); doubly padded strings are not generated".into(),
                "for unsupported-feature streams any Err is accepted; Ok or a panic is a violation".into(),
                "+0.0 and -0.0 compare equal".into(),
            ],
            excluded: vec![
                "STRCLASS (reserved for Calma-internal use), STRANS flag bits other than 15/2/1, TAPENUM/TAPECODE multi-reel records, unnormalised reals (C10 feeds those)".into(),
                "streams outside the generator's families and bounds (see rule)".into(),
            ],
            technique: "deviation-bounded exhaustive enumeration of grammar-conformant streams from an independent encoder; real reader; value equality".into(),
        }
    }
    fn bound(&self, t: Tier) -> usize {
        t.pick(1, 2)
    }
    fn gen(&self, t: Tier, c: &mut Chooser) -> C03Case {
        let g = gen_lib(t, c, families(t));
        // the envelope (trailing bytes, unsupported records) combines with an all-witness value in the
        // large families and with at most one value deviation in the small ones
        let prior = if g.family == "single" || g.family == "triples" { 0 } else { 1 };
        let trailing = if c.deviations() <= prior { c.cost(TRAIL_NAMES.len(), "trailing") } else { 0 };
        let extras = if c.deviations() <= prior { c.cost(N_EXTRAS, "unsupported-records") } else { 0 };
        C03Case { lib: g.lib, family: g.family, trailing, extras }
    }
    fn check(&self, case: &C03Case, key: &str, cx: &mut Cx) {
        if !ref_self_check(cx) {
            return;
        }
        let rl = &case.lib;
        if gs::unrepresentable(rl).is_some() {
            cx.stats.executions -= 1;
            cx.outcome("skipped-unrepresentable");
            return;
        }
        let mut enc = rl.clone();
        let used = apply_extras(&mut enc, case.extras);
        let expect_err = !used.is_empty();
        let mut bytes = match gs::roundtrip_check(&enc) {
            Ok(b) => b,
            Err(e) => {
                cx.machinery(format!("reference codec self-check failed at case {key}: {e}"));
                return;
            }
        };
        bytes.extend(trailing_bytes(case.trailing));
        cx.state(hash_bytes(&bytes), rl.elems().next().is_some());
        for t in tags_of(rl) {
            cx.tag(t);
        }
        cx.tag(family_tag(case.family));
        cx.tag(TRAIL_NAMES[case.trailing]);
        for u in &used {
            cx.tag(UNSUP_NAMES[*u]);
        }
        let detail = |bytes: &[u8]| json!({"encoded_value": render_lib(&enc), "stream": render_bytes(bytes, 600), "trailing": TRAIL_NAMES[case.trailing]});
        match read_lib(&bytes) {
            Err(p) => {
                let f = if has_empty_string(&enc) && is_read_str_len0_panic(&p) { Some(F_EMPTY) } else { None };
                cx.outcome("read-panic");
                cx.fail(key, "read-panic", f, || format!("from_bytes of a grammar-conformant stream: {}", p.short()), || detail(&bytes));
            }
            Ok(Err(e)) => {
                if expect_err {
                    cx.outcome("err-unsupported");
                } else {
                    cx.outcome("read-err");
                    cx.fail(key, "read-err", None, || format!("grammar-conformant stream rejected: {e}"), || detail(&bytes));
                }
            }
            Ok(Ok(back)) => {
                if expect_err {
                    cx.outcome("ok-but-unsupported");
                    cx.fail(
                        key,
                        "unsupported-accepted",
                        None,
                        || format!("stream using {:?} was read as Ok instead of being reported as unsupported", used.iter().map(|u| UNSUP_NAMES[*u]).collect::<Vec<_>>()),
                        || detail(&bytes),
                    );
                    return;
                }
                let want = to_gds(rl);
                if back == want {
                    cx.outcome("ok");
                    for e in rl.elems() {
                        cx.tag(kind_ok_tag(e.kind));
                    }
                } else {
                    cx.outcome("mismatch");
                    cx.fail(key, "mismatch", None, || format!("stream read to different content: {}", debug_diff(&want, &back)), || detail(&bytes));
                }
            }
        }
    }
    fn render(&self, case: &C03Case) -> Value {
        let mut enc = case.lib.clone();
        let used = apply_extras(&mut enc, case.extras);
        let mut bytes = gs::encode(&enc).unwrap_or_default();
        bytes.extend(trailing_bytes(case.trailing));
        json!({"family": case.family, "encoded_value": render_lib(&enc), "trailing": TRAIL_NAMES[case.trailing],
               "unsupported_records": used.iter().map(|u| UNSUP_NAMES[*u]).collect::<Vec<_>>(), "stream": render_bytes(&bytes, 2000)})
    }
    fn guards(&self, t: Tier, stats: &Stats, _d: u64) -> Result<(), String> {
        let req: Vec<&str> = REQUIRED_TAGS.iter().copied().filter(|t| *t != "xy:over-limit").collect();
        require_tags(stats, &req)?;
        require_tags(stats, OK_KIND_TAGS)?;
        require_families(t, stats)?;
        require_tags(stats, &TRAIL_NAMES)?;
        require_tags(stats, &UNSUP_NAMES)?;
        require_outcomes(stats, &["ok", "err-unsupported", "skipped-unrepresentable"])?;
        let ok = stats.outcomes.get("ok").copied().unwrap_or(0);
        if ok * 2 < stats.executions {
            return Err(format!("vacuity guard: only {ok} of {} streams were read to their value", stats.executions));
        }
        Ok(())
    }
    fn unit_target(&self, _t: Tier) -> usize {
        1024
    }
}

pub fn driver() -> Box<dyn Driver> {
    Box::new(ByCase(C03))
}
