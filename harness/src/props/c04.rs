//! C04 — reading LEF yields every statement in it, with exact values.
//!
//! Library values from `lefgen` (value deviations bounded by the explorer) are rendered by the independent
//! renderer `refmodel::lefrender` in every lexical form with at most one (thorough: two, locally) lexical
//! deviation, written to a scratch file and read with the real `LefLibrary::open`; the result must equal
//! the generated value.

use crate::core::*;
use crate::explore::Chooser;
use crate::props::lefgen;
use crate::refmodel::lefrender::{self as lr, Dev, Rendered, TK};
use lef21::*;
use serde_json::{json, Value};

#[derive(Clone, Debug, PartialEq)]
pub enum Expect {
    MustOk,
    /// the statement does not fix whether this text is accepted: Err, or Ok with the exact value
    OkOrErr(&'static str),
}

pub struct LefCase {
    pub focus: &'static str,
    pub lib: LefLibrary,
    pub devs: Vec<Dev>,
    pub r: Rendered,
    pub expect: Expect,
    pub value_devs: usize,
    pub render_err: Option<String>,
}

pub const F_LEXER: &str = "lef_lexer_char_index_used_as_byte_index";
pub const F_DBU: &str = "lef_dbu_per_micron_takes_mantissa_of_scaled_decimal";
pub const F_PROPS: &str = "lef_reader_drops_macro_and_pin_properties";
pub const F_ITER: &str = "lef_reader_rejects_iterate_on_polygon_and_path";
pub const F_NAME: &str = "lef_lexer_rejects_name_starting_with_punctuation";

fn dec(s: &str) -> rust_decimal::Decimal {
    lefgen::d(s)
}

pub fn expectation(lib: &LefLibrary, devs: &[Dev]) -> Expect {
    let v = lib.version.unwrap_or_else(|| dec("5.8"));
    if lib.no_wire_extension_at_pin.is_some() && v > dec("5.4") {
        return Expect::OkOrErr("NOWIREEXTENSIONATPIN in a version above 5.4 (obsolete there)");
    }
    if devs.contains(&Dev::NoEndLibrary) && v < dec("5.6") {
        return Expect::OkOrErr("END LIBRARY omitted below version 5.6");
    }
    Expect::MustOk
}

thread_local! {
    // the explorer visits a value node and then all its lexical children: cache the last enumerations
    static PLAN1: std::cell::RefCell<Option<(Vec<u32>, std::rc::Rc<Vec<Dev>>)>> = std::cell::RefCell::new(None);
    static PLAN2: std::cell::RefCell<Option<(Vec<u32>, std::rc::Rc<Vec<Dev>>)>> = std::cell::RefCell::new(None);
}
fn cached(
    slot: &'static std::thread::LocalKey<std::cell::RefCell<Option<(Vec<u32>, std::rc::Rc<Vec<Dev>>)>>>,
    key: Vec<u32>,
    f: impl FnOnce() -> Vec<Dev>,
) -> std::rc::Rc<Vec<Dev>> {
    slot.with(|s| {
        let mut s = s.borrow_mut();
        if let Some((k, v)) = s.as_ref() {
            if *k == key {
                return v.clone();
            }
        }
        let v = std::rc::Rc::new(f());
        *s = Some((key, v.clone()));
        v
    })
}

/// Value choices (explorer-bounded), then the lexical deviation(s) as free choices.
pub fn gen_case(tier: Tier, c: &mut Chooser) -> LefCase {
    let (focus, lib) = lefgen::gen_library(c);
    let value_devs = c.deviations();
    let mut devs: Vec<Dev> = vec![];
    let all = cached(&PLAN1, c.choices(), || {
        let mut v = lr::enumerate(&lib, &[], None);
        if value_devs >= 2 {
            // two value deviations: every lexical deviation except the whitespace / comment gaps
            v.retain(|d| !matches!(d, Dev::Gap { .. }));
        }
        v
    });
    let i = c.free(all.len() + 1, "lex1");
    if i > 0 {
        devs.push(all[i - 1].clone());
        if tier.is_thorough() && value_devs == 0 {
            let all2 = cached(&PLAN2, c.choices(), || lr::enumerate(&lib, &devs, Some(12)));
            let j = c.free(all2.len() + 1, "lex2");
            if j > 0 {
                devs.push(all2[j - 1].clone());
            }
        }
    }
    let r = lr::render(&lib, &devs);
    let render_err = lr::check_render(&r).err();
    let expect = expectation(&lib, &devs);
    LefCase { focus, lib, devs, r, expect, value_devs, render_err }
}

/// What the statement leaves open is removed from both sides before comparing.
pub fn normalize(lib: &mut LefLibrary) {
    for m in lib.macros.iter_mut() {
        for p in m.pins.iter_mut() {
            for a in p.antenna_attrs.iter_mut() {
                a.key = a.key.to_ascii_uppercase();
            }
        }
    }
    for e in lib.extensions.iter_mut() {
        e.data = e.data.split_whitespace().collect::<Vec<_>>().join(" ");
    }
}

pub enum Opened {
    Panic(PanicInfo),
    Err(String, Option<(Option<char>, usize)>),
    Ok(LefLibrary),
}

/// Run the real reader on `text` through a scratch file.
pub fn open_text(cx: &Cx, text: &str, file: &str) -> Opened {
    let path = cx.scratch_file(file);
    if let Err(e) = std::fs::write(&path, text.as_bytes()) {
        panic!("MACHINERY: cannot write scratch file {path}: {e}");
    }
    match guard(|| {
        LefLibrary::open(&path).map_err(|e| {
            let lex = if let LefError::Lex { next_char, line, .. } = &e { Some((*next_char, *line)) } else { None };
            (format!("{e}"), lex)
        })
    }) {
        Err(p) => Opened::Panic(p),
        Ok(Err((e, lex))) => Opened::Err(e, lex),
        Ok(Ok(l)) => Opened::Ok(l),
    }
}

pub fn ascii_subst(text: &str) -> String {
    text.chars().map(|c| if c.is_ascii() { c } else if c.is_whitespace() { ' ' } else { 'x' }).collect()
}

fn clear_props(lib: &mut LefLibrary) {
    for m in lib.macros.iter_mut() {
        m.properties.clear();
        for p in m.pins.iter_mut() {
            p.properties.clear();
        }
    }
}
pub fn has_props(lib: &LefLibrary) -> bool {
    lib.macros.iter().any(|m| !m.properties.is_empty() || m.pins.iter().any(|p| !p.properties.is_empty()))
}

/// Index of the DATABASE MICRONS number token, if any.
fn dbu_token(r: &Rendered) -> Option<usize> {
    (2..r.toks.len()).find(|&i| r.toks[i].k == TK::Num && r.toks[i - 1].s == "MICRONS" && r.toks[i - 2].s == "DATABASE")
}

/// First name token that starts with a character that is neither a letter, a digit, '-' nor '.': (char, line)
fn odd_leading_name(r: &Rendered) -> Option<(char, usize)> {
    for a in lr::tokenize(&r.text) {
        if a.k == lr::RK::Word {
            let c = r.text[a.start..].chars().next().unwrap_or('a');
            if !(c.is_alphabetic() || c.is_ascii_digit() || c == '-' || c == '.') {
                let line = 1 + r.text[..a.start].matches('\n').count();
                return Some((c, line));
            }
        }
    }
    None
}

fn passes(cx: &Cx, text: &str, expected: &LefLibrary, odd: Option<(char, usize)>, may_err: bool) -> bool {
    match open_text(cx, text, "retest.lef") {
        Opened::Ok(mut l) => {
            normalize(&mut l);
            l == *expected
        }
        // a name starting with punctuation is present: what remains is exactly that (separately recorded) rejection
        Opened::Err(_, Some((Some(c), line))) if odd == Some((c, line)) => true,
        Opened::Err(..) => may_err,
        _ => false,
    }
}

/// POLYGON / PATH geometries with ITERATE turned into plain shapes.
fn strip_poly_path_iterate(lib: &mut LefLibrary) -> bool {
    let mut any = false;
    let mut fix = |l: &mut LefLayerGeometries| {
        for g in l.geometries.iter_mut() {
            if let LefGeometry::Iterate { shape, .. } = g {
                if !matches!(shape, LefShape::Rect(..)) {
                    any = true;
                    *g = LefGeometry::Shape(shape.clone());
                }
            }
        }
    };
    for m in lib.macros.iter_mut() {
        for l in m.obs.iter_mut() {
            fix(l);
        }
        for p in m.pins.iter_mut() {
            for port in p.ports.iter_mut() {
                for l in port.layers.iter_mut() {
                    fix(l);
                }
            }
        }
    }
    any
}

/// Which recorded defect class (input class + failure mode) explains this failure, if any. A class is
/// named only if removing exactly the triggers of the recorded classes present in the input (and nothing
/// else) makes the case pass; with several triggers present, the one whose removal is necessary is named.
fn attribute(case: &LefCase, expected: &LefLibrary, failure: &Opened, cx: &mut Cx) -> Option<&'static str> {
    if let Opened::Err(_, Some((Some(c), line))) = failure {
        if let Some((oc, oline)) = odd_leading_name(&case.r) {
            if *c == oc && *line == oline {
                return Some(F_NAME);
            }
        }
    }
    let r_ascii = !case.r.text.is_ascii();
    let dbu_dev = dbu_token(&case.r).and_then(|i| {
        case.devs.iter().position(|d| matches!(d, Dev::Spell { at, .. } if *at == i)).filter(|_| {
            let s = &case.r.spelled[i];
            s.find('.').map(|p| p + 1 < s.len()).unwrap_or(false)
        })
    });
    let r_props = has_props(&case.lib);
    let iter_toks = lr::iterate_tokens_of_polygon_and_path(&case.r.toks);
    let r_iter = !iter_toks.is_empty() && !matches!(failure, Opened::Ok(_));
    let mut applicable: Vec<&'static str> = vec![];
    if r_ascii {
        applicable.push(F_LEXER);
    }
    if dbu_dev.is_some() {
        applicable.push(F_DBU);
    }
    if r_iter {
        applicable.push(F_ITER);
    }
    if r_props {
        applicable.push(F_PROPS);
    }
    if applicable.is_empty() {
        return None;
    }
    let repaired = |skip: Option<&str>, cx: &mut Cx| -> bool {
        let mut devs = case.devs.clone();
        if let (Some(i), true) = (dbu_dev, skip != Some(F_DBU)) {
            devs.remove(i);
        }
        let mut exp = expected.clone();
        let omit: &[usize] = if r_iter && skip != Some(F_ITER) {
            strip_poly_path_iterate(&mut exp);
            &iter_toks
        } else {
            &[]
        };
        let rr = lr::render_omit(&case.lib, &devs, omit);
        let odd = odd_leading_name(&rr);
        let mut text = rr.text;
        if r_ascii && skip != Some(F_LEXER) {
            text = ascii_subst(&text);
        }
        if r_props && skip != Some(F_PROPS) {
            clear_props(&mut exp);
        }
        cx.stats.evaluations += 1;
        passes(cx, &text, &exp, odd, matches!(case.expect, Expect::OkOrErr(_)))
    };
    if !repaired(None, cx) {
        return None;
    }
    if applicable.len() == 1 {
        return Some(applicable[0]);
    }
    for f in &applicable {
        if !repaired(Some(f), cx) {
            return Some(f);
        }
    }
    Some(applicable[0])
}

/// First difference between two Debug renderings, with a little context.
pub fn first_diff(a: &str, b: &str) -> String {
    let (ab, bb) = (a.as_bytes(), b.as_bytes());
    let mut i = 0;
    while i < ab.len() && i < bb.len() && ab[i] == bb[i] {
        i += 1;
    }
    let lo = i.saturating_sub(60);
    let cut = |s: &str| {
        let mut l = lo;
        while !s.is_char_boundary(l) {
            l -= 1;
        }
        let mut h = (i + 60).min(s.len());
        while !s.is_char_boundary(h) {
            h += 1;
        }
        s[l..h].to_string()
    };
    format!("expected …{}… / read …{}…", cut(a), cut(b))
}

pub fn render_case_json(case: &LefCase) -> Value {
    json!({
        "focus": case.focus,
        "lexical_deviations": case.devs.iter().map(|d| lr::describe_dev(d, &case.r)).collect::<Vec<_>>(),
        "text": case.r.text,
        "expected_value": truncate(&format!("{:?}", case.lib), 3000),
        "expectation": format!("{:?}", case.expect),
    })
}

thread_local! {
    static SELF_CHECKED: std::cell::Cell<bool> = std::cell::Cell::new(false);
}
pub fn self_check_once(cx: &mut Cx) -> bool {
    if SELF_CHECKED.with(|s| s.get()) {
        return true;
    }
    match lr::self_check() {
        Ok(()) => {
            SELF_CHECKED.with(|s| s.set(true));
            true
        }
        Err(e) => {
            cx.machinery(format!("LEF reference renderer/tokenizer self-check failed: {e}"));
            false
        }
    }
}

/// Tags for the vacuity guards (only computed for cases without lexical deviation).
pub fn tag_case(case: &LefCase, cx: &mut Cx) {
    if case.devs.is_empty() {
        cx.tag(&format!("focus:{}", case.focus));
        for t in &case.r.toks {
            if t.k == TK::Key {
                cx.tag(&format!("kw:{}", t.s));
            }
        }
    }
    for d in &case.devs {
        cx.tag(match d {
            Dev::NoEndLibrary => "dev:noendlibrary",
            Dev::JoinProps => "dev:joinprops",
            Dev::AllCase(_) => "dev:allcase",
            Dev::Perm { .. } => "dev:perm",
            Dev::Gap { alt, .. } => match alt {
                0..=3 => "dev:gap-whitespace",
                6 => "dev:gap-nonascii-comment",
                _ => "dev:gap-comment",
            },
            Dev::Case { .. } => "dev:case",
            Dev::Spell { .. } => "dev:spell",
        });
    }
}

/// Keywords the generator + renderer must have produced at least once.
pub fn required_keyword_tags() -> Vec<String> {
    let unsupported = ["ROWPATTERN", "PATTERN", "MAXVIASTACK", "GENERATE"];
    lr::KEYWORDS.iter().filter(|k| !unsupported.contains(k)).map(|k| format!("kw:{k}")).collect()
}

pub struct C04;

impl CaseDriver for C04 {
    type Case = LefCase;
    fn id(&self) -> &'static str {
        "C04"
    }
    fn describe(&self, tier: Tier) -> Describe {
        Describe {
            rule: format!(
                "LefLibrary values from a grammar walk with {} foci (minimal, header statements x versions 5.3-5.8/none, UNITS with every legal DATABASE MICRONS value, PROPERTYDEFINITIONS, BEGINEXT, SITE, fixed VIA, generated VIA, MACRO statements incl. every class/sub-class, PIN attributes with every enum variant, the nine antenna keys, ports/layer options, RECT/POLYGON/PATH x MASK x ITERATE + layer VIAs, OBS, DENSITY, PROPERTY, a combined two-macro library); every field present with a distinct witness value by default, each costed alternative = another variant / absent / one of {} other numbers / {} other names; value deviations <= {}. Each value is rendered by the independent renderer in the default form and with every single lexical deviation (sibling-statement permutation, 8 whitespace/comment gap variants at every token boundary incl. non-ASCII comments, lower / alternating (aBcD) / title (Abcd) / upper-but-last (ABCd) case per keyword and globally, every alternative decimal spelling per number, END LIBRARY omitted, PROPERTY pairs joined){}. distinct = distinct text; non-trivial = the text contains a statement beyond VERSION / END LIBRARY.",
                lefgen::FOCI.len(),
                lefgen::NUM_ALTS.len(),
                lefgen::NAME_ALTS.len(),
                self.bound(tier),
                if tier.is_thorough() { "; values with two value deviations get the default form and every single lexical deviation except the whitespace/comment gaps; values without value deviation also get every pair of lexical deviations whose second lies within 12 tokens after the first (any distance if the first is global)" } else { "" }
            ),
            assumptions: vec![
                "decimals are compared by numeric value, never by scale; antenna keys are compared case-insensitively; BEGINEXT data is compared as a token sequence (white-space normalised)".into(),
                "VERSION stays the first statement under permutation; list items of one kind (pins, ports, properties, geometries ...) keep their relative order".into(),
                "tokens are always separated by white space (also before ';'); comments are only inserted after white space, never inside BEGINEXT bodies".into(),
                "END LIBRARY omitted below 5.6 and NOWIREEXTENSIONATPIN above 5.4: the statement does not fix acceptance, so Err or Ok-with-the-exact-value are both accepted (panic or a different value is not)".into(),
            ],
            excluded: vec![
                "'+' signs and exponent spellings of numbers; points in parentheses; VIA ... ITERATE / VIA MASK in layer geometries; ROWPATTERN, PATTERN, via PROPERTY, SITEPATTERN (unsupported by the data model)".into(),
                "values the syntax cannot express (EXCEPTPGNET false, FOREIGN orientation without a point, names that spell a number)".into(),
            ],
            technique: "deviation-bounded exhaustive enumeration of library values x lexical forms; independent renderer; whole-value equality on the real reader".into(),
        }
    }
    fn bound(&self, t: Tier) -> usize {
        t.pick(1, 2)
    }
    fn gen(&self, tier: Tier, c: &mut Chooser) -> LefCase {
        gen_case(tier, c)
    }
    fn unit_target(&self, t: Tier) -> usize {
        t.pick(40000, 60000)
    }
    fn render(&self, case: &LefCase) -> Value {
        render_case_json(case)
    }
    fn check(&self, case: &LefCase, key: &str, cx: &mut Cx) {
        if !self_check_once(cx) {
            return;
        }
        if let Some(e) = &case.render_err {
            cx.machinery(format!("renderer/tokenizer disagreement at case {key}: {e}"));
            return;
        }
        let nontrivial = case.r.toks.iter().any(|t| t.k == TK::Key && !matches!(t.s.as_str(), "VERSION" | "END" | "LIBRARY"));
        cx.state(hash_bytes(case.r.text.as_bytes()), nontrivial);
        tag_case(case, cx);
        let mut expected = case.lib.clone();
        normalize(&mut expected);
        let got = open_text(cx, &case.r.text, "in.lef");
        let may_err = matches!(case.expect, Expect::OkOrErr(_));
        let (sig, what): (&str, String) = match &got {
            Opened::Ok(l) => {
                let mut l = l.clone();
                normalize(&mut l);
                if l == expected {
                    cx.outcome(if may_err { "ok-where-err-allowed" } else { "ok" });
                    return;
                }
                ("value-mismatch", first_diff(&format!("{expected:?}"), &format!("{l:?}")))
            }
            Opened::Err(e, _) => {
                if may_err {
                    cx.outcome("err-allowed");
                    return;
                }
                ("open-error", truncate(e, 300))
            }
            Opened::Panic(p) => ("open-panic", p.short()),
        };
        let finding = attribute(case, &expected, &got, cx);
        cx.outcome(&format!("{sig}{}", finding.map(|f| format!("[{f}]")).unwrap_or_default()));
        cx.fail(
            key,
            sig,
            finding,
            || format!("{sig} on focus {} ({}): {what}", case.focus, case.devs.iter().map(|d| lr::describe_dev(d, &case.r)).collect::<Vec<_>>().join("; ")),
            || json!({"text": case.r.text, "what": what}),
        );
    }
    fn guards(&self, _tier: Tier, stats: &Stats, _distinct: u64) -> Result<(), String> {
        let mut tags: Vec<String> = lefgen::FOCI.iter().map(|f| format!("focus:{f}")).collect();
        tags.extend(required_keyword_tags());
        for t in [
            "dev:noendlibrary", "dev:joinprops", "dev:allcase", "dev:perm", "dev:gap-whitespace", "dev:gap-comment",
            "dev:gap-nonascii-comment", "dev:case", "dev:spell",
        ] {
            tags.push(t.to_string());
        }
        let refs: Vec<&str> = tags.iter().map(|s| s.as_str()).collect();
        require_tags(stats, &refs)?;
        require_outcomes(stats, &["ok"])?;
        let ok = stats.outcomes.get("ok").copied().unwrap_or(0);
        if ok * 2 < stats.executions {
            return Err(format!("vacuity guard: only {ok} of {} texts were read back equal", stats.executions));
        }
        Ok(())
    }
}

/// `ByCase` with a work split made for this space: every node reached through *free* value choices
/// (focus, version, ...) is expanded; each costed value alternative and each lexical alternative below such
/// a node is one sub-tree unit. (The generic breadth-first split leaves whole version sub-spaces as single
/// units, which serialises the tail of the run.)
pub struct LefSpace<T: CaseDriver>(pub ByCase<T>);

impl<T: CaseDriver> Driver for LefSpace<T> {
    fn id(&self) -> &'static str {
        self.0.id()
    }
    fn describe(&self, tier: Tier) -> Describe {
        self.0.describe(tier)
    }
    fn units(&self, tier: Tier) -> Vec<String> {
        use crate::explore::{children, Unit};
        let bound = self.0 .0.bound(tier);
        let mut out: Vec<String> = vec![];
        let mut stack: Vec<Vec<u32>> = vec![vec![]];
        while let Some(pre) = stack.pop() {
            let mut ch = Chooser::new(&pre);
            let _ = self.0 .0.gen(tier, &mut ch);
            out.push(Unit::Single(pre.clone()).to_string());
            for kid in children(&ch.trace, pre.len(), bound) {
                let point = &ch.trace[kid.len() - 1];
                if !point.costed && !point.label.starts_with("lex") {
                    stack.push(kid);
                } else {
                    out.push(Unit::Tree(kid).to_string());
                }
            }
        }
        out
    }
    fn run_unit(&self, unit: &str, cx: &mut Cx) {
        self.0.run_unit(unit, cx)
    }
    fn run_case(&self, key: &str, cx: &mut Cx) {
        self.0.run_case(key, cx)
    }
    fn classify_crash(&self, tier: Tier, key: &str, death: &Death) -> Option<String> {
        self.0.classify_crash(tier, key, death)
    }
    fn render_case(&self, tier: Tier, key: &str) -> Value {
        self.0.render_case(tier, key)
    }
    fn guards(&self, tier: Tier, stats: &Stats, distinct: u64) -> Result<(), String> {
        self.0.guards(tier, stats, distinct)
    }
    fn deviation_bound(&self, tier: Tier) -> Option<usize> {
        self.0.deviation_bound(tier)
    }
}

pub fn driver() -> Box<dyn Driver> {
    Box::new(LefSpace(ByCase(C04)))
}
