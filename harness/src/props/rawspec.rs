//! Neutral description (`Spec`) of a raw library, from which the drivers build BOTH the input for the code
//! under test (a `layout21raw::Library`, or a protobuf message) AND the expected result. Shared by C07 and C14.

use crate::props::rawview::{VAbs, VCell, VInst, VLayout, VLib, VPort, VShape};
use crate::refmodel::gdsflat::{bag_add, CShape};
use crate::refmodel::geom::P;
use layout21raw::utils::Ptr;
use layout21raw::{Abstract, AbstractPort, Cell, Element, Instance, Layer, LayerKey, LayerPurpose, Layers, Layout, Library, Path, Point, Polygon, Rect, Shape, TextElement, Units};
use std::collections::BTreeMap;

#[derive(Clone, Debug, PartialEq)]
pub enum SGeom {
    Rect(P, P),
    Poly(Vec<P>),
    Path(Vec<P>, i64),
}
fn rp(p: P) -> Point {
    Point::new(p.0 as isize, p.1 as isize)
}
impl SGeom {
    pub fn canon(&self) -> CShape {
        match self {
            SGeom::Rect(a, b) => CShape::rect(*a, *b),
            SGeom::Poly(p) => CShape::poly(p),
            SGeom::Path(p, w) => CShape::Path(p.clone(), *w),
        }
    }
    pub fn to_raw(&self) -> Shape {
        match self {
            SGeom::Rect(a, b) => Shape::Rect(Rect { p0: rp(*a), p1: rp(*b) }),
            SGeom::Poly(p) => Shape::Polygon(Polygon { points: p.iter().map(|x| rp(*x)).collect() }),
            SGeom::Path(p, w) => Shape::Path(Path { points: p.iter().map(|x| rp(*x)).collect(), width: *w as usize }),
        }
    }
    pub fn shifted(&self, d: P) -> SGeom {
        let f = |p: &P| (p.0 + d.0, p.1 + d.1);
        match self {
            SGeom::Rect(a, b) => SGeom::Rect(f(a), f(b)),
            SGeom::Poly(p) => SGeom::Poly(p.iter().map(f).collect()),
            SGeom::Path(p, w) => SGeom::Path(p.iter().map(f).collect(), *w),
        }
    }
}

/// The technology: three layers, each with numbered purposes. Witness numbers are pairwise different.
pub struct LayerDef {
    pub num: i16,
    pub name: &'static str,
    pub purposes: Vec<(i16, LayerPurpose)>,
}
pub fn tech() -> Vec<LayerDef> {
    vec![
        LayerDef { num: 11, name: "la", purposes: vec![(21, LayerPurpose::Drawing), (22, LayerPurpose::Pin), (23, LayerPurpose::Label), (24, LayerPurpose::Obstruction), (25, LayerPurpose::Outline)] },
        LayerDef { num: 12, name: "lb", purposes: vec![(31, LayerPurpose::Drawing), (7, LayerPurpose::Other(7)), (33, LayerPurpose::Label), (32, LayerPurpose::Pin), (34, LayerPurpose::Obstruction)] },
        // purpose numbers beyond one byte and below zero; drawing on a non-zero number with purpose 0 left undeclared
        LayerDef { num: 13, name: "lc", purposes: vec![(20, LayerPurpose::Drawing), (256, LayerPurpose::Other(256)), (300, LayerPurpose::Other(300)), (-5, LayerPurpose::Other(-5)), (16, LayerPurpose::Pin), (18, LayerPurpose::Obstruction)] },
        // layer numbers beyond one byte
        LayerDef { num: 1000, name: "ld", purposes: vec![(20, LayerPurpose::Drawing), (16, LayerPurpose::Pin), (5, LayerPurpose::Label)] },
        LayerDef { num: 32767, name: "le", purposes: vec![(0, LayerPurpose::Drawing), (2, LayerPurpose::Label)] },
    ]
}
pub fn layer_num(layer: usize) -> i16 {
    tech()[layer].num
}
/// number of the `purpose`-th purpose of `layer`
pub fn purpose_num(layer: usize, purpose: usize) -> i16 {
    tech()[layer].purposes[purpose].0
}
pub fn purpose_num_of(layer: usize, p: &LayerPurpose) -> i16 {
    tech()[layer].purposes.iter().find(|x| x.1 == *p).map(|x| x.0).expect("MACHINERY: purpose not in tech")
}

#[derive(Clone, Debug, PartialEq)]
pub struct SShape {
    /// index into `tech()`
    pub layer: usize,
    /// index into the layer's purposes
    pub purpose: usize,
    pub geom: SGeom,
    pub net: Option<String>,
}
#[derive(Clone, Debug, PartialEq)]
pub struct SInst {
    pub name: String,
    /// name of the target cell
    pub cell: String,
    pub loc: P,
    pub reflect: bool,
    pub angle: Option<f64>,
}
#[derive(Clone, Debug, Default, PartialEq)]
pub struct SLayout {
    pub shapes: Vec<SShape>,
    pub insts: Vec<SInst>,
    pub annotations: Vec<(String, P)>,
}
#[derive(Clone, Debug, Default, PartialEq)]
pub struct SPort {
    pub net: String,
    /// (layer index, shapes)
    pub shapes: Vec<(usize, Vec<SGeom>)>,
}
#[derive(Clone, Debug, Default, PartialEq)]
pub struct SAbs {
    pub outline: Vec<P>,
    pub ports: Vec<SPort>,
    pub blockages: Vec<(usize, Vec<SGeom>)>,
}
#[derive(Clone, Debug, Default, PartialEq)]
pub struct SCell {
    pub name: String,
    pub layout: Option<SLayout>,
    pub abs: Option<SAbs>,
    /// names of the layout and of the abstract view where they differ from the cell's name
    pub view_names: Option<(String, String)>,
}
impl SCell {
    pub fn layout_name(&self) -> String {
        self.view_names.as_ref().map(|v| v.0.clone()).unwrap_or_else(|| self.name.clone())
    }
    pub fn abs_name(&self) -> String {
        self.view_names.as_ref().map(|v| v.1.clone()).unwrap_or_else(|| self.name.clone())
    }
}
#[derive(Clone, Debug, PartialEq)]
pub struct Spec {
    pub name: String,
    pub units: Units,
    /// in listing order
    pub cells: Vec<SCell>,
}

pub fn build_layers() -> (Layers, Vec<LayerKey>) {
    let mut layers = Layers::default();
    let mut keys = vec![];
    for l in tech() {
        let layer = Layer::new(l.num, l.name).add_pairs(&l.purposes).expect("MACHINERY: tech layer");
        keys.push(layers.add(layer));
    }
    (layers, keys)
}

/// Build the raw library (listing order = spec order; instances may point to cells listed later).
pub fn build_raw(spec: &Spec) -> Library {
    let (layers, keys) = build_layers();
    let mut lib = Library::new(spec.name.clone(), spec.units);
    lib.layers = Ptr::new(layers);
    let ptrs: Vec<Ptr<Cell>> = spec.cells.iter().map(|c| Ptr::new(Cell::new(c.name.clone()))).collect();
    let by_name: BTreeMap<&str, &Ptr<Cell>> = spec.cells.iter().zip(ptrs.iter()).map(|(c, p)| (c.name.as_str(), p)).collect();
    let by_layer = |groups: &Vec<(usize, Vec<SGeom>)>| {
        let mut m = std::collections::HashMap::new();
        for (l, shapes) in groups {
            m.insert(keys[*l], shapes.iter().map(|g| g.to_raw()).collect::<Vec<Shape>>());
        }
        m
    };
    for (sc, ptr) in spec.cells.iter().zip(ptrs.iter()) {
        let mut cell = ptr.write().expect("MACHINERY: fresh cell lock");
        if let Some(l) = &sc.layout {
            let mut lay = Layout { name: sc.layout_name(), ..Default::default() };
            for s in &l.shapes {
                let purpose = tech()[s.layer].purposes[s.purpose].1.clone();
                lay.elems.push(Element { net: s.net.clone(), layer: keys[s.layer], purpose, inner: s.geom.to_raw() });
            }
            for i in &l.insts {
                let target = by_name.get(i.cell.as_str()).expect("MACHINERY: spec instance of unknown cell");
                lay.insts.push(Instance { inst_name: i.name.clone(), cell: Ptr::clone(target), loc: rp(i.loc), reflect_vert: i.reflect, angle: i.angle });
            }
            for (s, at) in &l.annotations {
                lay.annotations.push(TextElement { string: s.clone(), loc: rp(*at) });
            }
            cell.layout = Some(lay);
        }
        if let Some(a) = &sc.abs {
            let mut abs = Abstract::new(sc.abs_name(), Polygon { points: a.outline.iter().map(|p| rp(*p)).collect() });
            for p in &a.ports {
                let mut port = AbstractPort::new(p.net.clone());
                port.shapes = by_layer(&p.shapes);
                abs.ports.push(port);
            }
            abs.blockages = by_layer(&a.blockages);
            cell.abs = Some(abs);
        }
    }
    for p in ptrs {
        lib.cells.push(p);
    }
    lib
}

fn by_layer_view(groups: &Vec<(usize, Vec<SGeom>)>) -> BTreeMap<i16, crate::refmodel::gdsflat::Bag<CShape>> {
    let mut m: BTreeMap<i16, crate::refmodel::gdsflat::Bag<CShape>> = BTreeMap::new();
    for (l, shapes) in groups {
        let e = m.entry(layer_num(*l)).or_default();
        for s in shapes {
            bag_add(e, s.canon(), 1);
        }
    }
    m
}

/// The view (see `rawview`) a faithful copy of `spec` must have. `lower_nets`: GDS round trips lower-case nets.
pub fn expected_view(spec: &Spec, lower_nets: bool) -> VLib {
    let mut v = VLib { name: spec.name.clone(), units: spec.units, cells: vec![] };
    for c in &spec.cells {
        let mut vc = VCell { name: c.name.clone(), ..Default::default() };
        if let Some(l) = &c.layout {
            let mut vl = VLayout { name: c.layout_name(), ..Default::default() };
            for s in &l.shapes {
                let net = s.net.as_ref().map(|n| if lower_nets { n.to_lowercase() } else { n.clone() });
                vl.shapes.push(VShape { layer: layer_num(s.layer), purpose: purpose_num(s.layer, s.purpose), shape: s.geom.canon(), net });
            }
            for i in &l.insts {
                vl.insts.push(VInst { name: i.name.clone(), cell: i.cell.clone(), loc: i.loc, reflect: i.reflect, angle: i.angle });
            }
            vl.annotations = l.annotations.clone();
            vc.layout = Some(vl);
        }
        if let Some(a) = &c.abs {
            let mut va = VAbs { name: c.abs_name(), outline: a.outline.clone(), ..Default::default() };
            for p in &a.ports {
                va.ports.push(VPort { net: p.net.clone(), shapes: by_layer_view(&p.shapes) });
            }
            va.blockages = by_layer_view(&a.blockages);
            vc.abs = Some(va);
        }
        v.cells.push(vc);
    }
    v
}

pub fn render(spec: &Spec) -> serde_json::Value {
    serde_json::json!({
        "name": spec.name,
        "units": format!("{:?}", spec.units),
        "layers": tech().iter().map(|l| format!("{} = layer {} purposes {:?}", l.name, l.num, l.purposes)).collect::<Vec<_>>(),
        "cells": spec.cells.iter().map(|c| format!("{c:?}")).collect::<Vec<_>>(),
    })
}

/// What a comparison of two library views covers.
#[derive(Clone, Copy, Debug)]
pub struct CmpMode {
    pub lib_name: bool,
    /// instances as an ordered list including their names (otherwise: multiset of (cell, loc, reflect, angle))
    pub inst_list_with_names: bool,
    pub annotations: bool,
    pub abstracts: bool,
    /// the layout view's own name (GDSII cannot carry it)
    pub layout_name: bool,
}

fn inst_key(i: &VInst, with_name: bool) -> String {
    let a = match i.degrees() {
        Ok(d) => format!("{d} deg"),
        Err(e) => e,
    };
    if with_name {
        format!("{:?} -> {} at {:?} reflect {} angle {}", i.name, i.cell, i.loc, i.reflect, a)
    } else {
        format!("{} at {:?} reflect {} angle {}", i.cell, i.loc, i.reflect, a)
    }
}

/// Every disagreement between the expected and the observed view, as (signature, description).
pub fn compare_views(exp: &VLib, got: &VLib, mode: CmpMode) -> Vec<(&'static str, String)> {
    use crate::refmodel::gdsflat::{bag_diff, bag_of};
    let mut out = vec![];
    if mode.lib_name && exp.name != got.name {
        out.push(("library-name", format!("library name {:?} became {:?}", exp.name, got.name)));
    }
    if exp.units != got.units {
        out.push(("units", format!("units {:?} became {:?}", exp.units, got.units)));
    }
    let mut en: Vec<&str> = exp.cells.iter().map(|c| c.name.as_str()).collect();
    let mut gn: Vec<&str> = got.cells.iter().map(|c| c.name.as_str()).collect();
    en.sort();
    gn.sort();
    if en != gn {
        out.push(("cell-set", format!("cells {:?} became {:?}", en, gn)));
    }
    for ec in &exp.cells {
        let Some(gc) = got.cell(&ec.name) else { continue };
        let name = &ec.name;
        match (&ec.layout, &gc.layout) {
            (None, None) => {}
            (Some(_), None) => out.push(("layout-view-lost", format!("cell {name}: layout view lost"))),
            (None, Some(_)) => out.push(("layout-view-invented", format!("cell {name}: layout view appeared"))),
            (Some(el), Some(gl)) => {
                if mode.layout_name && el.name != gl.name {
                    out.push(("layout-name", format!("cell {name}: layout view name {:?} became {:?}", el.name, gl.name)));
                }
                if mode.inst_list_with_names {
                    let e: Vec<String> = el.insts.iter().map(|i| inst_key(i, true)).collect();
                    let g: Vec<String> = gl.insts.iter().map(|i| inst_key(i, true)).collect();
                    if e != g {
                        out.push(("instances", format!("cell {name}: instances {:?} became {:?}", e, g)));
                    }
                } else {
                    let e = bag_of(el.insts.iter().map(|i| inst_key(i, false)));
                    let g = bag_of(gl.insts.iter().map(|i| inst_key(i, false)));
                    if e != g {
                        let (missing, extra) = bag_diff(&e, &g, 3);
                        out.push(("instances", format!("cell {name}: instances missing {:?}, unexpected {:?}", missing, extra)));
                    }
                }
                let e = bag_of(el.shapes.iter().cloned());
                let g = bag_of(gl.shapes.iter().cloned());
                if e != g {
                    let (missing, extra) = bag_diff(&e, &g, 3);
                    let strip = |v: &Vec<VShape>| bag_of(v.iter().map(|s| (s.layer, s.purpose, s.shape.clone())));
                    let strip2 = |v: &Vec<VShape>| bag_of(v.iter().map(|s| (s.shape.clone(), s.net.clone())));
                    let sig = if strip(&el.shapes) == strip(&gl.shapes) {
                        "shape-net"
                    } else if strip2(&el.shapes) == strip2(&gl.shapes) {
                        "shape-layer-purpose"
                    } else {
                        "shapes"
                    };
                    out.push((sig, format!("cell {name}: shapes (layer, purpose, shape, net) missing {:?}, unexpected {:?}", missing, extra)));
                }
                if mode.annotations && el.annotations != gl.annotations {
                    out.push(("annotations", format!("cell {name}: annotations {:?} became {:?}", el.annotations, gl.annotations)));
                }
            }
        }
        if !mode.abstracts {
            continue;
        }
        match (&ec.abs, &gc.abs) {
            (None, None) => {}
            (Some(_), None) => out.push(("abstract-view-lost", format!("cell {name}: abstract view lost"))),
            (None, Some(_)) => out.push(("abstract-view-invented", format!("cell {name}: abstract view appeared"))),
            (Some(ea), Some(ga)) => {
                if ea.name != ga.name {
                    out.push(("abstract-name", format!("cell {name}: abstract name {:?} became {:?}", ea.name, ga.name)));
                }
                if CShape::poly(&ea.outline) != CShape::poly(&ga.outline) {
                    out.push(("abstract-outline", format!("cell {name}: outline {:?} became {:?}", ea.outline, ga.outline)));
                }
                if ea.ports != ga.ports {
                    out.push(("abstract-ports", format!("cell {name}: ports {:?} became {:?}", ea.ports, ga.ports)));
                }
                if ea.blockages != ga.blockages {
                    out.push(("abstract-blockages", format!("cell {name}: blockages {:?} became {:?}", ea.blockages, ga.blockages)));
                }
            }
        }
    }
    out
}
