//! C18 — JSON and YAML copies of GDSII and LEF libraries are lossless.
//!
//! Parts:
//!  D  doubles: every value of the C15 double alphabet at every f64 site of a GDSII library x {Json, Yaml}
//!     x {to_string+from_str, save+open}; compared bit for bit.
//!  S  strings: every string of length <= 2 (thorough 3) over a 27-character alphabet of characters special
//!     to JSON / YAML, plus a list of whole strings, at every string site of a GDSII library and of a LEF
//!     library x formats x both paths; compared byte for byte.
//!  G  structure: GDSII libraries from the shared generator (every element kind, every optional-field
//!     subset) and LEF libraries (hand-built full library, repository LEF resources, reader images)
//!     x formats x both paths; value equality.
//!  M  markup converters: GDSII file -> to_markup -> from_markup -> GDSII file, bytes identical.

use crate::core::*;
use crate::explore::Chooser;
use crate::props::c15;
use gds21::*;
use layout21utils::ser::SerializationFormat;
use layout21utils::SerdeFile;
use lef21::*;
use serde_json::{json, Value};

pub struct C18;

const FMTS: [(&str, SerializationFormat); 2] = [("json", SerializationFormat::Json), ("yaml", SerializationFormat::Yaml)];

pub const SIGMA: [&str; 27] = ["\"", "'", ":", "#", "\\", " ", "\n", "\t", "\r", "-", "?", "[", "{", "&", "*", "!", "|", ">", "%", "@", "`", "~", ",", "\u{e9}", "1", "a", "\u{0}"];

pub fn whole_strings() -> Vec<String> {
    let v = [
        "", "null", "Null", "NULL", "~", "true", "True", "TRUE", "false", "yes", "Yes", "no", "No", "on", "off", "y", "n", "1e3", "1.5", "-1", "+1", "0x1f", "0o17", "0b1", ".inf", "-.inf", ".nan", ".NaN", "1_000",
        "---", "...", "--- a", "- a", "-", "- ", "a: b", "a:b", "a :b", ": a", "a #b", "a# b", "#a", "? a", "[a]", "[", "]", "{a: b}", "{", "}", "&a", "*a", "!a", "!!str a", "|", ">", "|-", ">+", "%YAML", "@a", "`a`",
        " a", "a ", " a ", "  ", "\ta", "a\t", "a\nb", "a\n", "\na", "a\r\nb", "a\n \nb", "a\n\t\nb", "\n\n", " \n ", "a\n  b\n c", "  a\n b", "a\\nb", "a\\", "\\", "\"a\"", "'a'", "a\"b", "a'b", "'", "\"",
        "\u{feff}a", "a\u{85}b", "a\u{2028}b", "a\u{2029}b", "a\u{0}b", "\u{7f}", "\u{1}", "\u{1b}[0m", "\u{e9}", "\u{20ac}", "\u{1f600}", "e\u{301}", "\u{a0}", "2001-12-14", "12:30:45", "1:2", "<<", "=",
        "a,b", "a, b", "[a, b]", "key: [1, 2]", "a: - b", "very long string with spaces and: colons # and hashes that goes on and on and on and on and on and on and on and on and on and on and on",
    ];
    let mut out: Vec<String> = v.iter().map(|s| s.to_string()).collect();
    // long strings of multi-byte characters at shifted byte offsets (buffered / chunked readers), multi-line text
    // with trailing and CRLF line breaks
    for k in 0..3 {
        out.push(format!("{}{}", "a".repeat(k), "\u{20ac}".repeat(6000)));
    }
    out.push("\u{1f600}".repeat(5000));
    out.push(format!("{}\u{e9}", "x".repeat(8191)));
    out.push("line one\nline two\n".to_string());
    out.push("crlf one\r\ncrlf two".to_string());
    out.push("ends with newline\n".to_string());
    out
}

fn date() -> GdsDateTime {
    c15::chrono_fixed()
}

/// A GDSII library with one element of every kind, every optional field present.
pub fn full_gds() -> GdsLibrary {
    let mut lib = GdsLibrary::new("lib");
    lib.units = GdsUnits::new(1e-3, 1e-9);
    let props = vec![GdsProperty { attr: 7, value: "pv".into() }, GdsProperty { attr: -3, value: "second".into() }];
    let mut s = GdsStruct::new("S1");
    s.elems.push(GdsElement::GdsBoundary(GdsBoundary {
        layer: 11,
        datatype: 12,
        xy: GdsPoint::vec(&[(0, 0), (10, 0), (10, -10), (0, 0)]),
        elflags: Some(GdsElemFlags(0x12, 0x34)),
        plex: Some(GdsPlex(77)),
        properties: props.clone(),
    }));
    s.elems.push(GdsElement::GdsPath(GdsPath {
        layer: 13,
        datatype: 14,
        xy: GdsPoint::vec(&[(0, 0), (5, 0), (5, 9)]),
        width: Some(4),
        path_type: Some(2),
        begin_extn: Some(11),
        end_extn: Some(-7),
        elflags: Some(GdsElemFlags(1, 2)),
        plex: Some(GdsPlex(-5)),
        properties: props.clone(),
    }));
    s.elems.push(GdsElement::GdsStructRef(GdsStructRef {
        name: "S2".into(),
        xy: GdsPoint::new(3, -4),
        strans: Some(GdsStrans { reflected: true, abs_mag: true, abs_angle: false, mag: Some(2.5), angle: Some(90.0) }),
        elflags: None,
        plex: None,
        properties: vec![],
    }));
    s.elems.push(GdsElement::GdsArrayRef(GdsArrayRef {
        name: "S2".into(),
        xy: [GdsPoint::new(0, 0), GdsPoint::new(30, 0), GdsPoint::new(0, 50)],
        cols: 3,
        rows: 5,
        strans: Some(GdsStrans { reflected: false, abs_mag: false, abs_angle: true, mag: None, angle: Some(270.0) }),
        elflags: Some(GdsElemFlags(0, 1)),
        plex: Some(GdsPlex(1)),
        properties: props.clone(),
    }));
    s.elems.push(GdsElement::GdsTextElem(GdsTextElem {
        string: "txt".into(),
        layer: 15,
        texttype: 16,
        xy: GdsPoint::new(-1, -2),
        presentation: Some(GdsPresentation(0, 0x25)),
        path_type: Some(1),
        width: Some(-9),
        strans: Some(GdsStrans { reflected: false, abs_mag: false, abs_angle: false, mag: Some(0.001), angle: None }),
        elflags: Some(GdsElemFlags(3, 4)),
        plex: Some(GdsPlex(2)),
        properties: props.clone(),
    }));
    s.elems.push(GdsElement::GdsNode(GdsNode { layer: 17, nodetype: 18, xy: GdsPoint::vec(&[(1, 1), (2, 2)]), elflags: None, plex: Some(GdsPlex(3)), properties: vec![] }));
    s.elems.push(GdsElement::GdsBox(GdsBox {
        layer: 19,
        boxtype: 20,
        xy: [GdsPoint::new(0, 0), GdsPoint::new(4, 0), GdsPoint::new(4, 4), GdsPoint::new(0, 4), GdsPoint::new(0, 0)],
        elflags: Some(GdsElemFlags(5, 6)),
        plex: None,
        properties: props,
    }));
    lib.structs.push(s);
    lib.structs.push(GdsStruct::new("S2"));
    lib.set_all_dates(date());
    lib
}

pub const GDS_STRING_SITES: usize = 6;
fn set_gds_string(lib: &mut GdsLibrary, site: usize, s: &str) {
    match site {
        0 => lib.name = s.to_string(),
        1 => lib.structs[0].name = s.to_string(),
        2 => {
            if let GdsElement::GdsStructRef(r) = &mut lib.structs[0].elems[2] {
                r.name = s.to_string()
            }
        }
        3 => {
            if let GdsElement::GdsArrayRef(r) = &mut lib.structs[0].elems[3] {
                r.name = s.to_string()
            }
        }
        4 => {
            if let GdsElement::GdsTextElem(r) = &mut lib.structs[0].elems[4] {
                r.string = s.to_string()
            }
        }
        _ => {
            if let GdsElement::GdsBoundary(r) = &mut lib.structs[0].elems[0] {
                r.properties[0].value = s.to_string()
            }
        }
    }
}
pub const GDS_F64_SITES: usize = 6;
fn set_gds_f64(lib: &mut GdsLibrary, site: usize, x: f64) {
    match site {
        0 => lib.units.0 = x,
        1 => lib.units.1 = x,
        2 | 3 => {
            if let GdsElement::GdsStructRef(r) = &mut lib.structs[0].elems[2] {
                let st = r.strans.as_mut().unwrap();
                if site == 2 {
                    st.mag = Some(x)
                } else {
                    st.angle = Some(x)
                }
            }
        }
        4 => {
            if let GdsElement::GdsArrayRef(r) = &mut lib.structs[0].elems[3] {
                r.strans.as_mut().unwrap().angle = Some(x)
            }
        }
        _ => {
            if let GdsElement::GdsTextElem(r) = &mut lib.structs[0].elems[4] {
                r.strans.as_mut().unwrap().mag = Some(x)
            }
        }
    }
}
fn gds_f64_bits(lib: &GdsLibrary) -> Vec<u64> {
    let mut v = vec![lib.units.0.to_bits(), lib.units.1.to_bits()];
    for s in &lib.structs {
        for e in &s.elems {
            let st = match e {
                GdsElement::GdsStructRef(r) => r.strans.as_ref(),
                GdsElement::GdsArrayRef(r) => r.strans.as_ref(),
                GdsElement::GdsTextElem(r) => r.strans.as_ref(),
                _ => None,
            };
            if let Some(st) = st {
                v.push(st.mag.map(|m| m.to_bits()).unwrap_or(1));
                v.push(st.angle.map(|m| m.to_bits()).unwrap_or(1));
            }
        }
    }
    v
}

/// A LEF library touching every kind of field (strings, decimals of several scales, enums, options).
pub fn full_lef() -> LefLibrary {
    let d = |m: i64, s: u32| LefDecimal::new(m, s);
    let mut lib = LefLibrary::default();
    lib.version = Some(d(58, 1));
    lib.bus_bit_chars = Some(('[', ']'));
    lib.divider_char = Some('/');
    lib.names_case_sensitive = Some(LefOnOff::On);
    let mut m = LefMacro::new("MAC");
    m.size = Some((d(150, 2), d(-3, 0)));
    m.origin = Some(LefPoint::new(d(1, 1), d(25, 3)));
    m.site = Some("core".into());
    m.eeq = Some("other".into());
    let mut pin = LefPin::default();
    pin.name = "A".into();
    pin.taper_rule = Some("rule".into());
    pin.must_join = Some("B".into());
    pin.net_expr = Some("expr".into());
    let mut port = LefPort::default();
    let mut lg = LefLayerGeometries::default();
    lg.layer_name = "met1".into();
    lg.width = Some(d(30000, 5));
    lg.geometries.push(LefGeometry::Shape(LefShape::Rect(None, LefPoint::new(d(0, 0), d(5, 1)), LefPoint::new(d(12345, 4), d(-1, 3)))));
    lg.geometries.push(LefGeometry::Shape(LefShape::Polygon(None, vec![LefPoint::new(d(0, 0), d(0, 0)), LefPoint::new(d(1, 0), d(0, 0)), LefPoint::new(d(1, 0), d(1, 0))])));
    lg.geometries.push(LefGeometry::Shape(LefShape::Path(None, vec![LefPoint::new(d(0, 0), d(0, 0)), LefPoint::new(d(7, 0), d(0, 0))])));
    port.layers.push(lg.clone());
    pin.ports.push(port);
    m.pins.push(pin);
    m.obs.push(lg);
    lib.macros.push(m);
    lib.extensions.push(LefExtension { name: "\"tag\"".into(), data: "CREATOR x ; ".into() });
    lib
}
/// Every integer leaf of the serde form of the full GDSII library (coordinates, layers, data types, dates, flags,
/// plex, property attributes, columns / rows ...), as JSON pointer paths.
fn gds_int_leaves() -> Vec<String> {
    fn walk(v: &Value, path: String, out: &mut Vec<String>) {
        match v {
            Value::Number(n) if n.is_i64() || n.is_u64() => out.push(path),
            Value::Array(a) => a.iter().enumerate().for_each(|(i, x)| walk(x, format!("{path}/{i}"), out)),
            Value::Object(o) => o.iter().for_each(|(k, x)| walk(x, format!("{path}/{k}"), out)),
            _ => {}
        }
    }
    let mut out = vec![];
    walk(&serde_json::to_value(full_gds()).expect("MACHINERY: full_gds to_value"), String::new(), &mut out);
    out
}
const INT_VALUES: [i64; 16] = [0, 1, -1, 255, 256, 32767, -32768, 65535, 16777216, 16777217, -16777217, 123456789, 1 << 30, 2147483646, 2147483647, -2147483648];
/// the full library with one integer leaf replaced (None: the value does not fit the field's type)
fn gds_with_int(path: &str, x: i64) -> Option<GdsLibrary> {
    let mut v = serde_json::to_value(full_gds()).ok()?;
    *v.pointer_mut(path)? = json!(x);
    serde_json::from_value::<GdsLibrary>(v).ok()
}
pub const LEF_STRING_SITES: usize = 10;
pub const LEF_DECIMAL_SITES: usize = 8;
fn set_lef_decimal(lib: &mut LefLibrary, site: usize, d: LefDecimal) {
    let m = &mut lib.macros[0];
    match site {
        0 => lib.version = Some(d),
        1 => m.size = Some((d, LefDecimal::new(-3, 0))),
        2 => m.size = Some((LefDecimal::new(150, 2), d)),
        3 => m.origin = Some(LefPoint::new(d, LefDecimal::new(25, 3))),
        4 => m.pins[0].ports[0].layers[0].width = Some(d),
        5 => m.pins[0].ports[0].layers[0].geometries[0] = LefGeometry::Shape(LefShape::Rect(None, LefPoint::new(d, LefDecimal::new(5, 1)), LefPoint::new(LefDecimal::new(12345, 4), d))),
        6 => m.obs[0].geometries[1] = LefGeometry::Shape(LefShape::Polygon(None, vec![LefPoint::new(d, d), LefPoint::new(LefDecimal::new(1, 0), d), LefPoint::new(d, LefDecimal::new(1, 0))])),
        _ => lib.manufacturing_grid = Some(d),
    }
}
/// decimals over the whole range of the type: mantissas of 1 .. 29 digits (up to 2^96 - 1) x scales 0 .. 28 x sign
fn lef_decimals() -> Vec<LefDecimal> {
    let mants: [i128; 14] = [
        0,
        1,
        5,
        12345,
        4503599627370497,                     // 2^52 + 1
        9007199254740993,                     // 2^53 + 1: not a double
        12345678901234567,                    // 17 digits
        123456789012345678,                   // 18 digits
        12345678901234567891,                 // 20 digits
        123456789123456789012,                // 21 digits
        99999999999999999999999,              // 23 nines
        1000000000000000000000000001,         // 28 digits, 1 at both ends
        39614081257132168796771975168,        // 2^95
        79228162514264337593543950335,        // 2^96 - 1, the largest mantissa
    ];
    let mut v = vec![];
    for m in mants {
        for scale in [0u32, 1, 3, 6, 12, 17, 20, 28] {
            for neg in [false, true] {
                if neg && m == 0 {
                    continue;
                }
                v.push(LefDecimal::from_i128_with_scale(if neg { -m } else { m }, scale));
            }
        }
    }
    v
}
fn set_lef_string(lib: &mut LefLibrary, site: usize, s: &str) {
    if site >= 8 {
        if site == 8 {
            lib.extensions[0].name = s.to_string();
        } else {
            lib.extensions[0].data = s.to_string();
        }
        return;
    }
    let m = &mut lib.macros[0];
    match site {
        0 => m.name = s.to_string(),
        1 => m.site = Some(s.to_string()),
        2 => m.eeq = Some(s.to_string()),
        3 => m.pins[0].name = s.to_string(),
        4 => m.pins[0].taper_rule = Some(s.to_string()),
        5 => m.pins[0].net_expr = Some(s.to_string()),
        6 => m.pins[0].ports[0].layers[0].layer_name = s.to_string(),
        _ => m.obs[0].layer_name = s.to_string(),
    }
}

// ---------------------------------------------------------------------------------------------

#[derive(Clone, Copy, PartialEq)]
enum Path2 {
    Str,
    File,
}

impl C18 {
    /// round trip one GDS library through one format and one path; returns Err(description) on failure
    fn rt_gds(&self, lib: &GdsLibrary, fmt: SerializationFormat, path: Path2, cx: &Cx) -> Result<GdsLibrary, String> {
        match path {
            Path2::Str => {
                let s = fmt.to_string(lib).map_err(|e| format!("to_string: {e}"))?;
                fmt.from_str::<GdsLibrary>(&s).map_err(|e| format!("from_str: {e}"))
            }
            Path2::File => {
                let f = cx.scratch_file("c18.markup");
                SerdeFile::save(lib, &f, fmt).map_err(|e| format!("save: {e}"))?;
                <GdsLibrary as SerdeFile>::open(&f, fmt).map_err(|e| format!("open: {e}"))
            }
        }
    }
    fn rt_lef(&self, lib: &LefLibrary, fmt: SerializationFormat, path: Path2, cx: &Cx) -> Result<LefLibrary, String> {
        match path {
            Path2::Str => {
                let s = fmt.to_string(lib).map_err(|e| format!("to_string: {e}"))?;
                fmt.from_str::<LefLibrary>(&s).map_err(|e| format!("from_str: {e}"))
            }
            Path2::File => {
                let f = cx.scratch_file("c18l.markup");
                fmt.save(lib, &f).map_err(|e| format!("save: {e}"))?;
                fmt.open::<LefLibrary>(&f).map_err(|e| format!("open: {e}"))
            }
        }
    }

    fn check_gds(&self, lib: &GdsLibrary, key: &str, what: &str, finding: impl Fn(&str, &str) -> Option<&'static str>, cx: &mut Cx) {
        for (fname, fmt) in FMTS {
            for (pname, path) in [("string", Path2::Str), ("file", Path2::File)] {
                cx.stats.evaluations += 1;
                let r = guard(|| self.rt_gds(lib, fmt, path, cx));
                match r {
                    Err(p) => cx.fail(key, &format!("gds-{fname}-panic"), finding(fname, pname), || format!("{what}: {fname}/{pname}: {}", p.short()), || Value::Null),
                    Ok(Err(e)) => {
                        cx.outcome("roundtrip-error");
                        cx.fail(key, &format!("gds-{fname}-error"), finding(fname, pname), || format!("{what}: {fname}/{pname} round trip failed: {}", truncate(&e, 200)), || Value::Null)
                    }
                    Ok(Ok(back)) => {
                        if back != *lib || gds_f64_bits(&back) != gds_f64_bits(lib) {
                            cx.outcome("roundtrip-differs");
                            cx.fail(
                                key,
                                &format!("gds-{fname}-differs"),
                                finding(fname, pname),
                                || format!("{what}: {fname}/{pname} copy differs from the original"),
                                || json!({"original_f64_bits": format!("{:x?}", gds_f64_bits(lib)), "copy_f64_bits": format!("{:x?}", gds_f64_bits(&back)), "equal_by_value": back == *lib}),
                            );
                        } else {
                            cx.outcome("identical");
                        }
                    }
                }
            }
        }
    }
    fn check_lef(&self, lib: &LefLibrary, key: &str, what: &str, cx: &mut Cx) {
        let fixed_mask = lib.fixed_mask || lib.macros.iter().any(|m| m.fixed_mask);
        for (fname, fmt) in FMTS {
            for (pname, path) in [("string", Path2::Str), ("file", Path2::File)] {
                cx.stats.evaluations += 1;
                let r = guard(|| self.rt_lef(lib, fmt, path, cx));
                match r {
                    Err(p) => cx.fail(key, &format!("lef-{fname}-panic"), None, || format!("{what}: {fname}/{pname}: {}", p.short()), || Value::Null),
                    Ok(Err(e)) => {
                        cx.outcome("roundtrip-error");
                        cx.fail(key, &format!("lef-{fname}-error"), None, || format!("{what}: {fname}/{pname} round trip failed: {}", truncate(&e, 200)), || Value::Null)
                    }
                    Ok(Ok(back)) => {
                        if back != *lib {
                            // recorded defect class: FIXEDMASK true is never serialised; everything else must match
                            let mut patched = back.clone();
                            patched.fixed_mask = lib.fixed_mask;
                            for (a, b) in patched.macros.iter_mut().zip(lib.macros.iter()) {
                                a.fixed_mask = b.fixed_mask;
                            }
                            let f = if fixed_mask && patched == *lib { Some("lef_fixed_mask_true") } else { None };
                            cx.outcome("roundtrip-differs");
                            cx.fail(key, &format!("lef-{fname}-differs"), f, || format!("{what}: {fname}/{pname} copy differs from the original"), || json!({"original": truncate(&format!("{lib:?}"), 1500), "copy": truncate(&format!("{back:?}"), 1500)}));
                        } else {
                            cx.outcome("identical");
                        }
                    }
                }
            }
        }
    }

    /// `lib` was loaded from the JSON form of the full library with the integer `x` at `path`: the loaded value must
    /// hold exactly `x` there (seen through its own serde form), and must survive every round trip
    fn check_int(&self, lib: &GdsLibrary, k: usize, path: &str, x: i64, cx: &mut Cx) {
        let key = format!("i:{k}:{x}");
        cx.stats.evaluations += 1;
        let got = serde_json::to_value(lib).ok().and_then(|v| v.pointer(path).cloned());
        if got != Some(json!(x)) {
            cx.outcome("roundtrip-differs");
            cx.fail(&key, "gds-integer-changed-on-load", None, || format!("the JSON form of the full library with {x} at {path} loads to a library holding {got:?} there"), || Value::Null);
            return;
        }
        self.check_gds(lib, &key, &format!("integer {x} at {path}"), |_, _| None, cx);
    }

    /// save(A); save(B); open => B, on one path, for B of the same / a smaller / a larger markup length than A
    fn save_sequences(&self, cx: &mut Cx) {
        let base = full_gds();
        let variants: Vec<(&str, GdsLibrary, GdsLibrary)> = {
            let mut v = vec![];
            // same length: a layer number 11 -> 17, a string "txt" -> "txu", a coordinate 10 -> 90
            let (mut a, mut b) = (base.clone(), base.clone());
            if let GdsElement::GdsBoundary(e) = &mut b.structs[0].elems[0] {
                e.layer = 17;
            }
            v.push(("same-length-layer", a.clone(), b.clone()));
            b = base.clone();
            set_gds_string(&mut b, 0, "lic");
            set_gds_string(&mut a, 0, "lib");
            v.push(("same-length-string", a.clone(), b.clone()));
            // shorter and longer second text
            let mut long = base.clone();
            set_gds_string(&mut long, 0, &"x".repeat(300));
            v.push(("second-shorter", long.clone(), base.clone()));
            v.push(("second-longer", base.clone(), long));
            v
        };
        for (name, a, b) in &variants {
            for (fname, fmt) in FMTS {
                cx.stats.executions += 1;
                cx.stats.evaluations += 1;
                let f = cx.scratch_file(&format!("c18-seq-{name}.{fname}"));
                let _ = std::fs::remove_file(&f);
                let r = guard(|| -> Result<GdsLibrary, String> {
                    SerdeFile::save(a, &f, fmt).map_err(|e| format!("save A: {e}"))?;
                    SerdeFile::save(b, &f, fmt).map_err(|e| format!("save B: {e}"))?;
                    <GdsLibrary as SerdeFile>::open(&f, fmt).map_err(|e| format!("open: {e}"))
                });
                let _ = std::fs::remove_file(&f);
                let key = format!("q:gds:{name}:{fname}");
                match r {
                    Err(p) => cx.fail(&key, "save-sequence-panic", None, || p.short(), || Value::Null),
                    Ok(Err(e)) => cx.fail(&key, "save-sequence-error", None, || format!("GDSII {name}/{fname}: {e}"), || Value::Null),
                    Ok(Ok(back)) => {
                        if back != *b {
                            cx.fail(&key, "save-sequence-stale", None, || format!("GDSII {name}/{fname}: after save(A), save(B) to one path, open returns {}", if back == *a { "A" } else { "neither A nor B" }), || Value::Null);
                        } else {
                            cx.outcome("identical");
                        }
                    }
                }
            }
        }
        // LEF: a macro name of the same length, a shorter and a longer library
        let lbase = full_lef();
        let mut lb = lbase.clone();
        lb.macros[0].name = "MAD".into();
        let mut llong = lbase.clone();
        llong.macros[0].name = "M".repeat(300);
        for (name, a, b) in [("same-length-name", &lbase, &lb), ("second-shorter", &llong, &lbase), ("second-longer", &lbase, &llong)] {
            for (fname, fmt) in FMTS {
                cx.stats.executions += 1;
                cx.stats.evaluations += 1;
                let f = cx.scratch_file(&format!("c18l-seq-{name}.{fname}"));
                let _ = std::fs::remove_file(&f);
                let r = guard(|| -> Result<LefLibrary, String> {
                    fmt.save(a, &f).map_err(|e| format!("save A: {e}"))?;
                    fmt.save(b, &f).map_err(|e| format!("save B: {e}"))?;
                    fmt.open::<LefLibrary>(&f).map_err(|e| format!("open: {e}"))
                });
                let _ = std::fs::remove_file(&f);
                let key = format!("q:lef:{name}:{fname}");
                match r {
                    Err(p) => cx.fail(&key, "save-sequence-panic", None, || p.short(), || Value::Null),
                    Ok(Err(e)) => cx.fail(&key, "save-sequence-error", None, || format!("LEF {name}/{fname}: {e}"), || Value::Null),
                    Ok(Ok(back)) => {
                        if back != *b {
                            cx.fail(&key, "save-sequence-stale", None, || format!("LEF {name}/{fname}: after save(A), save(B) to one path, open returns {}", if back == *a { "A" } else { "neither A nor B" }), || Value::Null);
                        } else {
                            cx.outcome("identical");
                        }
                    }
                }
            }
        }
        // a save that fails (its directory does not exist) followed by a save that succeeds: the second file holds the
        // second library and nothing else
        for (fname, fmt) in FMTS {
            cx.stats.executions += 1;
            cx.stats.evaluations += 1;
            let bad = format!("{}/no-such-directory/c18.{fname}", cx.scratch);
            let good = cx.scratch_file(&format!("c18-after-failure.{fname}"));
            let _ = std::fs::remove_file(&good);
            let (a, b) = (&variants[0].1, &variants[0].2);
            let r = guard(|| -> Result<(bool, GdsLibrary, LefLibrary), String> {
                let failed = SerdeFile::save(a, &bad, fmt).is_err() && fmt.save(&llong, &bad).is_err();
                SerdeFile::save(b, &good, fmt).map_err(|e| format!("save: {e}"))?;
                let gb = <GdsLibrary as SerdeFile>::open(&good, fmt).map_err(|e| format!("open: {e}"))?;
                fmt.save(&lbase, &good).map_err(|e| format!("save: {e}"))?;
                let lb2 = fmt.open::<LefLibrary>(&good).map_err(|e| format!("open: {e}"))?;
                Ok((failed, gb, lb2))
            });
            let _ = std::fs::remove_file(&good);
            let key = format!("q:after-failure:{fname}");
            match r {
                Err(p) => cx.fail(&key, "save-sequence-panic", None, || p.short(), || Value::Null),
                Ok(Err(e)) => cx.fail(&key, "save-after-a-failed-save", None, || format!("{fname}: after a save that failed, save + open of another library: {e}"), || Value::Null),
                Ok(Ok((failed, gb, lb2))) => {
                    if !failed {
                        cx.machinery(format!("C18: saving into a directory that does not exist succeeded ({bad})"));
                    } else if gb != *b || lb2 != lbase {
                        cx.fail(&key, "save-after-a-failed-save", None, || format!("{fname}: after a save that failed, the next save + open returns another library"), || Value::Null);
                    } else {
                        cx.outcome("identical");
                    }
                }
            }
        }
        // file names: the format is the one asked for, whatever the name of the file looks like
        const FILE_NAMES: [&str; 10] = ["n.json", "n.yaml", "n.yml", "n.toml", "n.JSON", "n.txt", "n", "n.json.yaml", "n.gds", "n.lef"];
        let gbase = full_gds();
        for fnm in FILE_NAMES {
            for (fname, fmt) in FMTS {
                cx.stats.executions += 2;
                cx.stats.evaluations += 2;
                let f = cx.scratch_file(&format!("c18-{fname}-{fnm}"));
                let _ = std::fs::remove_file(&f);
                let rg = guard(|| -> Result<GdsLibrary, String> {
                    SerdeFile::save(&gbase, &f, fmt).map_err(|e| format!("save: {e}"))?;
                    <GdsLibrary as SerdeFile>::open(&f, fmt).map_err(|e| format!("open: {e}"))
                });
                let _ = std::fs::remove_file(&f);
                let rl = guard(|| -> Result<LefLibrary, String> {
                    fmt.save(&lbase, &f).map_err(|e| format!("save: {e}"))?;
                    fmt.open::<LefLibrary>(&f).map_err(|e| format!("open: {e}"))
                });
                let _ = std::fs::remove_file(&f);
                let key = format!("q:name:{fnm}:{fname}");
                let outcome: Result<bool, String> = match (rg, rl) {
                    (Err(p), _) | (_, Err(p)) => Err(p.short()),
                    (Ok(Err(e)), _) | (_, Ok(Err(e))) => Err(e),
                    (Ok(Ok(g)), Ok(Ok(l))) => Ok(g == gbase && l == lbase),
                };
                match outcome {
                    Err(e) => cx.fail(&key, "file-name-error", None, || format!("save + open as {fname} through a file named {fnm}: {e}"), || Value::Null),
                    Ok(false) => cx.fail(&key, "file-name-differs", None, || format!("save + open as {fname} through a file named {fnm}: the copy differs"), || Value::Null),
                    Ok(true) => cx.outcome("identical"),
                }
            }
        }
        cx.bulk_states(14 + 2 * FILE_NAMES.len() as u64, 14 + 2 * FILE_NAMES.len() as u64);
    }

    fn strings_for(tier: Tier, block: usize, nblocks: usize) -> Vec<String> {
        let mut all: Vec<String> = vec![];
        for a in SIGMA {
            all.push(a.to_string());
            for b in SIGMA {
                all.push(format!("{a}{b}"));
                if tier.is_thorough() {
                    for c in SIGMA {
                        all.push(format!("{a}{b}{c}"));
                    }
                }
            }
        }
        all.extend(whole_strings());
        all.into_iter().enumerate().filter(|(i, _)| i % nblocks == block).map(|(_, s)| s).collect()
    }

    fn doubles_for(tier: Tier, e: i64) -> Vec<f64> {
        let ones = (1u64 << 52) - 1;
        let mut fr: Vec<u64> = vec![0, 1, 2, 3, ones, ones - 1, ones - 2, 0x9_21FB_5444_2D18, 0x5_BF0A_8B14_5769, 0x5_5555_5555_5555, 0xA_AAAA_AAAA_AAAA, 0x3_A2E8_BA2E_8BA3];
        // decimal-looking values scaled into this binade are the interesting ones for shortest-repr printers:
        // add fractions of 1/3, 1/10, 1/7 patterns
        fr.extend_from_slice(&[0x9_9999_9999_999A, 0x2_4924_9249_2492, 0xC_CCCC_CCCC_CCCD, 0x1_47AE_147A_E148]);
        if tier.is_thorough() {
            fr = c15::frac_patterns(false);
            fr.extend_from_slice(&[0x9_21FB_5444_2D18, 0x9_9999_9999_999A, 0x2_4924_9249_2492, 0xC_CCCC_CCCC_CCCD, 0x1_47AE_147A_E148]);
        }
        let mut v = vec![];
        for s in 0..2u64 {
            for f in &fr {
                v.push(f64::from_bits((s << 63) | (((e + 1023) as u64) << 52) | f));
            }
        }
        v
    }
}

const F_JSON_FLOAT: &str = "serde_json_float_not_roundtrip";

impl Driver for C18 {
    fn id(&self) -> &'static str {
        "C18"
    }
    fn describe(&self, tier: Tier) -> Describe {
        Describe {
            rule: format!(
                "[doubles] every binary exponent of the GDSII range (-256..=251) x sign x {} fraction patterns at each of {GDS_F64_SITES} f64 sites (UNITS x2, SREF MAG/ANGLE, AREF ANGLE, TEXT MAG) of a GDSII library holding one element of every kind with every optional field; [strings] every string of length <= {} over a 27-character alphabet special to JSON/YAML (quotes, colon, hash, backslash, space, newline, tab, CR, dash, ?, brackets, &, *, !, |, >, %, @, backtick, ~, comma, e-acute, digit, letter, NUL) plus {} whole strings (YAML keywords, numbers, document markers, flow/block indicators, leading/trailing/inner whitespace lines, BOM, NEL, U+2028, NUL, DEL, emoji, combining) at each of {GDS_STRING_SITES} GDSII and {LEF_STRING_SITES} LEF string sites; [decimals] at each of {LEF_DECIMAL_SITES} LEF decimal sites (VERSION, SIZE x / y, ORIGIN, layer WIDTH, RECT and POLYGON coordinates, MANUFACTURINGGRID) every decimal with one of 14 mantissas of 1..29 digits (0, 1, 5, 12345, 2^52+1, 2^53+1, 17/18/20/21 digits, 23 nines, 28 digits, 2^95, 2^96-1) x scale in {{0,1,3,6,12,17,20,28}} x sign; [integers] every integer leaf of the full GDSII library's serde form (coordinates, layers, types, dates, flags, plex, attributes, columns / rows) := each of 16 values (0, +-1, 255, 256, i16 / u16 / i32 limits, 2^24, 2^24+-1, 123456789, 2^30) that fits the field; [save sequences] save(A) then save(B) to the same path then open, for pairs A, B whose markup has the same length / B shorter / B longer (GDSII and LEF, both formats): the copy must be B; a failing save (no such directory) followed by save + open of another library; save + open through files named n.json / .yaml / .yml / .toml / .JSON / .txt / no extension / .json.yaml / .gds / .lef under either format; [structure] full GDSII / LEF libraries, libraries whose struct / macro / pin names differ only in letter case, repository .gds and .lef resources; [markup] repository .gds resources and the full library through to_markup + from_markup on files. All x {{Json, Yaml}} x {{to_string+from_str, save+open}}. A state is (value, site); non-trivial = not the default value. Oracle: value equality, f64 sites by bits, strings by bytes, GDSII bytes identical.",
                Self::doubles_for(tier, 0).len() / 2,
                tier.pick(2, 3),
                whole_strings().len()
            ),
            assumptions: vec!["LEF decimals are compared by numeric value (the statement says a decimal keeps its value)".into(), "TOML is not part of the statement".into()],
            excluded: vec!["the `Unsupported` placeholder fields (LefLibrary.layers etc., GdsLibrary.libdirsize etc.) are left at their defaults".into(), "NaN / infinite doubles (outside the GDSII real range)".into()],
            technique: "exhaustive enumeration of double / string alphabets at every value site of real libraries through the real save/open/to_string/from_str helpers; bit/byte comparison".into(),
        }
    }
    fn units(&self, tier: Tier) -> Vec<String> {
        let mut v = vec![];
        for e in c15::E_MIN..=c15::E_MAX {
            if tier.is_thorough() || e.rem_euclid(4) == 0 || (-12..=12).contains(&e) {
                v.push(format!("D:{e}"));
            }
        }
        let nb = tier.pick(32, 256);
        for b in 0..nb {
            v.push(format!("S:{b}:{nb}"));
        }
        v.push("G".into());
        v.push("M".into());
        for site in 0..LEF_DECIMAL_SITES {
            v.push(format!("N:{site}"));
        }
        for b in 0..8 {
            v.push(format!("I:{b}"));
        }
        v.push("Q".into());
        v
    }
    fn run_unit(&self, unit: &str, cx: &mut Cx) {
        cx.enter(unit);
        let parts: Vec<&str> = unit.split(':').collect();
        match parts[0] {
            "D" => {
                let e: i64 = parts[1].parse().unwrap();
                let vals = Self::doubles_for(cx.tier, e);
                let base = full_gds();
                let mut n = 0u64;
                for (i, x) in vals.iter().enumerate() {
                    // rotate the site with the value index so that every site sees every exponent
                    for site in 0..GDS_F64_SITES {
                        if !cx.tier.is_thorough() && (i + site) % 2 == 1 {
                            continue;
                        }
                        let mut lib = base.clone();
                        set_gds_f64(&mut lib, site, *x);
                        let key = format!("d:{:016x}:{site}", x.to_bits());
                        cx.stats.executions += 1;
                        cx.stats.transitions += 1;
                        n += 1;
                        self.check_gds(&lib, &key, &format!("double {x:e} at f64 site {site}"), |f, _| if f == "json" { Some(F_JSON_FLOAT) } else { None }, cx);
                    }
                }
                cx.bulk_states(n, n);
                cx.tag("doubles");
                if e == 0 {
                    cx.sample(|| json!({"double": 1.0000000000000002f64, "site": "UNITS user unit", "formats": ["json", "yaml"], "paths": ["to_string+from_str", "save+open"]}));
                }
            }
            "S" => {
                let (b, nb): (usize, usize) = (parts[1].parse().unwrap(), parts[2].parse().unwrap());
                let strs = Self::strings_for(cx.tier, b, nb);
                let gbase = full_gds();
                let lbase = full_lef();
                let mut n = 0u64;
                for s in &strs {
                    for site in 0..GDS_STRING_SITES {
                        let mut lib = gbase.clone();
                        set_gds_string(&mut lib, site, s);
                        let key = format!("s:g:{site}:{}", hex(s));
                        cx.stats.executions += 1;
                        cx.stats.transitions += s.chars().count() as u64 + 1;
                        n += 1;
                        self.check_gds(&lib, &key, &format!("string {s:?} at GDSII string site {site}"), |_, _| None, cx);
                    }
                    for site in 0..LEF_STRING_SITES {
                        let mut lib = lbase.clone();
                        set_lef_string(&mut lib, site, s);
                        let key = format!("s:l:{site}:{}", hex(s));
                        cx.stats.executions += 1;
                        cx.stats.transitions += s.chars().count() as u64 + 1;
                        n += 1;
                        self.check_lef(&lib, &key, &format!("string {s:?} at LEF string site {site}"), cx);
                    }
                }
                cx.bulk_states(n, n);
                cx.tag("strings");
                if b == 0 {
                    cx.sample(|| json!({"string": "a: b", "site": "GDSII TEXT string", "also": strs.iter().take(5).collect::<Vec<_>>()}));
                }
            }
            "I" => {
                let b: usize = parts[1].parse().unwrap();
                let leaves = gds_int_leaves();
                let mut n = 0u64;
                for (k, path) in leaves.iter().enumerate() {
                    if k % 8 != b {
                        continue;
                    }
                    for x in INT_VALUES {
                        if let Some(lib) = gds_with_int(path, x) {
                            cx.stats.executions += 1;
                            cx.stats.transitions += 1;
                            n += 1;
                            self.check_int(&lib, k, path, x, cx);
                        }
                    }
                }
                cx.bulk_states(n, n);
                cx.tag("integers");
            }
            "Q" => {
                self.save_sequences(cx);
                cx.tag("save-sequences");
            }
            "N" => {
                let site: usize = parts[1].parse().unwrap();
                let base = full_lef();
                let ds = lef_decimals();
                for (i, d) in ds.iter().enumerate() {
                    let mut lib = base.clone();
                    set_lef_decimal(&mut lib, site, *d);
                    cx.stats.executions += 1;
                    cx.stats.transitions += 1;
                    self.check_lef(&lib, &format!("n:{site}:{i}"), &format!("decimal {d} (mantissa {}, scale {}) at LEF decimal site {site}", d.mantissa(), d.scale()), cx);
                }
                cx.bulk_states(ds.len() as u64, ds.len() as u64);
                cx.tag("decimals");
            }
            "G" => {
                let mut n = 0u64;
                // hand-built full libraries
                cx.stats.executions += 2;
                self.check_gds(&full_gds(), "g:full", "full GDSII library", |_, _| None, cx);
                self.check_lef(&full_lef(), "l:full", "full LEF library", cx);
                n += 2;
                // FIXEDMASK (recorded finding)
                let mut fm = full_lef();
                fm.fixed_mask = true;
                cx.stats.executions += 1;
                self.check_lef(&fm, "l:fixedmask-lib", "LEF library with FIXEDMASK", cx);
                let mut fm = full_lef();
                fm.macros[0].fixed_mask = true;
                cx.stats.executions += 1;
                self.check_lef(&fm, "l:fixedmask-macro", "LEF macro with FIXEDMASK", cx);
                n += 2;
                // names that differ only in letter case (GDSII structs, LEF macros / pins): different objects
                {
                    let mut g = full_gds();
                    let mut twin = g.structs[0].clone();
                    g.structs[0].name = "inv_x1".into();
                    twin.name = "INV_X1".into();
                    g.structs.push(twin);
                    let mut third = g.structs[0].clone();
                    third.name = "zelle_\u{e4}".into();
                    g.structs.push(third);
                    let mut fourth = g.structs[0].clone();
                    fourth.name = "zelle_\u{c4}".into();
                    g.structs.push(fourth);
                    cx.stats.executions += 1;
                    self.check_gds(&g, "g:case-twins", "GDSII library whose struct names differ only in letter case", |_, _| None, cx);
                    let mut l = full_lef();
                    let mut m2 = l.macros[0].clone();
                    m2.name = l.macros[0].name.to_lowercase();
                    let mut p2 = m2.pins[0].clone();
                    p2.name = p2.name.to_lowercase();
                    m2.pins.push(p2);
                    l.macros.push(m2);
                    cx.stats.executions += 1;
                    self.check_lef(&l, "l:case-twins", "LEF library whose macro / pin names differ only in letter case", cx);
                    n += 2;
                }
                // repository resources
                for f in resource_files("gds") {
                    if let Ok(Ok(lib)) = guard(|| GdsLibrary::load(&f)) {
                        cx.stats.executions += 1;
                        n += 1;
                        self.check_gds(&lib, &format!("g:file:{f}"), &format!("GDSII resource {f}"), |f, _| if f == "json" { Some(F_JSON_FLOAT) } else { None }, cx);
                        cx.tag("gds-resource");
                    }
                }
                for f in resource_files("lef") {
                    if let Ok(Ok(lib)) = guard(|| LefLibrary::open(&f)) {
                        cx.stats.executions += 1;
                        n += 1;
                        self.check_lef(&lib, &format!("l:file:{f}"), &format!("LEF resource {f}"), cx);
                        cx.tag("lef-resource");
                    }
                }
                cx.bulk_states(n, n);
                cx.tag("structure");
            }
            "M" => {
                let mut n = 0u64;
                let mut inputs: Vec<(String, Vec<u8>)> = vec![];
                let mut buf = Vec::new();
                full_gds().write(&mut buf).expect("MACHINERY: full gds must write");
                inputs.push(("full".into(), buf));
                for f in resource_files("gds") {
                    if let Ok(b) = std::fs::read(&f) {
                        if guard(|| GdsLibrary::from_bytes(&b).is_ok()).unwrap_or(false) {
                            inputs.push((f, b));
                        }
                    }
                }
                for (name, bytes) in &inputs {
                    for fmt in ["json", "yaml"] {
                        cx.stats.executions += 1;
                        cx.stats.evaluations += 1;
                        n += 1;
                        let key = format!("m:{fmt}:{name}");
                        let g_in = cx.scratch_file("m-in.gds");
                        let mk = cx.scratch_file("m.markup");
                        let g_out = cx.scratch_file("m-out.gds");
                        // normalise: the reference bytes are those the crate writes for the library it read
                        let lib = GdsLibrary::from_bytes(bytes).unwrap();
                        let mut want = Vec::new();
                        lib.write(&mut want).unwrap();
                        std::fs::write(&g_in, &want).expect("MACHINERY: scratch write");
                        let _ = std::fs::remove_file(&g_out);
                        let r = guard(|| {
                            layout21converters::gds_serialization::to_markup(&layout21converters::gds_serialization::ToMarkupOptions { gds: g_in.clone(), fmt: fmt.into(), out: mk.clone(), verbose: false })
                                .map_err(|e| e.to_string())?;
                            layout21converters::gds_serialization::from_markup(&layout21converters::gds_serialization::FromMarkupOptions { gds: g_out.clone(), fmt: fmt.into(), inp: mk.clone(), verbose: false })
                                .map_err(|e| e.to_string())
                        });
                        let f = if fmt == "json" { Some(F_JSON_FLOAT) } else { None };
                        match r {
                            Err(p) => cx.fail(&key, "markup-panic", None, || format!("{name} via {fmt}: {}", p.short()), || Value::Null),
                            Ok(Err(e)) => cx.fail(&key, "markup-error", None, || format!("{name} via {fmt}: {}", truncate(&e, 200)), || Value::Null),
                            Ok(Ok(())) => {
                                let got = std::fs::read(&g_out).unwrap_or_default();
                                if got != want {
                                    cx.outcome("markup-differs");
                                    cx.fail(&key, &format!("markup-{fmt}-bytes-differ"), f, || format!("{name}: GDSII -> {fmt} -> GDSII does not reproduce the bytes ({} vs {} bytes)", got.len(), want.len()), || Value::Null);
                                } else {
                                    cx.outcome("identical");
                                }
                            }
                        }
                    }
                }
                cx.bulk_states(n, n);
                cx.tag("markup");
            }
            _ => panic!("MACHINERY: C18 bad unit {unit}"),
        }
    }
    fn run_case(&self, key: &str, cx: &mut Cx) {
        let p: Vec<&str> = key.split(':').collect();
        cx.stats.executions += 1;
        cx.stats.transitions += 1;
        match p[0] {
            "d" if p.len() == 3 => {
                let bits = u64::from_str_radix(p[1], 16).unwrap();
                let site: usize = p[2].parse().unwrap();
                let mut lib = full_gds();
                let x = f64::from_bits(bits);
                set_gds_f64(&mut lib, site, x);
                self.check_gds(&lib, key, &format!("double {x:e} at f64 site {site}"), |f, _| if f == "json" { Some(F_JSON_FLOAT) } else { None }, cx);
            }
            "i" if p.len() == 3 => {
                let (k, x): (usize, i64) = (p[1].parse().unwrap(), p[2].parse().unwrap());
                let leaves = gds_int_leaves();
                if let Some(lib) = leaves.get(k).and_then(|path| gds_with_int(path, x)) {
                    self.check_int(&lib, k, &leaves[k], x, cx);
                }
            }
            "q" => self.save_sequences(cx),
            "n" if p.len() == 3 => {
                let (site, i): (usize, usize) = (p[1].parse().unwrap(), p[2].parse().unwrap());
                let d = lef_decimals()[i];
                let mut lib = full_lef();
                set_lef_decimal(&mut lib, site, d);
                self.check_lef(&lib, key, &format!("decimal {d} (mantissa {}, scale {}) at LEF decimal site {site}", d.mantissa(), d.scale()), cx);
            }
            "s" if p.len() == 4 => {
                let site: usize = p[2].parse().unwrap();
                let s = unhex(p[3]);
                if p[1] == "g" {
                    let mut lib = full_gds();
                    set_gds_string(&mut lib, site, &s);
                    self.check_gds(&lib, key, &format!("string {s:?} at GDSII string site {site}"), |_, _| None, cx);
                } else {
                    let mut lib = full_lef();
                    set_lef_string(&mut lib, site, &s);
                    self.check_lef(&lib, key, &format!("string {s:?} at LEF string site {site}"), cx);
                }
            }
            "g" | "l" => self.run_unit("G", cx),
            "m" => self.run_unit("M", cx),
            _ => self.run_unit(key, cx),
        }
    }
    fn render_case(&self, _tier: Tier, key: &str) -> Value {
        let p: Vec<&str> = key.split(':').collect();
        if p[0] == "s" && p.len() == 4 {
            return json!({"string": unhex(p[3]), "model": if p[1] == "g" { "GDSII" } else { "LEF" }, "site": p[2]});
        }
        if p[0] == "d" && p.len() == 3 {
            let bits = u64::from_str_radix(p[1], 16).unwrap_or(0);
            return json!({"double": f64::from_bits(bits), "bits": format!("{bits:#018x}"), "site": p[2]});
        }
        json!({"case": key})
    }
    fn guards(&self, _tier: Tier, stats: &Stats, _d: u64) -> Result<(), String> {
        require_tags(stats, &["doubles", "strings", "decimals", "integers", "save-sequences", "structure", "markup", "gds-resource", "lef-resource"])?;
        require_outcomes(stats, &["identical"])
    }
}

/// key form of a string: hex of its bytes, or `w<index into whole_strings()>` for long ones
fn hex(s: &str) -> String {
    if s.len() > 64 {
        if let Some(i) = whole_strings().iter().position(|w| w == s) {
            return format!("w{i}");
        }
    }
    s.bytes().map(|b| format!("{b:02x}")).collect()
}
fn unhex(h: &str) -> String {
    if let Some(i) = h.strip_prefix('w') {
        if let Ok(i) = i.parse::<usize>() {
            return whole_strings().get(i).cloned().unwrap_or_default();
        }
    }
    let b: Vec<u8> = (0..h.len() / 2).map(|i| u8::from_str_radix(&h[2 * i..2 * i + 2], 16).unwrap_or(b'?')).collect();
    String::from_utf8_lossy(&b).to_string()
}

/// repository resource files with the given extension (sorted; non-empty)
pub fn resource_files(ext: &str) -> Vec<String> {
    let root = format!("{}/.repo", crate::sandbox::verif_root());
    let mut out = vec![];
    let mut stack = vec![std::path::PathBuf::from(root)];
    while let Some(d) = stack.pop() {
        let Ok(rd) = std::fs::read_dir(&d) else { continue };
        for e in rd.flatten() {
            let p = e.path();
            let name = p.file_name().map(|n| n.to_string_lossy().to_string()).unwrap_or_default();
            if p.is_dir() {
                if name != "target" && name != ".git" && name != "scratch" {
                    stack.push(p);
                }
            } else if p.extension().map(|x| x == ext).unwrap_or(false) && e.metadata().map(|m| m.len() > 0).unwrap_or(false) {
                out.push(p.to_string_lossy().to_string());
            }
        }
    }
    out.sort();
    out
}


// ---------------------------------------------------------------------------------------------
// Generator-driven structure parts: the C01 GDSII value generator and the C04 LEF value generator
// ---------------------------------------------------------------------------------------------

/// GDSII library values from the shared C01/C02 generator (families single + pairs: every element kind,
/// every optional-field subset, witness values, strings, reals), each through both formats and both paths.
pub struct C18Gds;
impl CaseDriver for C18Gds {
    type Case = crate::props::gdsgen::GenCase;
    fn id(&self) -> &'static str {
        "C18"
    }
    fn describe(&self, tier: Tier) -> Describe {
        Describe {
            rule: format!("GDSII library values from the C01 generator (family single; thorough also pairs: all 7 element kinds, every subset of optional fields, strans variants, properties, witness integers, strings over {{a, B, e-acute, euro, space, NUL}}, reals from the C15 slice), every choice sequence with <= {} value deviations, x {{Json, Yaml}} x {{to_string+from_str, save+open}}; for the default library of each focus additionally every string leaf of its serde form := each of 6 strings (mixed / lower / upper case, a blank inside, a line break, empty) where the field's type accepts it (the loaded library must hold exactly that string there, and copy losslessly). State = one library value.", self.bound(tier)),
            assumptions: vec![],
            excluded: vec![],
            technique: "deviation-bounded exhaustive enumeration of library values through the real serialisation helpers".into(),
        }
    }
    fn bound(&self, t: Tier) -> usize {
        t.pick(0, 1)
    }
    fn gen(&self, t: Tier, c: &mut Chooser) -> Self::Case {
        crate::props::gdsgen::gen_lib(t, c, if t.is_thorough() { &[0, 1] } else { &[0] })
    }
    fn check(&self, case: &Self::Case, key: &str, cx: &mut Cx) {
        let lib = crate::props::gdsgen::to_gds(&case.lib);
        cx.state(crate::props::gdsgen::hash_of(&case.lib), key.contains(|c: char| c != '0' && c != '.'));
        cx.tag("gdsgen");
        C18.check_gds(&lib, key, "generated GDSII library", |_, _| None, cx);
    }
    fn render(&self, case: &Self::Case) -> Value {
        crate::props::gdsgen::render_lib(&case.lib)
    }
    fn guards(&self, _t: Tier, stats: &Stats, _d: u64) -> Result<(), String> {
        require_tags(stats, &["gdsgen"])
    }
    fn unit_target(&self, _t: Tier) -> usize {
        1024
    }
}

/// replacement strings for the string leaves of the generated LEF libraries
const LEAF_STRINGS: [&str; 6] = ["aBc", "lower_case", "UPPER", "two words", "line\nbreak", ""];
/// LEF library values from the shared C04 generator (17 foci: every field and enum variant of the data model).
pub struct C18Lef;
impl CaseDriver for C18Lef {
    type Case = (&'static str, LefLibrary);
    fn id(&self) -> &'static str {
        "C18"
    }
    fn describe(&self, tier: Tier) -> Describe {
        Describe {
            rule: format!("LEF library values from the C04 generator (17 foci covering every statement, field and enum variant of the data model), every choice sequence with <= {} value deviations, x {{Json, Yaml}} x {{to_string+from_str, save+open}}; for the default library of each focus additionally every string leaf of its serde form := each of 6 strings (mixed / lower / upper case, a blank inside, a line break, empty) where the field's type accepts it (the loaded library must hold exactly that string there, and copy losslessly). State = one library value.", self.bound(tier)),
            assumptions: vec![],
            excluded: vec![],
            technique: "deviation-bounded exhaustive enumeration of library values through the real serialisation helpers".into(),
        }
    }
    fn bound(&self, t: Tier) -> usize {
        t.pick(1, 2)
    }
    fn gen(&self, _t: Tier, c: &mut Chooser) -> Self::Case {
        crate::props::lefgen::gen_library(c)
    }
    fn check(&self, case: &Self::Case, key: &str, cx: &mut Cx) {
        cx.state(hash_debug(&case.1), key.contains(|c: char| c != '0' && c != '.'));
        cx.tag("lefgen");
        cx.tag(&format!("lef-focus:{}", case.0));
        C18.check_lef(&case.1, key, &format!("generated LEF library (focus {})", case.0), cx);
        if key.split('.').skip(1).all(|t| t == "0") {
            // the default library of each focus: every string leaf of its serde form := each of a few strings
            // (mixed case, lower case, blank inside, line break, empty); values the field's type refuses are skipped
            let base = match serde_json::to_value(&case.1) {
                Ok(v) => v,
                Err(e) => return cx.machinery(format!("C18 lefgen: to_value failed: {e}")),
            };
            let mut leaves: Vec<String> = vec![];
            fn walk(v: &Value, path: String, out: &mut Vec<String>) {
                match v {
                    Value::String(_) => out.push(path),
                    Value::Array(a) => a.iter().enumerate().for_each(|(i, x)| walk(x, format!("{path}/{i}"), out)),
                    Value::Object(o) => o.iter().for_each(|(k, x)| walk(x, format!("{path}/{}", k.replace('~', "~0").replace('/', "~1")), out)),
                    _ => {}
                }
            }
            walk(&base, String::new(), &mut leaves);
            for (li, path) in leaves.iter().enumerate() {
                for (si, st) in LEAF_STRINGS.iter().enumerate() {
                    let mut v = base.clone();
                    match v.pointer_mut(path) {
                        Some(slot) => *slot = json!(st),
                        None => continue,
                    }
                    let Ok(lib) = serde_json::from_value::<LefLibrary>(v) else { continue };
                    cx.stats.executions += 1;
                    cx.stats.evaluations += 1;
                    cx.tag("lef-string-leaves");
                    let _ = (li, si);
                    let got = serde_json::to_value(&lib).ok().and_then(|v| v.pointer(path).cloned());
                    if got != Some(json!(st)) {
                        cx.fail(key, "lef-string-changed-on-load", None, || format!("focus {}: the JSON form with {st:?} at {path} loads to a library holding {got:?} there", case.0), || Value::Null);
                        continue;
                    }
                    C18.check_lef(&lib, key, &format!("generated LEF library (focus {}) with {st:?} at {path}", case.0), cx);
                }
            }
        }
    }
    fn render(&self, case: &Self::Case) -> Value {
        json!({"focus": case.0, "library": truncate(&format!("{:?}", case.1), 3000)})
    }
    fn guards(&self, _t: Tier, stats: &Stats, _d: u64) -> Result<(), String> {
        require_tags(stats, &["lefgen", "lef-focus:macro_attrs", "lef-focus:pin_attrs", "lef-focus:units", "lef-focus:site", "lef-focus:property"])
    }
    fn unit_target(&self, _t: Tier) -> usize {
        1024
    }
}

pub fn driver() -> Box<dyn Driver> {
    Box::new(Multi { id: "C18", parts: vec![("values", Box::new(C18)), ("gdsgen", Box::new(ByCase(C18Gds))), ("lefgen", Box::new(ByCase(C18Lef)))] })
}
