//! Work-unit splitting that balances better than `explore::split_units` for generators with many free
//! dimensions: always split the tree with the *shortest* prefix next (the subtree below a prefix shrinks with
//! every further fixed choice), and hand out the remaining trees largest-first. The set of cases covered is
//! exactly the same: every `Single(p)` is the node `p`, every `Tree(p)` the whole subtree below `p`.

use crate::core::*;
use crate::explore::{self, Chooser, Unit};
use serde_json::Value;
use std::cmp::Reverse;
use std::collections::BinaryHeap;

pub struct Balanced<T: CaseDriver>(pub ByCase<T>);

pub fn split_by_prefix_len<C>(bound: usize, target: usize, gen: &mut dyn FnMut(&mut Chooser) -> C) -> Vec<Unit> {
    let mut singles: Vec<Unit> = Vec::new();
    let mut heap: BinaryHeap<(Reverse<usize>, Reverse<u64>, Vec<u32>)> = BinaryHeap::new();
    let mut seq = 0u64;
    heap.push((Reverse(0), Reverse(seq), vec![]));
    let mut expansions = 0usize;
    while singles.len() + heap.len() < target && expansions < target * 4 {
        let Some((_, _, pre)) = heap.pop() else { break };
        let mut ch = Chooser::new(&pre);
        let _ = gen(&mut ch);
        let kids = explore::children(&ch.trace, pre.len(), bound);
        singles.push(Unit::Single(pre));
        for k in kids {
            seq += 1;
            heap.push((Reverse(k.len()), Reverse(seq), k));
        }
        expansions += 1;
    }
    let mut trees: Vec<(usize, u64, Vec<u32>)> = heap.into_iter().map(|(l, s, p)| (l.0, s.0, p)).collect();
    trees.sort();
    // largest subtrees (shortest prefixes) first, the cheap singles last
    let mut out: Vec<Unit> = trees.into_iter().map(|(_, _, p)| Unit::Tree(p)).collect();
    out.extend(singles);
    out
}

impl<T: CaseDriver> Driver for Balanced<T> {
    fn id(&self) -> &'static str {
        self.0.id()
    }
    fn describe(&self, tier: Tier) -> Describe {
        self.0.describe(tier)
    }
    fn units(&self, tier: Tier) -> Vec<String> {
        let bound = (self.0).0.bound(tier);
        let mut gen = |c: &mut Chooser| (self.0).0.gen(tier, c);
        split_by_prefix_len(bound, (self.0).0.unit_target(tier), &mut gen).into_iter().map(|u| u.to_string()).collect()
    }
    fn run_unit(&self, unit: &str, cx: &mut Cx) {
        self.0.run_unit(unit, cx)
    }
    fn run_case(&self, key: &str, cx: &mut Cx) {
        self.0.run_case(key, cx)
    }
    fn classify_crash(&self, tier: Tier, key: &str, death: &Death) -> Option<String> {
        self.0.classify_crash(tier, key, death)
    }
    fn render_case(&self, tier: Tier, key: &str) -> Value {
        self.0.render_case(tier, key)
    }
    fn guards(&self, tier: Tier, stats: &Stats, distinct: u64) -> Result<(), String> {
        self.0.guards(tier, stats, distinct)
    }
    fn exhaustive(&self, tier: Tier) -> bool {
        self.0.exhaustive(tier)
    }
    fn deviation_bound(&self, tier: Tier) -> Option<usize> {
        self.0.deviation_bound(tier)
    }
}

#[cfg(test)]
mod tests {
    use super::*;
    #[test]
    fn same_cases() {
        let mut gen = |c: &mut Chooser| {
            let a = c.free(3, "a");
            let x = c.cost(3, "x");
            let b = c.free(2, "b");
            let y = c.cost(4, "y");
            let z = if a == 1 { c.cost(2, "z") } else { 0 };
            (a, x, b, y, z)
        };
        let mut all = std::collections::BTreeSet::new();
        explore::explore_subtree(&[], 2, &mut gen, &mut |_, case| {
            assert!(all.insert(case));
            true
        });
        let mut got = std::collections::BTreeSet::new();
        for u in split_by_prefix_len(2, 9, &mut gen) {
            match u {
                Unit::Single(p) => {
                    let mut ch = Chooser::new(&p);
                    assert!(got.insert(gen(&mut ch)));
                }
                Unit::Tree(p) => {
                    explore::explore_subtree(&p, 2, &mut gen, &mut |_, case| {
                        assert!(got.insert(case));
                        true
                    });
                }
            }
        }
        assert_eq!(all, got);
    }
}
