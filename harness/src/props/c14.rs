//! C14 — raw layout survives the trip through the protobuf schema, both ways.
//!
//! Every case is a neutral `Spec` from which the harness builds BOTH a raw library and (independently of the
//! exporter) the protobuf message that describes the same content. Judged:
//!  A. raw -> proto -> raw: `to_proto` is Ok, its `cells` list is topologically ordered and complete,
//!     `from_proto` of it is Ok (fresh and original `Layers`) and equals the spec;
//!  B. proto -> raw -> proto: `from_proto(msg)` is Ok and `to_proto` of it equals `msg` (per-layer groups of
//!     abstract ports / blockages compared as multisets).

use crate::core::*;
use crate::explore::Chooser;
use crate::props::c06::perm;
use crate::props::rawspec::{self, CmpMode, SAbs, SCell, SGeom, SInst, SLayout, SPort, SShape, Spec};
use crate::props::rawview;
use crate::refmodel::geom::P;
use layout21protos as proto;
use layout21raw::utils::Ptr;
use layout21raw::{LayerPurpose, Library, Units};
use serde_json::{json, Value};

const MODE: CmpMode = CmpMode { lib_name: true, inst_list_with_names: true, annotations: true, abstracts: true, layout_name: true };

pub struct Case {
    pub spec: Spec,
    pub tags: Vec<&'static str>,
}
pub struct C14 {
    /// exactly four cells (thorough part) or 1..3
    four: bool,
}

const UNITS: [Units; 3] = [Units::Nano, Units::Micro, Units::Angstrom];
const UNIT_TAGS: [&str; 3] = ["units:nano", "units:micro", "units:angstrom"];
const ORIENT_TAGS: [&str; 8] = ["inst:R0", "inst:R90", "inst:R180", "inst:R270", "inst:MX", "inst:MX-R90", "inst:MX-R180", "inst:MX-R270"];
const CELL_NAMES: [&str; 4] = ["ca", "cb", "cc", "cd"];

fn l_shape(d: P) -> Vec<P> {
    [(0, 0), (60, 0), (60, 20), (20, 20), (20, 50), (0, 50)].iter().map(|p| (p.0 + d.0, p.1 + d.1)).collect()
}

/// the shape sets of a layout, simplest-first after the default; the default interleaves (layer, purpose) pairs
/// and shape kinds so that grouping on export has to preserve first-seen order
fn shape_set(v: usize, k: i64) -> Vec<SShape> {
    let d = (100 * k, -30 * k);
    let s = |layer, purpose, geom: SGeom, net: Option<&str>| SShape { layer, purpose, geom: geom.shifted(d), net: net.map(|n| n.to_string()) };
    match v {
        0 => vec![
            s(0, 0, SGeom::Rect((10, 5), (40, 25)), None),
            s(1, 0, SGeom::Poly(l_shape((0, 100))), Some("N1")),
            s(0, 0, SGeom::Rect((50, 5), (90, 35)), Some("n2")),
            s(0, 1, SGeom::Path(vec![(0, 200), (40, 200), (40, 230)], 4), None),
            s(0, 0, SGeom::Poly(vec![(0, 300), (40, 300), (0, 340)]), None),
            s(1, 0, SGeom::Path(vec![(0, 400), (0, 440)], 6), Some("P")),
            s(1, 1, SGeom::Rect((0, 500), (7, 503)), Some("q")),
        ],
        1 => vec![],
        2 => vec![s(0, 0, SGeom::Rect((10, 5), (40, 25)), None)],
        3 => vec![s(1, 1, SGeom::Rect((40, 25), (10, 5)), Some("Rev")), s(1, 1, SGeom::Poly(l_shape((0, 100))), None), s(1, 1, SGeom::Path(vec![(0, 200), (40, 200)], 2), Some("Rev"))],
        4 => vec![s(0, 1, SGeom::Poly(vec![(0, 0), (0, 50), (20, 50), (20, 20), (60, 20), (60, 0)]), Some("cw")), s(0, 0, SGeom::Rect((-40, -25), (-10, -5)), Some("neg"))],
        // the third technology layer: purposes numbered 256, 300 and -5 next to drawing (20)
        7 => vec![
            s(2, 0, SGeom::Rect((0, 0), (10, 10)), Some("d20")),
            s(2, 1, SGeom::Rect((20, 0), (30, 10)), None),
            s(2, 2, SGeom::Poly(l_shape((40, 0))), Some("p300")),
            s(2, 3, SGeom::Path(vec![(0, 100), (50, 100)], 4), None),
            s(0, 0, SGeom::Rect((100, 0), (110, 10)), None),
        ],
        // net names that are blank, or carry leading / trailing / interior blanks, on all three shape kinds
        8 => vec![
            s(0, 0, SGeom::Rect((10, 5), (40, 25)), Some(" ")),
            s(0, 0, SGeom::Poly(l_shape((0, 100))), Some("vdd ")),
            s(1, 0, SGeom::Path(vec![(0, 200), (40, 200)], 4), Some(" lead")),
            s(1, 0, SGeom::Rect((50, 5), (90, 35)), Some("a b")),
            s(1, 1, SGeom::Rect((0, 500), (7, 503)), Some("\t")),
        ],
        // polygons of exactly four vertices: an axis-parallel rectangle listed counter-clockwise and clockwise (they
        // stay polygons), a parallelogram, a right trapezoid
        6 => vec![
            s(0, 0, SGeom::Poly(vec![(0, 0), (20, 0), (20, 10), (0, 10)]), Some("ccw4")),
            s(0, 0, SGeom::Poly(vec![(100, 0), (100, 10), (120, 10), (120, 0)]), None),
            s(1, 0, SGeom::Poly(vec![(0, 100), (20, 100), (30, 110), (10, 110)]), None),
            s(1, 1, SGeom::Poly(vec![(0, 200), (30, 200), (30, 210), (10, 210)]), Some("trap")),
        ],
        // rectangles given by every choice of opposite corners (lower-left/upper-right, the reverse, upper-left/lower-right,
        // lower-right/upper-left), at positive and negative coordinates, plus degenerate ones
        _ => vec![
            s(0, 0, SGeom::Rect((-10, 25), (30, 5)), Some("ullr")),
            s(0, 0, SGeom::Rect((30, 105), (-10, 125)), None),
            s(1, 0, SGeom::Rect((-30, -5), (-70, -45)), Some("urll")),
            s(1, 1, SGeom::Rect((200, 0), (200, 40)), None),
            // a polygon that repeats its first vertex at the end (explicitly closed), and a path returning to its start
            s(0, 1, SGeom::Poly(vec![(300, 0), (310, 0), (310, 10), (300, 10), (300, 0)]), Some("closed")),
            s(1, 0, SGeom::Path(vec![(400, 0), (450, 0), (450, 50), (400, 0)], 2), None),
            // a path stating a point twice in a row
            s(0, 0, SGeom::Path(vec![(500, 0), (600, 0), (600, 0), (600, 50)], 4), Some("twice")),
        ],
    }
}

fn gen(four: bool, c: &mut Chooser) -> Case {
    let mut tags: Vec<&'static str> = vec![];
    let u = c.cost(3, "units");
    tags.push(UNIT_TAGS[u]);
    // (an empty library - name and units only - is a library too)
    let n = if four { 4 } else { [1usize, 2, 3, 0][c.free(4, "cells")] };
    tags.push(["cells:0", "cells:1", "cells:2", "cells:3", "cells:4"][n]);
    // every DAG shape: any subset of the edges i -> j (i < j): cell i instantiates cell j
    let pairs: Vec<(usize, usize)> = (0..n).flat_map(|i| ((i + 1)..n).map(move |j| (i, j))).collect();
    let dag = c.free(1 << pairs.len(), "dag-edges");
    let order = perm(n, c.free((1..=n).product(), "listing-order"));
    if order.windows(2).any(|w| w[0] > w[1]) {
        tags.push("order:not-dependencies-first-or-last");
    }
    let edges: Vec<(usize, usize)> = pairs.iter().enumerate().filter(|(k, _)| dag >> k & 1 == 1).map(|(_, e)| *e).collect();
    if edges.len() >= 2 && edges.iter().any(|a| edges.iter().any(|b| a != b && a.1 == b.1)) {
        tags.push("dag:shared-dependency");
    }
    if edges.iter().any(|a| edges.iter().any(|b| a.1 == b.0)) {
        tags.push("dag:chain");
    }
    let mut cells: Vec<SCell> = vec![];
    for i in 0..n {
        let has_out = edges.iter().any(|e| e.0 == i);
        // views: the last cell never instantiates anything, so it may be abstract-only
        let views = if i == n - 1 { c.free(4, "leaf-views") } else { c.cost(2, "views") };
        let (has_layout, has_abs) = match views {
            0 => (true, false),
            1 => (true, true),
            2 => (false, true),
            // a placeholder: a cell with a name and no view at all (it can still be instantiated)
            _ => (false, false),
        };
        debug_assert!(has_layout || !has_out);
        tags.push(match (has_layout, has_abs) {
            (true, false) => "views:layout",
            (true, true) => "views:layout+abstract",
            (false, true) => "views:abstract",
            _ => "views:none",
        });
        let mut cell = SCell { name: CELL_NAMES[i].into(), layout: None, abs: None, view_names: None };
        // the views carry names of their own, different from the cell's
        if has_layout || has_abs {
            match c.cost(3, "view-names") {
                1 => {
                    tags.push("views:own-names");
                    cell.view_names = Some((format!("{}_lay", CELL_NAMES[i]), format!("{}_abstract", CELL_NAMES[i])));
                }
                // views without a name of their own inside a named cell
                2 => {
                    tags.push("views:own-names");
                    cell.view_names = Some((String::new(), String::new()));
                }
                _ => {}
            }
        }
        if has_layout {
            let mut lay = SLayout::default();
            for (a, b) in edges.iter().filter(|e| e.0 == i) {
                // options 8..=11: the rotation stated as a negative angle (-90, -180, -270; reflected -90)
                let o = c.cost(12, "orientation");
                tags.push(if o < 8 { ORIENT_TAGS[o] } else { "inst:negative-angle" });
                let loc = c.cost_of(&[(100 * *a as i64 + 7, -50 * *b as i64 - 3), (0, 0), (-100000, 2000000000)], "inst-loc");
                let angle = match o {
                    8 => Some(-90.0),
                    9 => Some(-180.0),
                    10 => Some(-270.0),
                    11 => Some(-90.0),
                    _ => match o % 4 {
                        0 => None,
                        q => Some(90.0 * q as f64),
                    },
                };
                lay.insts.push(SInst { name: format!("i_{a}_{b}"), cell: CELL_NAMES[*b].into(), loc, reflect: (4..8).contains(&o) || o == 11, angle });
            }
            if !lay.insts.is_empty() && c.cost(2, "angle-Some(0)-and-second-placement") == 1 {
                tags.push("inst:angle-Some(0)+second-placement");
                let first = lay.insts[0].clone();
                lay.insts.push(SInst { name: "again".into(), loc: (first.loc.0 + 1, first.loc.1 + 1), reflect: false, angle: Some(0.0), ..first });
            }
            let sv = c.cost(9, "shape-set");
            tags.push(["shapes:interleaved-all-kinds", "shapes:none", "shapes:single-rect", "shapes:one-layer-purpose", "shapes:cw-polygon+negative-rect", "shapes:rects-by-every-corner-pair", "shapes:four-vertex-polygons", "shapes:unusual-purpose-numbers", "shapes:blank-padded-nets"][sv]);
            lay.shapes = shape_set(sv, i as i64);
            let an = c.cost(4, "annotations");
            tags.push(["annotations:1", "annotations:0", "annotations:2", "annotations:empty-and-blank-strings"][an]);
            lay.annotations = match an {
                0 => vec![(format!("note {i}"), (11 + i as i64, -12))],
                1 => vec![],
                3 => vec![("a".into(), (1, 2)), ("".into(), (3, 4)), (" ".into(), (5, 6)), ("b ".into(), (7, 8))],
                _ => vec![("B second".into(), (5, 5)), ("a first".into(), (5, 5))],
            };
            cell.layout = Some(lay);
        }
        if has_abs {
            // options 3..=11: one port / the blockages on two layers, holding shape kind a (rectangle, polygon,
            // path) on the first layer and kind b on the second - every pair of kinds
            // option 12: three ports, two of them on the same net (they stay separate ports)
            // option 13: a port without any geometry between two ordinary ones (`AbstractPort::new(net)`)
            let pv = c.cost(14, "ports");
            tags.push(["ports:1-on-1-layer", "ports:0", "ports:2-second-on-2-layers", "ports:kind-pair"][pv.min(3)]);
            if pv == 12 {
                tags.push("ports:two-on-one-net");
            }
            if pv == 13 {
                tags.push("ports:one-without-geometry");
            }
            let bv = c.cost(12, "blockages");
            tags.push(["blockages:1-layer", "blockages:0", "blockages:2-layers", "blockages:kind-pair"][bv.min(3)]);
            let kind = |k: usize, at: i64| -> SGeom {
                match k {
                    0 => SGeom::Rect((at, 10), (at + 20, 25)),
                    1 => SGeom::Poly(l_shape((at, 40))),
                    _ => SGeom::Path(vec![(at, 90), (at + 60, 90), (at + 60, 120)], 6),
                }
            };
            let pair = |v: usize| -> Vec<(usize, Vec<SGeom>)> { vec![(0, vec![kind((v - 3) / 3, 10)]), (1, vec![kind((v - 3) % 3, 300)])] };
            let ov = c.cost(2, "outline");
            let outline = if ov == 0 { vec![(0, 0), (200, 0), (200, 100), (0, 100)] } else { l_shape((0, 0)).iter().map(|p| (4 * p.0, 4 * p.1)).collect() };
            let port1 = SPort { net: "A".into(), shapes: vec![(0, vec![SGeom::Rect((10, 10), (30, 20)), SGeom::Poly(l_shape((40, 40)))])] };
            let port2 = SPort { net: "vss".into(), shapes: vec![(1, vec![SGeom::Path(vec![(0, 90), (100, 90)], 8)]), (0, vec![SGeom::Rect((150, 10), (170, 30))])] };
            let ports = match pv {
                0 => vec![port1],
                1 => vec![],
                2 => vec![port1, port2],
                12 => {
                    let again = SPort { net: "A".into(), shapes: vec![(1, vec![SGeom::Rect((60, 70), (80, 75))])] };
                    vec![port1, port2, again]
                }
                13 => vec![port1, SPort { net: "vdd".into(), shapes: vec![] }, port2],
                v => vec![SPort { net: "kp".into(), shapes: pair(v) }],
            };
            let b1 = (1usize, vec![SGeom::Rect((60, 60), (90, 80))]);
            let b2 = (0usize, vec![SGeom::Poly(vec![(100, 0), (140, 0), (100, 40)]), SGeom::Path(vec![(0, 5), (50, 5)], 2)]);
            let blockages = match bv {
                0 => vec![b1],
                1 => vec![],
                2 => vec![b1, b2],
                v => pair(v),
            };
            cell.abs = Some(SAbs { outline, ports, blockages });
        }
        cells.push(cell);
    }
    // costed: the last cell goes by the library's name, a dot and the first cell's name ("lib14.ca" next to "ca"), or by
    // a name with a dot / slash of its own; references to it follow
    if cells.len() >= 2 {
        let alt = c.cost(3, "cell-name-with-a-dot");
        if alt != 0 {
            tags.push("names:dotted");
            let last = cells.len() - 1;
            let old = cells[last].name.clone();
            let new = if alt == 1 { format!("lib14.{}", cells[0].name) } else { "a.b/c".to_string() };
            cells[last].name = new.clone();
            for cell in cells.iter_mut() {
                if let Some(l) = cell.layout.as_mut() {
                    for i in l.insts.iter_mut() {
                        if i.cell == old {
                            i.cell = new.clone();
                        }
                    }
                }
            }
        }
    }
    let mut slots: Vec<Option<SCell>> = cells.into_iter().map(Some).collect();
    let listed: Vec<SCell> = order.iter().map(|&i| slots[i].take().unwrap()).collect();
    Case { spec: Spec { name: "lib14".into(), units: UNITS[u], cells: listed }, tags }
}

// ---------------------------------------------------------------------------------------------------
// independent construction of the protobuf message
// ---------------------------------------------------------------------------------------------------

fn ppt(p: P) -> proto::Point {
    proto::Point { x: p.0, y: p.1 }
}
fn add_geom(group: &mut proto::LayerShapes, g: &SGeom, net: &str) {
    match g {
        SGeom::Rect(a, b) => {
            let (x0, y0) = (a.0.min(b.0), a.1.min(b.1));
            group.rectangles.push(proto::Rectangle { net: net.into(), lower_left: Some(ppt((x0, y0))), width: a.0.max(b.0) - x0, height: a.1.max(b.1) - y0 });
        }
        SGeom::Poly(p) => group.polygons.push(proto::Polygon { net: net.into(), vertices: p.iter().map(|q| ppt(*q)).collect() }),
        SGeom::Path(p, w) => group.paths.push(proto::Path { net: net.into(), points: p.iter().map(|q| ppt(*q)).collect(), width: *w }),
    }
}
fn group_of(layer: usize, purpose_num: i16, shapes: &[SGeom]) -> proto::LayerShapes {
    let mut g = proto::LayerShapes { layer: Some(proto::Layer { number: rawspec::layer_num(layer) as i64, purpose: purpose_num as i64 }), ..Default::default() };
    for s in shapes {
        add_geom(&mut g, s, "");
    }
    g
}
fn proto_units(u: Units) -> i32 {
    match u {
        Units::Micro => proto::Units::Micro as i32,
        Units::Nano => proto::Units::Nano as i32,
        Units::Angstrom => proto::Units::Angstrom as i32,
        Units::Pico => panic!("MACHINERY: Pico is outside the schema"),
    }
}
/// the message describing `spec`, cells dependencies-first (stable with respect to the listing order)
pub fn build_proto(spec: &Spec) -> proto::Library {
    let mut emitted: Vec<&str> = vec![];
    let mut order: Vec<&SCell> = vec![];
    while order.len() < spec.cells.len() {
        let next = spec
            .cells
            .iter()
            .find(|c| !emitted.contains(&c.name.as_str()) && c.layout.as_ref().map(|l| l.insts.iter().all(|i| emitted.contains(&i.cell.as_str()))).unwrap_or(true))
            .expect("MACHINERY: spec is cyclic");
        emitted.push(&next.name);
        order.push(next);
    }
    let mut lib = proto::Library { domain: spec.name.clone(), units: proto_units(spec.units), cells: vec![], author: None };
    for c in order {
        let mut pc = proto::Cell { name: c.name.clone(), ..Default::default() };
        if let Some(l) = &c.layout {
            let mut pl = proto::Layout { name: c.layout_name(), ..Default::default() };
            for s in &l.shapes {
                let key = (rawspec::layer_num(s.layer) as i64, rawspec::purpose_num(s.layer, s.purpose) as i64);
                let pos = match pl.shapes.iter().position(|g| g.layer.as_ref().map(|l| (l.number, l.purpose)) == Some(key)) {
                    Some(p) => p,
                    None => {
                        pl.shapes.push(proto::LayerShapes { layer: Some(proto::Layer { number: key.0, purpose: key.1 }), ..Default::default() });
                        pl.shapes.len() - 1
                    }
                };
                add_geom(&mut pl.shapes[pos], &s.geom, s.net.as_deref().unwrap_or(""));
            }
            for i in &l.insts {
                pl.instances.push(proto::Instance {
                    name: i.name.clone(),
                    cell: Some(proto::Reference { to: Some(proto::reference::To::Local(i.cell.clone())) }),
                    origin_location: Some(ppt(i.loc)),
                    reflect_vert: i.reflect,
                    rotation_clockwise_degrees: i.angle.map(|a| a as i32).unwrap_or(0),
                });
            }
            for (s, at) in &l.annotations {
                pl.annotations.push(proto::TextElement { string: s.clone(), loc: Some(ppt(*at)) });
            }
            pc.layout = Some(pl);
        }
        if let Some(a) = &c.abs {
            let mut pa = proto::Abstract { name: c.abs_name(), outline: Some(proto::Polygon { net: "".into(), vertices: a.outline.iter().map(|q| ppt(*q)).collect() }), ..Default::default() };
            for p in &a.ports {
                let mut pp = proto::AbstractPort { net: p.net.clone(), shapes: vec![] };
                for (layer, shapes) in &p.shapes {
                    pp.shapes.push(group_of(*layer, rawspec::purpose_num_of(*layer, &LayerPurpose::Pin), shapes));
                }
                pa.ports.push(pp);
            }
            for (layer, shapes) in &a.blockages {
                pa.blockages.push(group_of(*layer, rawspec::purpose_num_of(*layer, &LayerPurpose::Obstruction), shapes));
            }
            pc.r#abstract = Some(pa);
        }
        lib.cells.push(pc);
    }
    lib
}

/// per-layer groups of abstract ports and blockages come out of hash maps: compare them as multisets
fn normalised(mut m: proto::Library) -> proto::Library {
    let key = |g: &proto::LayerShapes| g.layer.as_ref().map(|l| (l.number, l.purpose)).unwrap_or((i64::MIN, i64::MIN));
    for c in m.cells.iter_mut() {
        if let Some(a) = c.r#abstract.as_mut() {
            a.blockages.sort_by_key(key);
            for p in a.ports.iter_mut() {
                p.shapes.sort_by_key(key);
            }
        }
    }
    m
}
fn rotations_zeroed(mut m: proto::Library) -> proto::Library {
    for c in m.cells.iter_mut() {
        if let Some(l) = c.layout.as_mut() {
            for i in l.instances.iter_mut() {
                i.rotation_clockwise_degrees = 0;
            }
        }
    }
    m
}
fn spec_rotations_dropped(spec: &Spec) -> Spec {
    let mut s = spec.clone();
    for c in s.cells.iter_mut() {
        if let Some(l) = c.layout.as_mut() {
            for i in l.insts.iter_mut() {
                i.angle = None;
            }
        }
    }
    s
}
fn has_rotation(spec: &Spec) -> bool {
    spec.cells.iter().filter_map(|c| c.layout.as_ref()).flat_map(|l| l.insts.iter()).any(|i| matches!(i.angle, Some(a) if a != 0.0))
}

/// first difference between two messages, cell by cell
fn describe_diff(a: &proto::Library, b: &proto::Library) -> String {
    if a.domain != b.domain || a.units != b.units {
        return format!("domain/units ({:?},{}) vs ({:?},{})", a.domain, a.units, b.domain, b.units);
    }
    let an: Vec<&str> = a.cells.iter().map(|c| c.name.as_str()).collect();
    let bn: Vec<&str> = b.cells.iter().map(|c| c.name.as_str()).collect();
    if an != bn {
        return format!("cell lists {:?} vs {:?}", an, bn);
    }
    for (x, y) in a.cells.iter().zip(b.cells.iter()) {
        if x != y {
            if x.layout != y.layout {
                if let (Some(p), Some(q)) = (&x.layout, &y.layout) {
                    if p.instances != q.instances {
                        return format!("cell {}: instances {:?} vs {:?}", x.name, p.instances, q.instances);
                    }
                    if p.annotations != q.annotations {
                        return format!("cell {}: annotations {:?} vs {:?}", x.name, p.annotations, q.annotations);
                    }
                    return format!("cell {}: shapes {:?} vs {:?}", x.name, p.shapes, q.shapes);
                }
                return format!("cell {}: layout presence {} vs {}", x.name, x.layout.is_some(), y.layout.is_some());
            }
            return format!("cell {}: abstract {:?} vs {:?}", x.name, x.r#abstract, y.r#abstract);
        }
    }
    "messages differ".into()
}

type Fail = (&'static str, Option<&'static str>, String);

fn check_spec(spec: &Spec, key: &str, cx: &mut Cx) {
    let input = || truncate(&format!("{:?}", spec), 900);
    let mut fails: Vec<Fail> = vec![];
    let rot = has_rotation(spec);
    // ---- A: raw -> proto -> raw
    let lib = rawspec::build_raw(spec);
    match guard(|| lib.to_proto()) {
        Err(p) => fails.push(("export-panic", None, format!("to_proto panicked: {}", p.short()))),
        Ok(Err(e)) => fails.push(("export-error", None, format!("to_proto returned Err: {}", truncate(&format!("{e:?}"), 200)))),
        Ok(Ok(msg)) => {
            // topological and complete
            let names: Vec<&str> = msg.cells.iter().map(|c| c.name.as_str()).collect();
            let mut want: Vec<&str> = spec.cells.iter().map(|c| c.name.as_str()).collect();
            let mut have = names.clone();
            want.sort();
            have.sort();
            if want != have {
                fails.push(("export-cell-list", None, format!("exported cells {:?} are not exactly the library's cells {:?}", names, want)));
            }
            for (k, c) in msg.cells.iter().enumerate() {
                if let Some(l) = &c.layout {
                    for i in &l.instances {
                        let target = match i.cell.as_ref().and_then(|r| r.to.as_ref()) {
                            Some(proto::reference::To::Local(n)) => n.clone(),
                            other => format!("{other:?}"),
                        };
                        if !names[..k].contains(&target.as_str()) {
                            fails.push(("export-not-topological", None, format!("exported cell list {:?}: {} (position {k}) instantiates {target}, which is not listed before it", names, c.name)));
                        }
                    }
                }
            }
            let exp = rawspec::expected_view(spec, false);
            for with_layers in [false, true] {
                let layers = if with_layers { Some(Ptr::clone(&lib.layers)) } else { None };
                let how = if with_layers { "the original Layers" } else { "fresh Layers" };
                let m = msg.clone();
                match guard(move || Library::from_proto(m, layers).map(|l| rawview::view(&l))) {
                    Err(p) => fails.push(("reimport-panic", None, format!("from_proto (with {how}) of the exported message panicked: {}", p.short()))),
                    Ok(Err(e)) => fails.push(("reimport-error", None, format!("from_proto (with {how}) of the exported message returned Err: {}", truncate(&format!("{e:?}"), 200)))),
                    Ok(Ok(Err(m))) => fails.push(("reimport-unreadable", None, format!("re-imported library cannot be read: {m}"))),
                    Ok(Ok(Ok(got))) => {
                        let d = rawspec::compare_views(&exp, &got, MODE);
                        if !d.is_empty() {
                            let f = if rot && rawspec::compare_views(&rawspec::expected_view(&spec_rotations_dropped(spec), false), &got, MODE).is_empty() { Some("proto_export_drops_instance_rotation") } else { None };
                            fails.push((d[0].0, f, format!("raw -> proto -> raw (with {how}): {}", d.iter().map(|x| x.1.clone()).collect::<Vec<_>>().join(" // "))));
                        }
                    }
                }
            }
        }
    }
    // ---- B: proto -> raw -> proto
    let mut msg = build_proto(spec);
    // a library that draws on the third layer also gets, in the message only, a rectangle on (13, 0): a purpose number
    // the technology does not declare for that layer (whose drawing purpose is 20)
    if spec.cells.iter().any(|c| c.layout.as_ref().map(|l| l.shapes.iter().any(|s| s.layer == 2)).unwrap_or(false)) {
        if let Some(pl) = msg.cells.iter_mut().find_map(|c| c.layout.as_mut()) {
            pl.shapes.push(proto::LayerShapes {
                layer: Some(proto::Layer { number: 13, purpose: 0 }),
                rectangles: vec![proto::Rectangle { net: "".into(), lower_left: Some(proto::Point { x: 500, y: 500 }), width: 7, height: 9 }],
                ..Default::default()
            });
        }
    }
    let has_abs = spec.cells.iter().any(|c| c.abs.is_some());
    // abstracts carry no purpose in the raw model: their round trip needs the technology's Layers
    let modes: &[bool] = if has_abs { &[true] } else { &[true, false] };
    for &with_layers in modes {
        let layers = if with_layers { Some(Ptr::new(rawspec::build_layers().0)) } else { None };
        let how = if with_layers { "the technology's Layers" } else { "fresh Layers" };
        let m = msg.clone();
        match guard(move || Library::from_proto(m, layers).map(|l| l.to_proto())) {
            Err(p) => fails.push(("proto-roundtrip-panic", None, format!("proto -> raw -> proto (with {how}) panicked: {}", p.short()))),
            Ok(Err(e)) => fails.push(("proto-import-error", None, format!("from_proto (with {how}) of a supported message returned Err: {}", truncate(&format!("{e:?}"), 200)))),
            Ok(Ok(Err(e))) => fails.push(("proto-reexport-error", None, format!("to_proto(from_proto(msg)) (with {how}) returned Err: {}", truncate(&format!("{e:?}"), 200)))),
            Ok(Ok(Ok(msg2))) => {
                let (a, b) = (normalised(msg.clone()), normalised(msg2));
                if a != b {
                    let f = if rot && rotations_zeroed(a.clone()) == b { Some("proto_export_drops_instance_rotation") } else { None };
                    fails.push(("proto-roundtrip-differs", f, format!("proto -> raw -> proto (with {how}): {}", truncate(&describe_diff(&a, &b), 600))));
                }
            }
        }
    }
    if has_abs {
        // observation only (not judged): the same message through fresh Layers
        let m = msg.clone();
        match guard(move || Library::from_proto(m, None).map(|l| l.to_proto().map(|_| ()))) {
            Ok(Ok(Ok(()))) => cx.tag("observed:abstract-message-with-fresh-layers:ok"),
            Ok(Ok(Err(_))) => cx.tag("observed:abstract-message-with-fresh-layers:reexport-err"),
            Ok(Err(_)) => cx.tag("observed:abstract-message-with-fresh-layers:import-err"),
            Err(_) => cx.tag("observed:abstract-message-with-fresh-layers:panic"),
        }
    }
    if fails.is_empty() {
        cx.outcome("ok");
        return;
    }
    cx.outcome(fails[0].0);
    let mut seen: Vec<(&str, Option<&str>)> = vec![];
    for (sig, f, what) in &fails {
        if seen.contains(&(*sig, *f)) {
            continue;
        }
        seen.push((*sig, *f));
        cx.fail(key, sig, *f, || format!("{what}; input {}", input()), || json!({"input": rawspec::render(spec)}));
    }
}

static SELF_CHECK: std::sync::OnceLock<Result<(), String>> = std::sync::OnceLock::new();
/// the harness's own raw builder and message builder describe the same content (checked through the neutral
/// view of the raw library only - no converter involved), and the message lists dependencies first
fn self_check() -> Result<(), String> {
    SELF_CHECK
        .get_or_init(|| {
            let mut c = Chooser::new(&[0, 2, 7, 5, 1]);
            let case = gen(false, &mut c);
            let lib = rawspec::build_raw(&case.spec);
            let v = rawview::view(&lib)?;
            let d = rawspec::compare_views(&rawspec::expected_view(&case.spec, false), &v, MODE);
            if !d.is_empty() {
                return Err(format!("raw builder does not realise the spec: {d:?}"));
            }
            let m = build_proto(&case.spec);
            let names: Vec<&str> = m.cells.iter().map(|c| c.name.as_str()).collect();
            for (k, cell) in m.cells.iter().enumerate() {
                for i in cell.layout.iter().flat_map(|l| l.instances.iter()) {
                    if let Some(proto::reference::To::Local(n)) = i.cell.as_ref().and_then(|r| r.to.as_ref()) {
                        if !names[..k].contains(&n.as_str()) {
                            return Err("message builder does not list dependencies first".into());
                        }
                    }
                }
            }
            if m.cells.len() != 3 {
                return Err("self-check case should have three cells".into());
            }
            Ok(())
        })
        .clone()
}

impl CaseDriver for C14 {
    type Case = Case;
    fn id(&self) -> &'static str {
        "C14"
    }
    fn describe(&self, tier: Tier) -> Describe {
        Describe {
            rule: format!(
                "{} cells (or none at all) forming EVERY DAG (every subset of the edges i -> j, i < j, each edge an instance) listed in EVERY order; the last cell with layout / layout+abstract / abstract-only views or no view at all (a placeholder cell) (all free); costed (deviation bound {}): units Nano/Micro/Angstrom, abstract view on the other cells, each instance's orientation (8, and the rotation stated as -90 / -180 / -270) and offset (incl. 2e9), a second placement with angle Some(0), the layout's shape set (default: 7 shapes of all three kinds with and without nets interleaved over 2 layers x 2 purposes; none; one rectangle; all on one layer/purpose with a reversed-corner rectangle; clockwise polygon + negative rectangle; rectangles given by every pair of opposite corners, a degenerate rectangle, an explicitly closed polygon, a path returning to its start and a path stating a point twice in a row; four-vertex polygons: an axis-parallel rectangle in both windings, a parallelogram, a right trapezoid; shapes on a third layer whose purposes are numbered 20 / 256 / 300 / -5, the message additionally drawing on its undeclared purpose 0; net names that are blank or carry leading / trailing / interior blanks), annotations 1/0/2 or four of which one has the empty string and one a blank, abstract ports 1/0/2 (second port on two layers) or one port over two layers holding each of the 9 pairs of shape kinds (rectangle, polygon, path), or three ports two of which share a net, or three ports the middle one without any geometry, blockages on 1/0/2 layers or the same 9 kind pairs, outline rectangle / L, layout and abstract views named differently from their cell or not named at all, a cell named like the library, a dot and another cell / with a dot and a slash of its own. Each case is checked raw->proto->raw (fresh and original Layers) and proto->raw->proto (message built independently by the harness). Non-trivial = has an instance or an abstract.",
                if self.four { "4".to_string() } else { "1..3".to_string() },
                self.bound(tier)
            ),
            assumptions: vec![
                "rectangle = its 4-corner polygon, polygons up to rotation/direction of the vertex cycle (raw side); message equality is exact except that per-layer groups of abstract ports and blockages are compared as multisets (their order is C20's business)".into(),
                "instance angle None and Some(0) are the same rotation".into(),
                "abstract ports/blockages carry no purpose in the raw model: messages with abstracts are round-tripped with the technology's Layers (Pin / Obstruction purposes defined); with fresh Layers re-export of such a library fails with 'LayerPurpose Not Defined' - observed, not judged".into(),
                "nets are non-empty strings (the schema maps 'no net' to the empty string)".into(),
            ],
            excluded: vec!["Units::Pico (outside the schema; the exporter hits unimplemented!)".into(), "external references, interface/module fields, author metadata".into(), "raw libraries with instantiation cycles (C17)".into()],
            technique: "bounded-exhaustive enumeration of library descriptions (all DAGs x all listing orders x deviation-bounded content) through Library::to_proto / Library::from_proto in both directions, compared through a neutral view and by message equality".into(),
        }
    }
    fn bound(&self, t: Tier) -> usize {
        if self.four {
            2
        } else {
            t.pick(2, 3)
        }
    }
    fn unit_target(&self, t: Tier) -> usize {
        t.pick(3000, 24000)
    }
    fn gen(&self, _t: Tier, c: &mut Chooser) -> Case {
        gen(self.four, c)
    }
    fn render(&self, case: &Case) -> Value {
        rawspec::render(&case.spec)
    }
    fn check(&self, case: &Case, key: &str, cx: &mut Cx) {
        if let Err(e) = self_check() {
            cx.machinery(format!("C14 self-check failed: {e}"));
            return;
        }
        let nontrivial = case.spec.cells.iter().any(|c| c.abs.is_some() || c.layout.as_ref().map(|l| !l.insts.is_empty()).unwrap_or(false));
        cx.state(hash_debug(&case.spec), nontrivial);
        for t in &case.tags {
            cx.tag(t);
        }
        check_spec(&case.spec, key, cx);
    }
    fn guards(&self, _tier: Tier, stats: &Stats, _distinct: u64) -> Result<(), String> {
        if self.four {
            return require_tags(stats, &["cells:4"]);
        }
        require_tags(stats, &UNIT_TAGS)?;
        require_tags(stats, &ORIENT_TAGS)?;
        require_tags(
            stats,
            &[
                "cells:0", "cells:1", "cells:2", "cells:3", "views:layout", "views:layout+abstract", "views:abstract", "views:none", "dag:shared-dependency", "dag:chain", "order:not-dependencies-first-or-last", "shapes:interleaved-all-kinds", "shapes:none", "shapes:one-layer-purpose",
                "shapes:cw-polygon+negative-rect", "shapes:rects-by-every-corner-pair", "shapes:four-vertex-polygons", "shapes:unusual-purpose-numbers", "shapes:blank-padded-nets", "annotations:0", "annotations:2", "annotations:empty-and-blank-strings", "ports:0", "ports:2-second-on-2-layers", "ports:kind-pair", "ports:two-on-one-net", "ports:one-without-geometry", "blockages:0", "blockages:2-layers", "blockages:kind-pair", "views:own-names", "inst:angle-Some(0)+second-placement",
            ],
        )?;
        require_outcomes(stats, &["ok"])
    }
}

struct C14Multi;
fn multi(tier: Tier) -> Multi {
    let mut parts: Vec<(&'static str, Box<dyn Driver>)> = vec![("small", Box::new(ByCase(C14 { four: false })))];
    if tier.is_thorough() {
        parts.push(("four", Box::new(ByCase(C14 { four: true }))));
    }
    Multi { id: "C14", parts }
}
impl Driver for C14Multi {
    fn id(&self) -> &'static str {
        "C14"
    }
    fn describe(&self, tier: Tier) -> Describe {
        multi(tier).describe(tier)
    }
    fn units(&self, tier: Tier) -> Vec<String> {
        multi(tier).units(tier)
    }
    fn run_unit(&self, unit: &str, cx: &mut Cx) {
        multi(cx.tier).run_unit(unit, cx)
    }
    fn run_case(&self, key: &str, cx: &mut Cx) {
        multi(cx.tier).run_case(key, cx)
    }
    fn classify_crash(&self, tier: Tier, key: &str, death: &Death) -> Option<String> {
        multi(tier).classify_crash(tier, key, death)
    }
    fn render_case(&self, tier: Tier, key: &str) -> Value {
        multi(tier).render_case(tier, key)
    }
    fn guards(&self, tier: Tier, stats: &Stats, distinct: u64) -> Result<(), String> {
        multi(tier).guards(tier, stats, distinct)
    }
    fn deviation_bound(&self, tier: Tier) -> Option<usize> {
        multi(tier).deviation_bound(tier)
    }
}

pub fn driver() -> Box<dyn Driver> {
    Box::new(C14Multi)
}
