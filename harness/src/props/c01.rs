//! C01 — GDSII write-then-read returns the library that was written.
//!
//! For every library value of the shared generator (`gdsgen`): `lib.write(&mut Vec)` is `Err`, or
//! `GdsLibrary::from_bytes(bytes) == lib` (derived PartialEq). A panic is a violation.

use crate::core::*;
use crate::explore::Chooser;
use crate::props::gdsgen::*;
use crate::refmodel::gdsstream as gs;
use gds21::GdsLibrary;
use serde_json::{json, Value};
use std::sync::OnceLock;

pub const F_EMPTY: &str = "gds_empty_string_read_panic";
pub const F_EVEN_NUL: &str = "gds_string_even_len_trailing_nul";

/// reference self-check, once per process
pub fn ref_self_check(cx: &mut Cx) -> bool {
    static R: OnceLock<Result<(), String>> = OnceLock::new();
    match R.get_or_init(gs::self_check) {
        Ok(()) => true,
        Err(e) => {
            cx.machinery(format!("GDSII reference codec self-check failed: {e}"));
            false
        }
    }
}

/// Is this panic the recorded `read_str` zero-length defect? (failure mode part of the predicate)
pub fn is_read_str_len0_panic(p: &PanicInfo) -> bool {
    p.loc.contains("gds21/src/read.rs") && (p.msg.contains("subtract with overflow") || p.msg.contains("out of range") || p.msg.contains("out of bounds"))
}

/// first difference of two Debug renderings, with context
pub fn debug_diff<T: std::fmt::Debug>(want: &T, got: &T) -> String {
    let a = format!("{want:?}");
    let b = format!("{got:?}");
    let (ab, bb) = (a.as_bytes(), b.as_bytes());
    let mut i = 0;
    while i < ab.len() && i < bb.len() && ab[i] == bb[i] {
        i += 1;
    }
    let cut = |s: &str, i: usize| {
        let mut lo = i.saturating_sub(70);
        while !s.is_char_boundary(lo) {
            lo -= 1;
        }
        let mut hi = (i + 50).min(s.len());
        while !s.is_char_boundary(hi) {
            hi += 1;
        }
        s[lo..hi].to_string()
    };
    format!("expected …{}… got …{}…", cut(&a, i), cut(&b, i))
}

pub fn write_lib(lib: &GdsLibrary) -> Result<Result<Vec<u8>, String>, PanicInfo> {
    guard(|| {
        let mut buf: Vec<u8> = Vec::new();
        match lib.write(&mut buf) {
            Ok(()) => Ok(buf),
            Err(e) => Err(truncate(&format!("{e:?}"), 200)),
        }
    })
}
pub fn read_lib(bytes: &[u8]) -> Result<Result<GdsLibrary, String>, PanicInfo> {
    guard(|| GdsLibrary::from_bytes(bytes).map_err(|e| truncate(&format!("{e:?}"), 200)))
}

pub fn kind_ok_tag(k: gs::Kind) -> &'static str {
    match k {
        gs::Kind::Boundary => "ok:boundary",
        gs::Kind::Path => "ok:path",
        gs::Kind::Sref => "ok:sref",
        gs::Kind::Aref => "ok:aref",
        gs::Kind::Text => "ok:text",
        gs::Kind::Node => "ok:node",
        gs::Kind::Box => "ok:box",
    }
}
pub const OK_KIND_TAGS: &[&str] = &["ok:boundary", "ok:path", "ok:sref", "ok:aref", "ok:text", "ok:node", "ok:box"];

pub fn family_tag(f: &str) -> &'static str {
    match f {
        "single" => "family:single",
        "pairs" => "family:pairs",
        "strings" => "family:strings",
        "reals" => "family:reals",
        "triples" => "family:triples",
        _ => "family:limits",
    }
}
pub const FAMILY_TAGS: &[&str] = &["family:single", "family:pairs", "family:strings", "family:reals", "family:limits"];
/// the families a tier enumerates (indices into gdsgen::FAMILIES)
pub fn families(t: Tier) -> &'static [usize] {
    t.pick(&[0, 1, 2, 3, 4], &[0, 1, 2, 3, 4, 5])
}
pub fn require_families(t: Tier, stats: &Stats) -> Result<(), String> {
    require_tags(stats, FAMILY_TAGS)?;
    if t.is_thorough() {
        require_tags(stats, &["family:triples"])?;
    }
    Ok(())
}

pub fn space_rule(t: Tier) -> String {
    format!(
        "library values from the shared generator, {} families: [single] one structure with one element = kind (7) x every subset of the optional records x every strans variant (absent | present x reflect x abs-mag x abs-angle x mag? x angle?) x 0..2 properties, value deviations <= {}; [pairs] 0..2 structures, one structure with 0..2 elements (every ordered pair of the seven kinds) or two structures with 0..1 elements each, every element minimal or with all optional records, value deviations <= {}; {}[strings] 14 shapes (kind x minimal/full), one string site at a time (library, structure, reference name, text, property value) walks every string over {{a, B, e-acute, euro, space, NUL}} with 0..{} symbols plus 511- and 512-byte strings; [reals] sref/aref/text with full strans, the real sites (UNITS x2, MAG, ANGLE; <= {} at a time) walk a 40-value slice of the C15 alphabet (+-1..3 ulp around 1, 1/16, 16, 256, 4096; 90, 1e-3, 1e-9, smallest/largest normalised, +-0); [limits] coordinate lists of 4094..16384 points and strings of 32763..70000 bytes around the 0x8000 boundary and the 65535-byte record limit. Value deviations from the witness values (every field distinct from its siblings): integers {{witness, 0, -1, MIN, MAX}}, flag bytes {{witness, 0, 0xFFFF, swapped}}, dates {{witness, 0, -1, MIN, MAX, calendar, impossible}}, coordinate lists of 0, 1, 2, 5, 50 points and extreme coordinates, short strings {{witness, empty, a, ab, abc, e-acute, euro, a+NUL, NUL, 'x y'}}, short reals {{witness, 0, 1, 16-1ulp, -witness, 1/16-2ulp}}; all choice sequences within the stated deviation bounds. A state is one library value (hashed); non-trivial = has at least one element.",
        t.pick("five", "six"),
        t.pick(1, 2),
        t.pick(1, 2),
        t.pick("", "[triples] one structure with three elements, every ordered triple of kinds, each minimal or full, value deviations <= 1; "),
        t.pick(3, 5),
        t.pick(1, 2)
    )
}

pub struct C01;

impl CaseDriver for C01 {
    type Case = GenCase;
    fn id(&self) -> &'static str {
        "C01"
    }
    fn describe(&self, t: Tier) -> Describe {
        Describe {
            rule: space_rule(t),
            assumptions: vec![
                "+0.0 and -0.0 compare equal (derived PartialEq; the format has one zero)".into(),
                "write returning Err is always accepted (the statement allows it); vacuity guards require every element kind and every optional record to have round-tripped successfully, and record-limit overflows to have been refused".into(),
                "reals are taken from inside the GDSII real range only (16^-65 <= |x| < 16^63, and zero)".into(),
            ],
            excluded: vec![
                "libraries with more than 3 elements or 2 structures, strings outside the stated alphabet, values reached only with more deviations than the bound".into(),
                "GdsLibrary::save/open (same code path through a file)".into(),
            ],
            technique: "deviation-bounded exhaustive enumeration of library values; real writer then real reader; derived equality".into(),
        }
    }
    fn bound(&self, t: Tier) -> usize {
        t.pick(1, 2)
    }
    fn gen(&self, t: Tier, c: &mut Chooser) -> GenCase {
        gen_lib(t, c, families(t))
    }
    fn check(&self, case: &GenCase, key: &str, cx: &mut Cx) {
        if !ref_self_check(cx) {
            return;
        }
        let rl = &case.lib;
        cx.state(hash_of(rl), rl.elems().next().is_some());
        for t in tags_of(rl) {
            cx.tag(t);
        }
        cx.tag(family_tag(case.family));
        let lib = to_gds(rl);
        let bytes = match write_lib(&lib) {
            Err(p) => {
                cx.outcome("write-panic");
                cx.fail(key, "write-panic", None, || format!("write {}", p.short()), || json!({"library": render_lib(rl)}));
                return;
            }
            Ok(Err(e)) => {
                let fits = gs::records_to_bytes(&gs::lib_records(rl)).is_ok();
                cx.outcome(if !fits { "write-err:record-too-long" } else { "write-err:other" });
                if fits {
                    cx.sample(|| json!({"note": "write refused a value that fits the format (allowed by the statement)", "error": e, "library": render_lib(rl)}));
                }
                return;
            }
            Ok(Ok(b)) => b,
        };
        match read_lib(&bytes) {
            Err(p) => {
                let f = if has_empty_string(rl) && is_read_str_len0_panic(&p) { Some(F_EMPTY) } else { None };
                cx.outcome("read-panic");
                cx.fail(key, "read-panic", f, || format!("from_bytes of the written bytes: {}", p.short()), || json!({"library": render_lib(rl), "written": render_bytes(&bytes, 400)}));
            }
            Ok(Err(e)) => {
                cx.outcome("read-err");
                cx.fail(key, "read-err", None, || format!("written bytes are rejected by the reader: {e}"), || json!({"library": render_lib(rl), "written": render_bytes(&bytes, 400)}));
            }
            Ok(Ok(back)) => {
                if back == lib {
                    cx.outcome("ok");
                    for e in rl.elems() {
                        cx.tag(kind_ok_tag(e.kind));
                    }
                } else {
                    let f = if has_even_nul_string(rl) && back == to_gds(&with_even_nul_strings_cut(rl)) { Some(F_EVEN_NUL) } else { None };
                    cx.outcome("mismatch");
                    cx.fail(key, "mismatch", f, || format!("read-back library differs: {}", debug_diff(&lib, &back)), || json!({"library": render_lib(rl), "written": render_bytes(&bytes, 400)}));
                }
            }
        }
    }
    fn render(&self, case: &GenCase) -> Value {
        json!({"family": case.family, "library": render_lib(&case.lib)})
    }
    fn guards(&self, t: Tier, stats: &Stats, _d: u64) -> Result<(), String> {
        require_tags(stats, REQUIRED_TAGS)?;
        require_tags(stats, OK_KIND_TAGS)?;
        require_families(t, stats)?;
        require_outcomes(stats, &["ok", "write-err:record-too-long"])?;
        let ok = stats.outcomes.get("ok").copied().unwrap_or(0);
        if ok * 2 < stats.executions {
            return Err(format!("vacuity guard: only {ok} of {} cases round-tripped", stats.executions));
        }
        Ok(())
    }
    fn unit_target(&self, _t: Tier) -> usize {
        1024
    }
}

pub fn driver() -> Box<dyn Driver> {
    Box::new(ByCase(C01))
}
