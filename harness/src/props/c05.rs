//! C05 — LEF write-then-read returns the library that was written.
//!
//! Quantified over the *image of the reader*: every text of the C04 space is read with the real
//! `LefLibrary::open`; every distinct library obtained (distinct by its Debug rendering, so decimal scale
//! counts) is written with `to_string` and with `save`, and both results are read again and compared.

use crate::core::*;
use crate::explore::Chooser;
use crate::props::c04::{self, open_text, LefCase, Opened};
use crate::props::lefgen;
use crate::refmodel::lefrender as lr;
use lef21::*;
use serde_json::{json, Value};
use std::collections::HashSet;

pub const F_SITE: &str = "lef_writer_site_semicolons";
pub const F_NWE: &str = "lef_writer_refuses_nowireextensionatpin_above_5_4";
pub const F_PROP: &str = "lef_writer_property_without_semicolon";
pub const F_LEXER: &str = "lef_lexer_char_index_used_as_byte_index";

thread_local! {
    static SEEN: std::cell::RefCell<HashSet<u64>> = std::cell::RefCell::new(HashSet::new());
}

#[derive(Debug)]
enum Fail {
    WritePanic(String),
    WriteErr(String),
    ReopenPanic(String, String),
    ReopenErr(String, String),
    Mismatch(String, String),
}
impl Fail {
    fn sig(&self) -> &'static str {
        match self {
            Fail::WritePanic(_) => "write-panic",
            Fail::WriteErr(_) => "write-error",
            Fail::ReopenPanic(..) => "reopen-panic",
            Fail::ReopenErr(..) => "reopen-error",
            Fail::Mismatch(..) => "reopen-mismatch",
        }
    }
    fn what(&self) -> String {
        match self {
            Fail::WritePanic(m) | Fail::WriteErr(m) => m.clone(),
            Fail::ReopenPanic(m, _) | Fail::ReopenErr(m, _) | Fail::Mismatch(m, _) => m.clone(),
        }
    }
    fn text(&self) -> &str {
        match self {
            Fail::ReopenPanic(_, t) | Fail::ReopenErr(_, t) | Fail::Mismatch(_, t) => t,
            _ => "",
        }
    }
}

/// to_string + open, or save + open.
fn round_trip(lib: &LefLibrary, via_save: bool, cx: &Cx, tagged: Option<&mut Vec<String>>) -> Result<(), Fail> {
    let text2: String = if via_save {
        let path = cx.scratch_file("saved.lef");
        let _ = std::fs::remove_file(&path);
        match guard(|| lib.save(&path).map_err(|e| format!("{e}"))) {
            Err(p) => return Err(Fail::WritePanic(format!("save: {}", p.short()))),
            Ok(Err(e)) => return Err(Fail::WriteErr(format!("save: {}", truncate(&e, 300)))),
            Ok(Ok(())) => match std::fs::read(&path) {
                Ok(b) => String::from_utf8_lossy(&b).to_string(),
                Err(e) => return Err(Fail::WriteErr(format!("save returned Ok but the file is unreadable: {e}"))),
            },
        }
    } else {
        match guard(|| lib.to_string().map_err(|e| format!("{e}"))) {
            Err(p) => return Err(Fail::WritePanic(format!("to_string: {}", p.short()))),
            Ok(Err(e)) => return Err(Fail::WriteErr(format!("to_string: {}", truncate(&e, 300)))),
            Ok(Ok(t)) => t,
        }
    };
    if let Some(tags) = tagged {
        for t in lr::tokenize(&text2) {
            if t.k == lr::RK::Word {
                let w = &text2[t.start..t.end];
                if lr::KEYWORDS.contains(&w) {
                    let tag = format!("written:{w}");
                    if !tags.contains(&tag) {
                        tags.push(tag);
                    }
                }
            }
        }
    }
    let how = if via_save { "save+open" } else { "to_string+open" };
    match open_text(cx, &text2, "reopen.lef") {
        Opened::Panic(p) => Err(Fail::ReopenPanic(format!("{how}: {}", p.short()), text2)),
        Opened::Err(e, _) => Err(Fail::ReopenErr(format!("{how}: {}", truncate(&e, 300)), text2)),
        Opened::Ok(l2) => {
            if l2 == *lib {
                Ok(())
            } else {
                Err(Fail::Mismatch(format!("{how}: {}", c04::first_diff(&format!("{lib:?}"), &format!("{l2:?}"))), text2))
            }
        }
    }
}

fn ver(lib: &LefLibrary) -> rust_decimal::Decimal {
    lib.version.unwrap_or_else(|| lefgen::d("5.8"))
}

/// Replace every non-ASCII character in every string of the library (through its serde form).
fn ascii_lib(lib: &LefLibrary) -> Option<LefLibrary> {
    fn walk(v: &mut Value) {
        match v {
            Value::String(s) => *s = c04::ascii_subst(s),
            Value::Array(a) => a.iter_mut().for_each(walk),
            Value::Object(o) => o.values_mut().for_each(walk),
            _ => {}
        }
    }
    let mut v = serde_json::to_value(lib).ok()?;
    walk(&mut v);
    let mut out: LefLibrary = serde_json::from_value(v).ok()?;
    // fields the serde form skips
    out.fixed_mask = lib.fixed_mask;
    for (a, b) in out.macros.iter_mut().zip(lib.macros.iter()) {
        a.fixed_mask = b.fixed_mask;
    }
    Some(out)
}

/// Which recorded defect class explains this failure: the class is named only if removing exactly the
/// trigger(s) present in the library makes both write routes round-trip.
fn attribute(lib: &LefLibrary, cx: &mut Cx) -> Option<&'static str> {
    let mut applicable: Vec<&'static str> = vec![];
    let nonascii = !format!("{lib:?}").is_ascii();
    if nonascii {
        applicable.push(F_LEXER);
    }
    if !lib.sites.is_empty() {
        applicable.push(F_SITE);
    }
    if lib.no_wire_extension_at_pin.is_some() && ver(lib) > lefgen::d("5.4") {
        applicable.push(F_NWE);
    }
    if c04::has_props(lib) {
        applicable.push(F_PROP);
    }
    if applicable.is_empty() {
        return None;
    }
    let repaired = |skip: Option<&str>, cx: &mut Cx| -> bool {
        let mut l = lib.clone();
        if applicable.contains(&F_LEXER) && skip != Some(F_LEXER) {
            match ascii_lib(&l) {
                Some(x) => l = x,
                None => return false,
            }
        }
        if applicable.contains(&F_SITE) && skip != Some(F_SITE) {
            l.sites.clear();
        }
        if applicable.contains(&F_NWE) && skip != Some(F_NWE) {
            l.no_wire_extension_at_pin = None;
        }
        if applicable.contains(&F_PROP) && skip != Some(F_PROP) {
            for m in l.macros.iter_mut() {
                m.properties.clear();
                for p in m.pins.iter_mut() {
                    p.properties.clear();
                }
            }
        }
        cx.stats.evaluations += 2;
        round_trip(&l, false, cx, None).is_ok() && round_trip(&l, true, cx, None).is_ok()
    };
    if !repaired(None, cx) {
        return None;
    }
    if applicable.len() == 1 {
        return Some(applicable[0]);
    }
    for f in &applicable {
        if !repaired(Some(f), cx) {
            return Some(f);
        }
    }
    Some(applicable[0])
}

fn image_tags(lib: &LefLibrary) -> Vec<String> {
    let mut t = vec![format!("img:version-{}", lib.version.map(|v| v.normalize().to_string()).unwrap_or("none".into()))];
    let mut add = |c: bool, s: &str| {
        if c {
            t.push(format!("img:{s}"))
        }
    };
    add(lib.names_case_sensitive.is_some(), "namescasesensitive");
    add(lib.no_wire_extension_at_pin.is_some(), "nowireextensionatpin");
    add(lib.units.is_some(), "units");
    add(!lib.property_definitions.is_empty(), "propertydefinitions");
    add(!lib.extensions.is_empty(), "extensions");
    add(!lib.sites.is_empty(), "sites");
    add(lib.vias.iter().any(|v| matches!(v.data, LefViaDefData::Fixed(_))), "via-fixed");
    add(lib.vias.iter().any(|v| matches!(v.data, LefViaDefData::Generated(_))), "via-generated");
    add(lib.macros.iter().any(|m| m.density.is_some()), "density");
    add(lib.macros.iter().any(|m| !m.obs.is_empty()), "obs");
    add(lib.macros.iter().any(|m| m.source.is_some()), "macro-source");
    add(lib.macros.iter().any(|m| m.pins.iter().any(|p| !p.antenna_attrs.is_empty())), "antenna");
    add(c04::has_props(lib), "properties");
    t
}

pub struct C05;

impl CaseDriver for C05 {
    type Case = LefCase;
    fn id(&self) -> &'static str {
        "C05"
    }
    fn describe(&self, tier: Tier) -> Describe {
        Describe {
            rule: format!(
                "the image of the real reader over the C04 text space (library values from the {}-focus grammar walk, value deviations <= {}, every single lexical deviation{}): each text is read with LefLibrary::open; each library obtained, distinct by its Debug rendering (so 1.5 and 1.50 are different inputs of the writer), is written with to_string and with save and both texts are read again and compared with derived equality. A state is one distinct library of the image; non-trivial = it has at least one macro, site, via, extension, property definition or units block.",
                lefgen::FOCI.len(),
                self.bound(tier),
                if tier.is_thorough() { "; two value deviations with every lexical deviation except gaps; local lexical pairs for undeviated values" } else { "" }
            ),
            assumptions: vec![
                "libraries are de-duplicated per worker process (a library reached through several texts is written once per worker); the verdict of a case does not depend on it".into(),
                "texts the reader rejects or panics on are outside the image (they are C04 / C11 matter) and are only counted".into(),
            ],
            excluded: vec![
                "the lefrw binary (the harness links the library, not the binary); its code path is save/open, which are covered".into(),
                "POLYGON / PATH geometries with ITERATE reach the writer only if the reader accepts them (it rejects them today: C04 finding lef_reader_rejects_iterate_on_polygon_and_path)".into(),
                "library values outside the reader's image (e.g. EXCEPTPGNET false, SOURCE above 5.4)".into(),
            ],
            technique: "deviation-bounded exhaustive enumeration of reader inputs; every distinct reader output pushed through both writer entry points and back through the reader".into(),
        }
    }
    fn bound(&self, t: Tier) -> usize {
        t.pick(1, 2)
    }
    fn gen(&self, tier: Tier, c: &mut Chooser) -> LefCase {
        c04::gen_case(tier, c)
    }
    fn unit_target(&self, t: Tier) -> usize {
        t.pick(40000, 60000)
    }
    fn render(&self, case: &LefCase) -> Value {
        c04::render_case_json(case)
    }
    fn check(&self, case: &LefCase, key: &str, cx: &mut Cx) {
        if !c04::self_check_once(cx) {
            return;
        }
        if let Some(e) = &case.render_err {
            cx.machinery(format!("renderer/tokenizer disagreement at case {key}: {e}"));
            return;
        }
        let lib = match open_text(cx, &case.r.text, "in.lef") {
            Opened::Ok(l) => l,
            Opened::Err(..) => {
                cx.outcome("text-rejected-by-reader");
                return;
            }
            Opened::Panic(_) => {
                cx.outcome("reader-panicked");
                return;
            }
        };
        let h = hash_debug(&lib);
        if !SEEN.with(|s| s.borrow_mut().insert(h)) {
            cx.outcome("library-already-checked");
            return;
        }
        let nontrivial = !lib.macros.is_empty()
            || !lib.sites.is_empty()
            || !lib.vias.is_empty()
            || !lib.extensions.is_empty()
            || !lib.property_definitions.is_empty()
            || lib.units.is_some();
        cx.state(h, nontrivial);
        for t in image_tags(&lib) {
            cx.tag(&t);
        }
        let mut written: Vec<String> = vec![];
        let r1 = round_trip(&lib, false, cx, Some(&mut written));
        let r2 = round_trip(&lib, true, cx, None);
        cx.stats.evaluations += 1;
        for t in &written {
            cx.tag(t);
        }
        let fail = match (r1, r2) {
            (Ok(()), Ok(())) => {
                cx.outcome("ok");
                return;
            }
            (Err(f), _) => f,
            (Ok(()), Err(f)) => f,
        };
        let finding = attribute(&lib, cx);
        let sig = fail.sig();
        cx.outcome(&format!("{sig}{}", finding.map(|f| format!("[{f}]")).unwrap_or_default()));
        cx.fail(
            key,
            sig,
            finding,
            || format!("{sig} for a library read from focus {}: {}", case.focus, fail.what()),
            || json!({"library_read": truncate(&format!("{lib:?}"), 3000), "written_text": fail.text(), "what": fail.what()}),
        );
    }
    fn guards(&self, _tier: Tier, stats: &Stats, _distinct: u64) -> Result<(), String> {
        let mut tags: Vec<String> = vec![];
        for v in ["5.8", "5.7", "5.6", "5.5", "5.4", "5.3", "none"] {
            tags.push(format!("img:version-{v}"));
        }
        for t in [
            "namescasesensitive", "nowireextensionatpin", "units", "propertydefinitions", "extensions", "sites", "via-fixed",
            "via-generated", "density", "obs", "macro-source", "antenna", "properties",
        ] {
            tags.push(format!("img:{t}"));
        }
        // every keyword the writer can emit for a library of the reader's image
        let not_written = ["ROWPATTERN", "PATTERN", "MAXVIASTACK", "GENERATE"];
        for k in lr::KEYWORDS {
            if !not_written.contains(k) {
                tags.push(format!("written:{k}"));
            }
        }
        let refs: Vec<&str> = tags.iter().map(|s| s.as_str()).collect();
        require_tags(stats, &refs)?;
        require_outcomes(stats, &["ok", "library-already-checked"])
    }
}

/// (signature, description, written text) of a failed to_string + open round trip
pub fn round_trip_pub(lib: &LefLibrary, cx: &Cx) -> Result<(), (&'static str, String, String)> {
    round_trip(lib, false, cx, None).map_err(|f| (f.sig(), f.what(), f.text().to_string()))
}
pub fn attribute_pub(lib: &LefLibrary, cx: &mut Cx) -> Option<&'static str> {
    attribute(lib, cx)
}

pub fn driver() -> Box<dyn Driver> {
    Box::new(Multi {
        id: "C05",
        parts: vec![("generated", Box::new(c04::LefSpace(ByCase(C05)))), ("faulted", Box::new(super::c11::C11 { image_of_reader: true }))],
    })
}
